//! Native bridge: links the real tau-engine (path dependency on /repo) and
//! serves two purposes over a JSON-lines protocol on stdin/stdout:
//!   * export: load / optimise rules with the real loader and optimiser and
//!     dump the resulting expression trees;
//!   * replay: evaluate rules, tokenise, parse patterns, resolve paths and
//!     validate with the real code, inside catch_unwind, so that every solver
//!     counterexample is confirmed before it is reported.
//! It contains no model of tau-engine.

use std::borrow::Cow;
use std::io::{self, BufRead, Write};
use std::panic::{self, AssertUnwindSafe};

use serde_json::{json, Value as J};

use tau_engine::core::optimiser::Optimisations;
use tau_engine::core::parser::{
    BoolSym, Expression, IdentifierParser, Match, MatchType, ModSym, Pattern, Search, Token,
    Tokeniser,
};
use tau_engine::{AsValue, Document, Rule, Value};

// ---------------------------------------------------------------------------
// replay documents: every tau_engine::Value kind, including Int >= 0 and
// UInt, which YAML/JSON cannot both express

#[derive(Clone, Debug)]
enum V {
    Null,
    Bool(bool),
    F(f64),
    I(i64),
    U(u64),
    S(String),
    A(Arr),
    O(Obj),
}

#[derive(Clone, Debug)]
struct Arr(Vec<V>);
#[derive(Clone, Debug)]
struct Obj(Vec<(String, V)>);
/// a hand-written Document: find(key) is an exact lookup of the whole key
#[derive(Clone, Debug)]
struct Flat(Vec<(String, V)>);

impl AsValue for V {
    fn as_value(&self) -> Value<'_> {
        match self {
            V::Null => Value::Null,
            V::Bool(b) => Value::Bool(*b),
            V::F(f) => Value::Float(*f),
            V::I(i) => Value::Int(*i),
            V::U(u) => Value::UInt(*u),
            V::S(s) => Value::String(Cow::Borrowed(s)),
            V::A(a) => Value::Array(a),
            V::O(o) => Value::Object(o),
        }
    }
}

impl tau_engine::Array for Arr {
    fn iter(&self) -> Box<dyn Iterator<Item = Value<'_>> + '_> {
        Box::new(self.0[..].iter().map(|v| v.as_value()))
    }
    fn len(&self) -> usize {
        self.0.len()
    }
}

impl tau_engine::Object for Obj {
    fn get(&self, key: &str) -> Option<Value<'_>> {
        self.0.iter().find(|(k, _)| k == key).map(|(_, v)| v.as_value())
    }
    fn keys(&self) -> Vec<Cow<'_, str>> {
        self.0.iter().map(|(k, _)| Cow::Borrowed(k.as_str())).collect()
    }
    fn len(&self) -> usize {
        self.0.len()
    }
}

// an object that answers `find` itself (the trait invites overriding it): whoever uses it as a document must ask `find`
struct Marked;
impl tau_engine::Object for Marked {
    fn find(&self, _key: &str) -> Option<Value<'_>> {
        Some(Value::String(Cow::Borrowed("find")))
    }
    fn get(&self, _key: &str) -> Option<Value<'_>> {
        Some(Value::String(Cow::Borrowed("get")))
    }
    fn keys(&self) -> Vec<Cow<'_, str>> {
        vec![]
    }
    fn len(&self) -> usize {
        0
    }
}

impl Document for Flat {
    fn find(&self, key: &str) -> Option<Value<'_>> {
        self.0.iter().find(|(k, _)| k == key).map(|(_, v)| v.as_value())
    }
}

fn bytes_to_string(j: &J) -> Result<String, String> {
    let bs: Vec<u8> = j
        .as_array()
        .ok_or("expected byte array")?
        .iter()
        .map(|b| b.as_u64().unwrap_or(0) as u8)
        .collect();
    String::from_utf8(bs).map_err(|e| format!("not utf-8: {}", e))
}

fn to_v(j: &J) -> Result<V, String> {
    Ok(match j {
        J::Null => V::Null,
        J::Bool(b) => V::Bool(*b),
        J::Array(a) => V::A(Arr(a.iter().map(to_v).collect::<Result<Vec<_>, _>>()?)),
        J::Object(m) => {
            if let Some(x) = m.get("$f64") {
                V::F(f64::from_bits(x.as_u64().ok_or("bad $f64")?))
            } else if let Some(x) = m.get("$i64") {
                V::I(x.as_i64().ok_or("bad $i64")?)
            } else if let Some(x) = m.get("$u64") {
                V::U(x.as_u64().ok_or("bad $u64")?)
            } else if let Some(x) = m.get("$str") {
                V::S(bytes_to_string(x)?)
            } else if let Some(x) = m.get("$obj") {
                V::O(Obj(to_fields(x)?))
            } else {
                return Err(format!("unknown value encoding {:?}", j));
            }
        }
        J::Number(n) => {
            if let Some(u) = n.as_u64() {
                V::U(u)
            } else if let Some(i) = n.as_i64() {
                V::I(i)
            } else {
                V::F(n.as_f64().unwrap())
            }
        }
        J::String(s) => V::S(s.clone()),
    })
}

fn to_fields(j: &J) -> Result<Vec<(String, V)>, String> {
    // [[keybytes, value], ...]
    let mut out = vec![];
    for kv in j.as_array().ok_or("expected field list")? {
        let k = bytes_to_string(&kv[0])?;
        out.push((k, to_v(&kv[1])?));
    }
    Ok(out)
}

// ---------------------------------------------------------------------------
// tree export

fn jb(s: &str) -> J {
    J::Array(s.as_bytes().iter().map(|b| json!(*b)).collect())
}

fn boolsym(b: &BoolSym) -> &'static str {
    match b {
        BoolSym::And => "And",
        BoolSym::Equal => "Equal",
        BoolSym::GreaterThan => "GreaterThan",
        BoolSym::GreaterThanOrEqual => "GreaterThanOrEqual",
        BoolSym::LessThan => "LessThan",
        BoolSym::LessThanOrEqual => "LessThanOrEqual",
        BoolSym::Or => "Or",
    }
}

fn modsym(m: &ModSym) -> &'static str {
    match m {
        ModSym::Flt => "Flt",
        ModSym::Int => "Int",
        ModSym::Not => "Not",
        ModSym::Str => "Str",
    }
}

fn matchtype(m: &MatchType) -> J {
    let (t, v) = match m {
        MatchType::Contains(s) => ("Contains", s),
        MatchType::EndsWith(s) => ("EndsWith", s),
        MatchType::Exact(s) => ("Exact", s),
        MatchType::StartsWith(s) => ("StartsWith", s),
    };
    json!({"t": t, "v": jb(v)})
}

fn search(s: &Search) -> J {
    match s {
        Search::AhoCorasick(_, m, i) => {
            json!({"t": "AhoCorasick", "m": m.iter().map(matchtype).collect::<Vec<_>>(), "i": i})
        }
        Search::Any => json!({"t": "Any"}),
        Search::Contains(v) => json!({"t": "Contains", "v": jb(v)}),
        Search::EndsWith(v) => json!({"t": "EndsWith", "v": jb(v)}),
        Search::Exact(v) => json!({"t": "Exact", "v": jb(v)}),
        Search::StartsWith(v) => json!({"t": "StartsWith", "v": jb(v)}),
        Search::Regex(r, i) => json!({"t": "Regex", "p": jb(r.as_str()), "i": i}),
        Search::RegexSet(r, i) => {
            json!({"t": "RegexSet", "ps": r.patterns().iter().map(|p| jb(p)).collect::<Vec<_>>(), "i": i})
        }
    }
}

fn expr(e: &Expression) -> J {
    match e {
        Expression::BooleanGroup(o, g) => {
            json!({"t": "BooleanGroup", "op": boolsym(o), "g": g.iter().map(expr).collect::<Vec<_>>()})
        }
        Expression::BooleanExpression(l, o, r) => {
            json!({"t": "BooleanExpression", "l": expr(l), "op": boolsym(o), "r": expr(r)})
        }
        Expression::Boolean(b) => json!({"t": "Boolean", "v": b}),
        Expression::Cast(f, m) => json!({"t": "Cast", "f": jb(f), "m": modsym(m)}),
        Expression::Field(f) => json!({"t": "Field", "f": jb(f)}),
        Expression::Float(f) => json!({"t": "Float", "bits": f.to_bits()}),
        Expression::Identifier(f) => json!({"t": "Identifier", "f": jb(f)}),
        Expression::Integer(i) => json!({"t": "Integer", "v": i}),
        Expression::Match(Match::All, e) => json!({"t": "Match", "m": "All", "e": expr(e)}),
        Expression::Match(Match::Of(n), e) => json!({"t": "Match", "m": n, "e": expr(e)}),
        Expression::Matrix(c, r) => json!({
            "t": "Matrix",
            "c": c.iter().map(|s| jb(s)).collect::<Vec<_>>(),
            "r": r.iter().map(|row| row.iter().map(|c| match c { Some(e) => expr(e), None => J::Null }).collect::<Vec<_>>()).collect::<Vec<_>>()
        }),
        Expression::Negate(e) => json!({"t": "Negate", "e": expr(e)}),
        Expression::Nested(f, e) => json!({"t": "Nested", "f": jb(f), "e": expr(e)}),
        Expression::Null => json!({"t": "Null"}),
        Expression::Search(s, f, c) => json!({"t": "Search", "s": search(s), "f": jb(f), "c": c}),
    }
}

// ---------------------------------------------------------------------------
// tree import (exact replay of an exported tree, e.g. one particular HashMap
// iteration order of the optimiser): engines are rebuilt the way parser.rs and
// optimiser.rs build them

fn from_bytes(j: &J) -> Result<String, String> {
    bytes_to_string(j)
}

fn to_boolsym(s: &str) -> Result<BoolSym, String> {
    Ok(match s {
        "And" => BoolSym::And,
        "Equal" => BoolSym::Equal,
        "GreaterThan" => BoolSym::GreaterThan,
        "GreaterThanOrEqual" => BoolSym::GreaterThanOrEqual,
        "LessThan" => BoolSym::LessThan,
        "LessThanOrEqual" => BoolSym::LessThanOrEqual,
        "Or" => BoolSym::Or,
        _ => return Err(format!("bad boolsym {}", s)),
    })
}

fn to_modsym(s: &str) -> Result<ModSym, String> {
    Ok(match s {
        "Flt" => ModSym::Flt,
        "Int" => ModSym::Int,
        "Not" => ModSym::Not,
        "Str" => ModSym::Str,
        _ => return Err(format!("bad modsym {}", s)),
    })
}

fn to_matchtype(j: &J) -> Result<MatchType, String> {
    let v = from_bytes(&j["v"])?;
    Ok(match j["t"].as_str().unwrap_or("") {
        "Contains" => MatchType::Contains(v),
        "EndsWith" => MatchType::EndsWith(v),
        "Exact" => MatchType::Exact(v),
        "StartsWith" => MatchType::StartsWith(v),
        t => return Err(format!("bad matchtype {}", t)),
    })
}

fn to_search(j: &J) -> Result<Search, String> {
    let t = j["t"].as_str().ok_or("search kind")?;
    Ok(match t {
        "Any" => Search::Any,
        "Contains" => Search::Contains(from_bytes(&j["v"])?),
        "EndsWith" => Search::EndsWith(from_bytes(&j["v"])?),
        "Exact" => Search::Exact(from_bytes(&j["v"])?),
        "StartsWith" => Search::StartsWith(from_bytes(&j["v"])?),
        "Regex" => {
            let i = j["i"].as_bool().unwrap_or(false);
            Search::Regex(
                regex::RegexBuilder::new(&from_bytes(&j["p"])?)
                    .case_insensitive(i)
                    .build()
                    .map_err(|e| e.to_string())?,
                i,
            )
        }
        "RegexSet" => {
            let i = j["i"].as_bool().unwrap_or(false);
            let ps: Vec<String> = j["ps"].as_array().ok_or("ps")?.iter().map(from_bytes).collect::<Result<_, _>>()?;
            Search::RegexSet(
                regex::RegexSetBuilder::new(ps).case_insensitive(i).build().map_err(|e| e.to_string())?,
                i,
            )
        }
        "AhoCorasick" => {
            let i = j["i"].as_bool().unwrap_or(false);
            let m: Vec<MatchType> = j["m"].as_array().ok_or("m")?.iter().map(to_matchtype).collect::<Result<_, _>>()?;
            let needles: Vec<String> = m.iter().map(|x| x.value().clone()).collect();
            Search::AhoCorasick(
                Box::new(
                    aho_corasick::AhoCorasickBuilder::new()
                        .ascii_case_insensitive(i)
                        .kind(Some(aho_corasick::AhoCorasickKind::DFA))
                        .build(needles)
                        .map_err(|e| e.to_string())?,
                ),
                m,
                i,
            )
        }
        _ => return Err(format!("bad search {}", t)),
    })
}

fn to_expr(j: &J) -> Result<Expression, String> {
    let t = j["t"].as_str().ok_or("expr kind")?;
    Ok(match t {
        "BooleanGroup" => Expression::BooleanGroup(
            to_boolsym(j["op"].as_str().unwrap_or(""))?,
            j["g"].as_array().ok_or("g")?.iter().map(to_expr).collect::<Result<_, _>>()?,
        ),
        "BooleanExpression" => Expression::BooleanExpression(
            Box::new(to_expr(&j["l"])?),
            to_boolsym(j["op"].as_str().unwrap_or(""))?,
            Box::new(to_expr(&j["r"])?),
        ),
        "Boolean" => Expression::Boolean(j["v"].as_bool().ok_or("v")?),
        "Cast" => Expression::Cast(from_bytes(&j["f"])?, to_modsym(j["m"].as_str().unwrap_or(""))?),
        "Field" => Expression::Field(from_bytes(&j["f"])?),
        "Float" => Expression::Float(f64::from_bits(j["bits"].as_u64().ok_or("bits")?)),
        "Identifier" => Expression::Identifier(from_bytes(&j["f"])?),
        "Integer" => Expression::Integer(j["v"].as_i64().ok_or("v")?),
        "Match" => {
            let m = if j["m"].as_str() == Some("All") { Match::All } else { Match::Of(j["m"].as_u64().ok_or("m")?) };
            Expression::Match(m, Box::new(to_expr(&j["e"])?))
        }
        "Matrix" => Expression::Matrix(
            j["c"].as_array().ok_or("c")?.iter().map(from_bytes).collect::<Result<_, _>>()?,
            j["r"]
                .as_array()
                .ok_or("r")?
                .iter()
                .map(|row| {
                    row.as_array()
                        .ok_or("row".to_string())?
                        .iter()
                        .map(|c| if c.is_null() { Ok(None) } else { to_expr(c).map(Some) })
                        .collect::<Result<Vec<_>, String>>()
                })
                .collect::<Result<_, _>>()?,
        ),
        "Negate" => Expression::Negate(Box::new(to_expr(&j["e"])?)),
        "Nested" => Expression::Nested(from_bytes(&j["f"])?, Box::new(to_expr(&j["e"])?)),
        "Null" => Expression::Null,
        "Search" => Expression::Search(to_search(&j["s"])?, from_bytes(&j["f"])?, j["c"].as_bool().unwrap_or(false)),
        _ => return Err(format!("bad expr {}", t)),
    })
}

// ---------------------------------------------------------------------------
// engine-object probes: does the compiled regex / regex set / automaton stored
// in a tree behave like the one its (pattern text, flag, needle list) describes?
// (The checks' models are built from the described form.)

fn probe_strings(text: &str) -> Vec<String> {
    let mut out: Vec<String> = vec![];
    let mut runs: Vec<String> = vec![];
    let mut cur = String::new();
    for c in text.chars() {
        if c.is_alphanumeric() {
            cur.push(c);
        } else if !cur.is_empty() {
            runs.push(cur.clone());
            cur.clear();
        }
    }
    if !cur.is_empty() {
        runs.push(cur);
    }
    runs.push(text.to_string());
    for r in runs {
        let last = r.chars().last().map(|c| c.to_string()).unwrap_or_default();
        for v in [r.clone(), format!("{}{}", r, last), format!("x{}", r), format!("{}x", r)] {
            out.push(v.clone());
            out.push(v.to_uppercase());
            out.push(v.to_lowercase());
        }
    }
    out.sort();
    out.dedup();
    out
}

fn combined_probes(texts: &[String]) -> Vec<String> {
    let mut out: Vec<String> = vec![];
    for t in texts {
        out.extend(probe_strings(t));
    }
    // every member at once (so that an all()/of() over the members is decided by case folding alone)
    let runs: Vec<String> = texts
        .iter()
        .map(|t| t.chars().filter(|c| c.is_alphanumeric()).collect::<String>())
        .collect();
    for sep in ["", " "] {
        let j = runs.join(sep);
        out.push(j.clone());
        out.push(j.to_uppercase());
        out.push(j.to_lowercase());
    }
    out.sort();
    out.dedup();
    out
}

fn probe_search(s: &Search, field: &str, out: &mut Vec<J>) {
    let mut push = |p: &str, what: String| {
        out.push(json!({"field": jb(field), "probe": jb(p), "what": what}));
    };
    match s {
        Search::Regex(r, i) => {
            if let Ok(fresh) = regex::RegexBuilder::new(r.as_str()).case_insensitive(*i).build() {
                let mut n = 0;
                for p in probe_strings(r.as_str()) {
                    if fresh.is_match(&p) != r.is_match(&p) && n < 6 {
                        n += 1;
                        push(&p, format!("regex({}) with flag {} behaves differently from the compiled object", r.as_str(), i));
                    }
                }
            }
        }
        Search::RegexSet(set, i) => {
            let pats: Vec<String> = set.patterns().to_vec();
            let fresh: Vec<Option<regex::Regex>> = pats.iter().map(|p| regex::RegexBuilder::new(p).case_insensitive(*i).build().ok()).collect();
            let mut n = 0;
            for p in combined_probes(&pats) {
                let m = set.matches(&p);
                let differs = fresh.iter().enumerate().any(|(k, f)| f.as_ref().map(|f| f.is_match(&p) != m.matched(k)).unwrap_or(false));
                if differs && n < 8 {
                    n += 1;
                    push(&p, format!("regex_set {:?} with flag {} behaves differently from the compiled set", pats, i));
                }
            }
        }
        Search::AhoCorasick(a, m, i) => {
            let needles: Vec<String> = m.iter().map(|x| x.value().clone()).collect();
            if let Ok(fresh) = aho_corasick::AhoCorasickBuilder::new()
                .ascii_case_insensitive(*i)
                .kind(Some(aho_corasick::AhoCorasickKind::DFA))
                .build(&needles)
            {
                let mut n = 0;
                for p in combined_probes(&needles) {
                    let mut x: Vec<(usize, usize, usize)> = fresh.find_overlapping_iter(&p).map(|h| (h.pattern().as_usize(), h.start(), h.end())).collect();
                    let mut y: Vec<(usize, usize, usize)> = a.find_overlapping_iter(&p).map(|h| (h.pattern().as_usize(), h.start(), h.end())).collect();
                    x.sort();
                    y.sort();
                    if x != y && n < 8 {
                        n += 1;
                        push(&p, format!("automaton over {:?} with flag {} behaves differently from the compiled one (needles and member kinds misaligned?)", needles, i));
                    }
                }
            }
        }
        _ => {}
    }
}

fn probe_expr(e: &Expression, out: &mut Vec<J>) {
    match e {
        Expression::BooleanGroup(_, g) => g.iter().for_each(|x| probe_expr(x, out)),
        Expression::BooleanExpression(l, _, r) => {
            probe_expr(l, out);
            probe_expr(r, out);
        }
        Expression::Match(_, x) | Expression::Negate(x) | Expression::Nested(_, x) => probe_expr(x, out),
        Expression::Matrix(_, rows) => rows.iter().for_each(|r| r.iter().flatten().for_each(|x| probe_expr(x, out))),
        Expression::Search(s, f, _) => probe_search(s, f, out),
        _ => {}
    }
}

fn token(t: &Token) -> J {
    json!(format!("{:?}", t))
}

fn opts(j: &J) -> Option<Optimisations> {
    let a = j.as_array()?;
    Some(Optimisations {
        coalesce: a[0].as_bool()?,
        shake: a[1].as_bool()?,
        rewrite: a[2].as_bool()?,
        matrix: a[3].as_bool()?,
    })
}

fn load(req: &J) -> Result<Rule, String> {
    let yaml = req["yaml"].as_str().ok_or("missing yaml")?;
    let rule = if req["from_value"].as_bool().unwrap_or(false) {
        let v: serde_yaml::Value = serde_yaml::from_str(yaml).map_err(|e| format!("yaml: {}", e))?;
        Rule::from_value(v).map_err(|e| format!("{}", e))?
    } else {
        Rule::from_str(yaml).map_err(|e| format!("{}", e))?
    };
    Ok(match opts(&req["opts"]) {
        Some(o) => rule.optimise(o),
        None => rule,
    })
}

fn rule_json(rule: &Rule) -> J {
    let mut ids: Vec<(&String, &Expression)> = rule.detection.identifiers.iter().collect();
    let order: Vec<J> = ids.iter().map(|(k, _)| jb(k)).collect();
    ids.sort_by(|a, b| a.0.cmp(b.0));
    let mut probes = vec![];
    probe_expr(&rule.detection.expression, &mut probes);
    for (_, v) in &ids {
        probe_expr(v, &mut probes);
    }
    json!({
        "engine_probe_mismatches": probes,
        "expr": expr(&rule.detection.expression),
        "idents": ids.iter().map(|(k, v)| json!([jb(k), expr(v)])).collect::<Vec<_>>(),
        "ident_iter_order": order,
        "display": format!("{}", rule.detection.expression),
    })
}

fn handle(req: &J) -> Result<J, String> {
    let cmd = req["cmd"].as_str().ok_or("missing cmd")?;
    match cmd {
        "ping" => Ok(json!({"pong": true, "ignore_case": cfg!(feature = "ignore_case")})),
        "load" => match load(req) {
            Ok(rule) => {
                let mut j = rule_json(&rule);
                j["ok"] = json!(true);
                Ok(j)
            }
            Err(e) => Ok(json!({"ok": false, "err": e})),
        },
        "eval" => {
            let rule = match load(req) {
                Ok(r) => r,
                Err(e) => return Ok(json!({"ok": false, "err": e})),
            };
            let mode = req["mode"].as_str().unwrap_or("flat");
            let fields = to_fields(&req["doc"]["$obj"])?;
            let verdict = match mode {
                "flat" => rule.matches(&Flat(fields)),
                "object" => rule.matches(&Obj(fields)),
                "hashmap" => {
                    let hm: std::collections::HashMap<String, V> = fields.into_iter().collect();
                    rule.matches(&hm)
                }
                _ => return Err("bad mode".into()),
            };
            Ok(json!({"ok": true, "verdict": verdict}))
        }
        "eval_tree" => {
            // evaluate an exported tree exactly as given (no loader, no optimiser)
            let e = to_expr(&req["expr"])?;
            let mut ids = std::collections::HashMap::new();
            for kv in req["idents"].as_array().ok_or("idents")? {
                ids.insert(from_bytes(&kv[0])?, to_expr(&kv[1])?);
            }
            let mode = req["mode"].as_str().unwrap_or("flat");
            let fields = to_fields(&req["doc"]["$obj"])?;
            let verdict = match mode {
                "flat" => tau_engine::core::solve_expression(&e, &ids, &Flat(fields)),
                "object" => tau_engine::core::solve_expression(&e, &ids, &Obj(fields)),
                _ => return Err("bad mode".into()),
            };
            Ok(json!({"ok": true, "verdict": verdict, "display": format!("{}", e)}))
        }
        "eval_yaml" => {
            // document given as YAML text (serde_yaml mapping), or JSON text
            let rule = match load(req) {
                Ok(r) => r,
                Err(e) => return Ok(json!({"ok": false, "err": e})),
            };
            let text = req["doc_text"].as_str().ok_or("missing doc_text")?;
            let verdict = if req["json"].as_bool().unwrap_or(false) {
                let v: serde_json::Value = serde_json::from_str(text).map_err(|e| e.to_string())?;
                rule.matches(&v)
            } else {
                let v: serde_yaml::Value = serde_yaml::from_str(text).map_err(|e| e.to_string())?;
                let m = v.as_mapping().ok_or("document is not a mapping")?;
                rule.matches(m)
            };
            Ok(json!({"ok": true, "verdict": verdict}))
        }
        "examples" => {
            // the rule's own example documents (serde_yaml mappings) with the native verdict of each
            let rule = match load(req) {
                Ok(r) => r,
                Err(e) => return Ok(json!({"ok": false, "err": e})),
            };
            let mut out = vec![];
            for (kind, list) in [("tp", &rule.true_positives), ("tn", &rule.true_negatives)] {
                for ex in list {
                    if let Some(m) = ex.as_mapping() {
                        let v = rule.matches(m);
                        out.push(json!({"kind": kind, "doc": show_value(&Value::Object(m)), "verdict": v}));
                    }
                }
            }
            Ok(json!({"ok": true, "examples": out}))
        }
        "roundtrip" => {
            // C14: serialise a loaded (optionally optimised) rule and load the result again, three ways
            let yaml = req["yaml"].as_str().ok_or("missing yaml")?;
            let orig = match Rule::from_str(yaml) {
                Ok(r) => r,
                Err(e) => {
                    // text that does not load must not load as a value either
                    let fv = match serde_yaml::from_str::<serde_yaml::Value>(yaml) {
                        Ok(v) => match Rule::from_value(v) {
                            Ok(r) => rule_json(&r),
                            Err(e) => json!({"err": format!("{}", e)}),
                        },
                        Err(e) => json!({"err": format!("yaml: {}", e)}),
                    };
                    return Ok(json!({"ok": false, "err": format!("{}", e), "from_value": fv}));
                }
            };
            let rule = match load(req) {
                Ok(r) => r,
                Err(e) => return Ok(json!({"ok": false, "err": e})),
            };
            fn verdicts(on: &Rule, docs_of: &Rule) -> Vec<J> {
                let mut out = vec![];
                for list in [&docs_of.true_positives, &docs_of.true_negatives] {
                    for ex in list {
                        if let Some(m) = ex.as_mapping() {
                            out.push(json!(on.matches(m)));
                        }
                    }
                }
                out
            }
            let describe = |r: Result<Rule, String>| -> J {
                match r {
                    Ok(r2) => json!({"ok": true, "rule": rule_json(&r2),
                        "examples_equal": r2.true_positives == orig.true_positives && r2.true_negatives == orig.true_negatives,
                        "verdicts": verdicts(&r2, &orig)}),
                    Err(e) => json!({"ok": false, "err": e}),
                }
            };
            let text = serde_yaml::to_string(&rule).map_err(|e| format!("to_string: {}", e));
            let via_text = match &text {
                Ok(t) => describe(Rule::from_str(t).map_err(|e| format!("{}", e))),
                Err(e) => json!({"ok": false, "err": e}),
            };
            let via_value = match serde_yaml::to_value(&rule) {
                Ok(v) => describe(Rule::from_value(v).map_err(|e| format!("{}", e))),
                Err(e) => json!({"ok": false, "err": format!("to_value: {}", e)}),
            };
            let via_text_value = match &text {
                Ok(t) => match serde_yaml::from_str::<serde_yaml::Value>(t) {
                    Ok(v) => describe(Rule::from_value(v).map_err(|e| format!("{}", e))),
                    Err(e) => json!({"ok": false, "err": format!("yaml: {}", e)}),
                },
                Err(e) => json!({"ok": false, "err": e}),
            };
            let mut fv_examples_equal = true;
            let from_value = match serde_yaml::from_str::<serde_yaml::Value>(yaml) {
                Ok(v) => match Rule::from_value(v) {
                    Ok(r) => {
                        fv_examples_equal = r.true_positives == orig.true_positives && r.true_negatives == orig.true_negatives;
                        rule_json(&r)
                    }
                    Err(e) => json!({"err": format!("{}", e)}),
                },
                Err(e) => json!({"err": format!("yaml: {}", e)}),
            };
            Ok(json!({"ok": true, "orig": rule_json(&orig), "verdicts": verdicts(&orig, &orig), "serialised": text.unwrap_or_default(),
                "text": via_text, "value": via_value, "text_value": via_text_value, "from_value": from_value, "from_value_examples_equal": fv_examples_equal}))
        }
        "validate" => {
            let rule = match load(req) {
                Ok(r) => r,
                Err(e) => return Ok(json!({"ok": false, "err": e})),
            };
            match rule.validate() {
                Ok(b) => Ok(json!({"ok": true, "result": b})),
                Err(e) => Ok(json!({"ok": true, "error": format!("{}", e), "kind": format!("{:?}", e.kind())})),
            }
        }
        "tokenise" => {
            let s = bytes_to_string(&req["s"])?;
            match s.tokenise() {
                Ok(t) => Ok(json!({"ok": true, "tokens": t.iter().map(token).collect::<Vec<_>>()})),
                Err(e) => Ok(json!({"ok": false, "err": format!("{}", e)})),
            }
        }
        "ident" => {
            let s = bytes_to_string(&req["s"])?;
            match s.into_identifier() {
                Ok(i) => {
                    let p = match &i.pattern {
                        Pattern::Any => json!({"t": "Any"}),
                        Pattern::Contains(s) => json!({"t": "Contains", "v": jb(s)}),
                        Pattern::EndsWith(s) => json!({"t": "EndsWith", "v": jb(s)}),
                        Pattern::Exact(s) => json!({"t": "Exact", "v": jb(s)}),
                        Pattern::StartsWith(s) => json!({"t": "StartsWith", "v": jb(s)}),
                        Pattern::Regex(r) => json!({"t": "Regex", "v": jb(r.as_str())}),
                        Pattern::Equal(n) => json!({"t": "Equal", "n": n}),
                        Pattern::GreaterThan(n) => json!({"t": "GreaterThan", "n": n}),
                        Pattern::GreaterThanOrEqual(n) => json!({"t": "GreaterThanOrEqual", "n": n}),
                        Pattern::LessThan(n) => json!({"t": "LessThan", "n": n}),
                        Pattern::LessThanOrEqual(n) => json!({"t": "LessThanOrEqual", "n": n}),
                        Pattern::FEqual(n) => json!({"t": "FEqual", "bits": n.to_bits()}),
                        Pattern::FGreaterThan(n) => json!({"t": "FGreaterThan", "bits": n.to_bits()}),
                        Pattern::FGreaterThanOrEqual(n) => json!({"t": "FGreaterThanOrEqual", "bits": n.to_bits()}),
                        Pattern::FLessThan(n) => json!({"t": "FLessThan", "bits": n.to_bits()}),
                        Pattern::FLessThanOrEqual(n) => json!({"t": "FLessThanOrEqual", "bits": n.to_bits()}),
                    };
                    Ok(json!({"ok": true, "ignore_case": i.ignore_case, "pattern": p}))
                }
                Err(e) => Ok(json!({"ok": false, "err": format!("{}", e)})),
            }
        }
        "condition" => {
            // tokenise + parse a condition string against a set of identifier names
            let s = bytes_to_string(&req["s"])?;
            let toks = match s.tokenise() {
                Ok(t) => t,
                Err(e) => return Ok(json!({"ok": false, "stage": "tokenise", "err": format!("{}", e)})),
            };
            Ok(json!({"ok": true, "tokens": toks.iter().map(token).collect::<Vec<_>>()}))
        }
        "find" => {
            let key = bytes_to_string(&req["key"])?;
            let fields = to_fields(&req["doc"]["$obj"])?;
            if req["mode"].as_str() == Some("hashmap") {
                let hm: std::collections::HashMap<String, V> = fields.into_iter().collect();
                let r = tau_engine::Object::find(&hm, &key);
                return Ok(json!({"ok": true, "found": r.is_some(), "value": r.map(|v| show_value(&v))}));
            }
            let o = Obj(fields);
            let r = tau_engine::Object::find(&o, &key);
            Ok(json!({"ok": true, "found": r.is_some(), "value": r.map(|v| show_value(&v))}))
        }
        "delegation" => {
            // which of the object's methods answers when the object is used as a document
            let key = bytes_to_string(&req["key"])?;
            let m = Marked;
            let show = |v: Option<Value<'_>>| match v {
                Some(Value::String(s)) => s.to_string(),
                Some(_) => "other".to_string(),
                None => "none".to_string(),
            };
            let dynobj: &dyn tau_engine::Object = &m;
            let via_dyn = show(Document::find(&dynobj, &key));
            let via_blanket = show(Document::find(&m, &key));
            Ok(json!({"ok": true, "dyn": via_dyn, "blanket": via_blanket}))
        }
        "aho" => {
            // ground truth for the aho-corasick contract model
            let needles: Vec<String> = req["needles"].as_array().ok_or("needles")?.iter().map(|n| bytes_to_string(n)).collect::<Result<_, _>>()?;
            let hay = bytes_to_string(&req["hay"])?;
            let i = req["i"].as_bool().unwrap_or(false);
            let hits = if req["overlapping"].as_bool().unwrap_or(true) {
                aho_hits(&needles, i, &hay)
            } else {
                aho_hits_nonoverlapping(&needles, i, &hay)
            };
            Ok(json!({"ok": true, "hits": hits}))
        }
        "fmt" => {
            // Rust's own Display of a number (what Value::to_string produces)
            let kind = req["kind"].as_str().unwrap_or("");
            let text = match kind {
                "i64" => req["v"].as_i64().ok_or("v")?.to_string(),
                "u64" => req["v"].as_u64().ok_or("v")?.to_string(),
                "f64" => f64::from_bits(req["bits"].as_u64().ok_or("bits")?).to_string(),
                _ => return Err("bad kind".into()),
            };
            Ok(json!({"ok": true, "text": jb(&text)}))
        }
        "prim" => {
            // AsValue of a Rust primitive given by its bits: what a std-typed document hands to the engine
            use tau_engine::AsValue;
            let ty = req["ty"].as_str().unwrap_or("");
            let bits = req["bits"].as_u64().ok_or("bits")?;
            let v = match ty {
                "i8" => show_value(&(bits as i8).as_value()),
                "i16" => show_value(&(bits as i16).as_value()),
                "i32" => show_value(&(bits as i32).as_value()),
                "i64" => show_value(&(bits as i64).as_value()),
                "isize" => show_value(&(bits as isize).as_value()),
                "u8" => show_value(&(bits as u8).as_value()),
                "u16" => show_value(&(bits as u16).as_value()),
                "u32" => show_value(&(bits as u32).as_value()),
                "u64" => show_value(&bits.as_value()),
                "usize" => show_value(&(bits as usize).as_value()),
                "f32" => show_value(&f32::from_bits(bits as u32).as_value()),
                "f64" => show_value(&f64::from_bits(bits).as_value()),
                "bool" => show_value(&(bits != 0).as_value()),
                _ => return Err("bad ty".into()),
            };
            Ok(json!({"ok": true, "value": v}))
        }
        "scalar_value" => {
            // a scalar written as YAML / JSON text, parsed by serde and handed to the engine by the crate's adapter
            use tau_engine::AsValue;
            let text = req["text"].as_str().ok_or("text")?;
            if req["json"].as_bool().unwrap_or(false) {
                let v: serde_json::Value = serde_json::from_str(text).map_err(|e| e.to_string())?;
                Ok(json!({"ok": true, "value": show_value(&v.as_value())}))
            } else {
                let v: serde_yaml::Value = serde_yaml::from_str(text).map_err(|e| e.to_string())?;
                Ok(json!({"ok": true, "value": show_value(&v.as_value())}))
            }
        }
        "parse_f64" => {
            let s = bytes_to_string(&req["s"])?;
            match s.parse::<f64>() {
                Ok(f) => Ok(json!({"ok": true, "bits": f.to_bits()})),
                Err(_) => Ok(json!({"ok": false})),
            }
        }
        "regex" => {
            let p = bytes_to_string(&req["p"])?;
            let hay = bytes_to_string(&req["hay"])?;
            let i = req["i"].as_bool().unwrap_or(false);
            Ok(json!({"ok": true, "m": regex_match(&p, i, &hay)}))
        }
        _ => Err(format!("unknown cmd {}", cmd)),
    }
}

fn show_value(v: &Value) -> J {
    match v {
        Value::Null => json!(null),
        Value::Bool(b) => json!(b),
        Value::Float(f) => json!({"$f64": f.to_bits()}),
        Value::Int(i) => json!({"$i64": i}),
        Value::UInt(u) => json!({"$u64": u}),
        Value::String(s) => json!({"$str": jb(s)}),
        Value::Array(a) => J::Array(tau_engine::Array::iter(*a).map(|x| show_value(&x)).collect()),
        Value::Object(o) => {
            let mut fields = vec![];
            for k in tau_engine::Object::keys(*o) {
                if let Some(x) = tau_engine::Object::get(*o, &k) {
                    fields.push(json!([jb(&k), show_value(&x)]));
                }
            }
            json!({"$obj": fields})
        }
    }
}

// ground truth for the contract models of the third-party engines: the same
// crates at the versions /repo's Cargo.lock pins, built the way parser.rs and
// optimiser.rs build them
fn aho_hits_nonoverlapping(needles: &[String], insensitive: bool, hay: &str) -> J {
    let a = aho_corasick::AhoCorasickBuilder::new()
        .ascii_case_insensitive(insensitive)
        .kind(Some(aho_corasick::AhoCorasickKind::DFA))
        .build(needles)
        .expect("failed to build dfa");
    J::Array(
        a.find_iter(hay)
            .map(|m| json!([m.pattern().as_usize(), m.start(), m.end()]))
            .collect(),
    )
}

fn aho_hits(needles: &[String], insensitive: bool, hay: &str) -> J {
    let a = aho_corasick::AhoCorasickBuilder::new()
        .ascii_case_insensitive(insensitive)
        .kind(Some(aho_corasick::AhoCorasickKind::DFA))
        .build(needles)
        .expect("failed to build dfa");
    J::Array(
        a.find_overlapping_iter(hay)
            .map(|m| json!([m.pattern().as_usize(), m.start(), m.end()]))
            .collect(),
    )
}

fn regex_match(p: &str, i: bool, hay: &str) -> J {
    match regex::RegexBuilder::new(p).case_insensitive(i).build() {
        Ok(r) => json!(r.is_match(hay)),
        Err(e) => json!({"err": format!("{}", e)}),
    }
}

fn main() {
    // panics are caught and reported; silence the default hook's stderr noise
    panic::set_hook(Box::new(|_| {}));
    let stdin = io::stdin();
    let stdout = io::stdout();
    let mut out = stdout.lock();
    for line in stdin.lock().lines() {
        let line = match line {
            Ok(l) => l,
            Err(_) => break,
        };
        if line.trim().is_empty() {
            continue;
        }
        let req: J = match serde_json::from_str(&line) {
            Ok(j) => j,
            Err(e) => {
                writeln!(out, "{}", json!({"bridge_error": format!("bad request: {}", e)})).unwrap();
                out.flush().unwrap();
                continue;
            }
        };
        let res = panic::catch_unwind(AssertUnwindSafe(|| handle(&req)));
        let resp = match res {
            Ok(Ok(j)) => j,
            Ok(Err(e)) => json!({"bridge_error": e}),
            Err(p) => {
                let msg = if let Some(s) = p.downcast_ref::<&str>() {
                    s.to_string()
                } else if let Some(s) = p.downcast_ref::<String>() {
                    s.clone()
                } else {
                    "panic".to_string()
                };
                json!({"panic": msg})
            }
        };
        writeln!(out, "{}", resp).unwrap();
        out.flush().unwrap();
    }
}
