#!/usr/bin/env python3
"""regenerates /verif/MANIFEST.json from the table below"""
import json, os
V = os.path.dirname(os.path.dirname(os.path.abspath(__file__)))
props = [json.loads(l) for l in open(os.path.join(V, 'properties.jsonl'))]
MODELS = 'callee models of DESIGN 2.3 (std plumbing exact; regex: interpreted for the simple subset and validated against the regex crate, uninterpreted otherwise; aho-corasick: occurrence contract; number rendering: injective uninterpreted; tracing disabled)'
C = {
 'C01': ('translation_validation', '3/C01',
    'symbolic execution of rustc MIR (solve_expression and callees) on the original and on every natively optimised tree; z3 equivalence query over a symbolic document; native replay of counterexamples; concrete Unicode case-fold probes for trees that hold a regex',
    'For every template rule x 16 switch combinations x every distinct optimiser output collected, z3 decides matches(original) != matches(optimised) for all documents within the bounds; unsat = same verdict. Exhaustive in document contents within the bound, enumerated in rules.',
    MODELS + '; rules are templates; optimiser outputs collected by repeated native calls'),
 'C02': ('translation_validation', '3/C02',
    'symbolic execution of rustc MIR on natively loaded trees vs an independent reference interpreter of the rule text; z3 inequality query over a symbolic document',
    'For every template rule z3 decides matches(rule, doc) != reference(rule text, doc) for all documents within the bounds (absent fields, every value kind, arrays, nested objects).',
    MODELS + '; reference semantics written from README/rustdoc/property statements, pinned to the tree on corners they leave open (DESIGN C02)'),
 'C03': ('model_checking', '3/C03',
    'panic reachability by symbolic execution of rustc MIR of the solver on every accepted template rule and optimiser output (z3), native catch_unwind for optimise() / validate() on every template and on the engine-limit rules under all 16 switch combinations, parser MIR over symbolic token vectors for operand kinds; the loaded trees of string-predicate templates also on UTF-8 documents; Object::find MIR on symbolic keys (both trait copies)',
    'For every accepted template rule and every optimiser output, z3 decides whether any panic path of the real solver MIR is feasible for any document within the bounds; non-predicate operands must be rejected by the real parser MIR for all token vectors within the bound.',
    MODELS + '; panics inside third-party engines are outside the claim'),
 'C04': ('model_checking', '3/C04',
    'panic reachability by symbolic execution of rustc MIR of into_identifier and the tokeniser (one loop iteration from an arbitrary suffix, plus whole function on short inputs) over symbolic well-formed UTF-8 byte strings; parse() over symbolic token vectors (C05 run); native catch_unwind sweep of YAML shapes and of the engine-limit rules (auxiliary, concrete)',
    'Every path of the textual layers over all strings within the byte bound ends in Return(Ok|Err); each tokeniser iteration makes progress; slicing uses Rust\'s real panic conditions.',
    'char predicates exact on ASCII / uninterpreted above; parse::<i64> and f64 grammar exact, f64 value uninterpreted; regex validity uninterpreted; serde_yaml not encoded'),
 'C05': ('model_checking', '3/C05',
    'symbolic execution of rustc MIR of the Pratt parser over symbolic token vectors, every accepting path compared node-for-node with an independently written stratified grammar; z3 for binding powers and language inclusion; tokeniser MIR on symbolic words / white space',
    'All token vectors of length <= L over all 20 token classes: same acceptance (modulo a trailing unclosed parenthesis, counted) and same tree as the reference grammar; binding powers ordered; [a-z]{1,n} words are identifiers; white space produces no token.',
    'token payloads opaque; derived Clone on symbolic tokens modelled as structural copy'),
 'C06': ('model_checking', '3/C06',
    'symbolic execution of rustc MIR of solve/solve_expression/match_all/match_of with symbolic operand results and thresholds; z3 against the truth tables',
    'Every connective form and arity 1..4 (6 thorough): z3 proves the result term of the real MIR equals the truth table for all operand vectors in {T,F,M}^k and all u64 thresholds, with coverage and vacuity witnesses.',
    'operands opaque (fresh SolverResult); HashMap::get exact-lookup model; tracing disabled'),
 'C07': ('model_checking', '3/C07',
    'symbolic execution of rustc MIR of search / slow_aho with symbolic needles, member kinds and haystacks under the aho-corasick contract model (validated against the crate); into_identifier MIR vs the documented pattern table; list vs members on real solver MIR; i + symbolic UTF-8 text through into_identifier: the needle is the text up to ASCII case',
    'All needles/haystacks within the byte bounds, all 4 relations x case flag, member kinds symbolic, three occurrence orders; every path of into_identifier on ASCII strings within the bound agrees with the pattern table.',
    'aho-corasick by contract; regex trusted; to_lowercase ASCII; std string predicates by documented meaning'),
 'C08': ('translation_validation', '3/C08',
    'symbolic execution of rustc MIR on the quantified rule and on each member as a one-member rule; z3 decides truth(quantified) <=> quantifier(count of true members); concrete wide-list unit (65 / 70 / 130 members, three rotations) against the member count',
    'All member lists of the template families x thresholds 0..len+1 x all scalar documents within the bounds, for key quantifiers and identifier quantifiers.',
    MODELS + '; members = templates'),
 'C09': ('model_checking', '3/C09',
    'symbolic execution of rustc MIR of the comparison arm with 64-bit bit-vector / IEEE double cells and symbolic constants; z3 against 65-bit and IEEE relations; into_identifier MIR on <op><sign><1..18 symbolic digits> against the exact decimal value; literal text of a condition constant (1..20 symbolic digits) through the real tokeniser MIR; int(float) beyond the i64 range: true implies the relation for the float itself',
    'All operator x constant x field-value triples at once (cells and constants are solver variables over the full i64/u64/f64 ranges); exact for same-kind comparisons and in-range casts, sound across kinds.',
    'parse::<i64> exact model on bounded strings; parse::<f64>/number to_string uninterpreted; Rust `as` = saturating'),
 'C10': ('model_checking', '3/C10',
    'symbolic execution of rustc MIR of Object::find (default method + closures) on symbolic keys (totality) and on enumerated keys over a symbolic object graph, compared by z3 with a reference resolver; nested vs dotted rules on real solver MIR; delegation: an Object used as a document answers every symbolic key through its own find() (MIR of both Document impls)',
    'No panic for any key within the byte bound; for every enumerated path up to depth D (with indices and malformed shapes) and every object graph within the bounds the returned value is exactly the addressed one or none; nested mapping == dotted key when intermediates are objects.',
    'Object::get on user objects = exact key lookup; Array::iter in order; usize::from_str exact'),
 'C11': ('other', '3/C11',
    'symbolic execution of rustc MIR (dump with --features json) of every AsValue adapter on symbolic inputs; YAML and JSON Number adapters against one abstract number under serde\'s is_*/as_* contract; comparison kernel Int(x) vs UInt(x) by z3; solver-derived witness documents (per result value and document shape) evaluated natively as Object / serde_yaml / serde_json (concolic, labelled); delegation unit shared with C10',
    'Adapters: primitives keep value and signedness for all values; YAML and JSON scalars / numbers map to the same Value with no reachable unreachable!(); Option/Vec/HashSet pass through; the comparison kernel does not distinguish Int(x>=0) from UInt(x). Representations: every witness derived from the real solver + Object::find MIR gets the same verdict in the three representations (not a forall claim).',
    'serde Number contract modelled; Value variant order read from the registry sources; map lookups and user Document impls outside the claim'),
 'C12': ('other', '3/C12',
    'z3 equivalence of all optimiser outputs of one (rule, switches) on real solver MIR; write guard on every explored path (purity); repeated native optimise() calls for the printed form (concrete)',
    'Order independence and purity are decided over all documents / all explored paths; "prints the same" is decided by repeated concrete runs (labelled); thread schedules are not explored.',
    MODELS + '; hash-order variants collected by repetition'),
 'C13': ('model_checking', '3/C13',
    'symbolic execution of rustc MIR of Rule::validate over symbolic example states (is_mapping, is_empty, matches, pairwise equality) with solve() as an arbitrary boolean per example; z3 against the specification of validate(); native replay through rules realising the model; concrete example-shapes unit (tagged mappings, merge keys, non-mappings, several orders): validate() vs matches() per example',
    'All example lists with up to 3 positives and 3 negatives and all 2^(2k) example states: no panic, Ok(true) iff every example is right, Err(Validation) naming exactly the failing examples.',
    'solve() abstracted to a boolean per example (C02 covers its meaning); format!/Error::with modelled to keep which examples are mentioned'),
 'C14': ('other', '3/C14',
    'symbolic execution of rustc MIR of the Serialize impls of Rule / Detection (recording serializer model), of the hand-written Detection visitor and the derived Rule visitor (map-access model delivering symbolic entries in every order) and of Rule::optimise; z3 decides each specification over symbolic condition text, identifier names, entry order, presence and callee outcomes; serde_yaml channel contract validated by native round trips (concrete)',
    'Partial: tau-engine\'s own part of the round trip. Serialising emits exactly the recorded raw condition / identifiers / examples; optimise never touches them; the visitors rebuild condition, identifiers and examples from any delivery order of exactly such entries and accept them whenever the original was accepted. serde_yaml\'s emitter / scanner are not encoded: their round trip is a stated contract, exercised natively on every template rule and on quoting-sensitive rules (to_string / to_value -> from_str / from_value, exported trees and examples compared).',
    'recording serializer / map access never fail on their own; parse_identifier, tokenise, parse, is_solvable abstracted to deterministic functions with arbitrary outcome (C02/C04/C05/C12 cover them); identifier values opaque; texts <= 6/10 bytes, names <= 3/5 bytes, <= 2/3 identifiers'),
 'C15': ('other', '3/C15',
    'structural comparison of the two MIR dumps (default / ignore_case); symbolic execution of into_identifier of both builds on s and "i"+s with z3 equality of the results per compatible path pair; tree equality through the two native bridges',
    'into_identifier is the only function that differs; for all ASCII pattern strings within the byte bound the two builds produce the same identifier (kind, payload, flag); template trees identical.',
    'regex validity / float value uninterpreted (same text, same answer); non-ASCII lower-casing outside the claim'),
 'C16': ('other', '3/C16',
    'symbolic execution of rustc MIR with a recording symbolic document; z3 decides feasibility of every recorded request for a key the rule text does not write; z3 decides whether anything unaddressed that the verdict term mentions (e.g. Object::len) can change the verdict',
    'Every Document::find/Object::get reaching the user document on any feasible path of any template tree / optimiser output is for a written key; verdict terms depend only on requested cells.',
    MODELS),
 'C17': ('translation_validation', '3/C17',
    'symbolic execution of rustc MIR on the original and on every permuted rule text (natively loaded); z3 decides truth inequality over a symbolic document; concrete wide-list unit shared with C08 (member order in lists of 65..130 members)',
    'All permutations (<= 4 operands) of every commutative position of the templates x all documents within the bounds.',
    MODELS),
}
NA = {
}
claimed = {k: v for k, v in C.items() if os.path.exists(os.path.join(V, 'checks', k + '.py'))}
checks = []
for pid in sorted(claimed):
    level, ref, tech, text, note = claimed[pid]
    checks.append({"property_id": pid, "quick_cmd": "python3-vt checks/%s.py quick" % pid,
                   "thorough_cmd": "python3-vt checks/%s.py thorough" % pid,
                   "evidence_file": "/verif/evidence/%s.json" % pid, "engine": "mirsym",
                   "replay_cmd_template": "python3-vt checks/replay.py {path}",
                   "level_claimed": {"category": level, "text": text, "design_ref": ref},
                   "level_note": note, "technique": tech})
na = []
for p in props:
    if p['id'] in claimed:
        continue
    na.append({"property_id": p['id'], "reason": NA.get(p['id'], "check not built yet (framework under construction)")})
m = {"version": 1, "setup_cmd": "python3-vt checks/setup.py",
     "hooks": {"guard": "tau_verif",
               "enable": "no source hooks: checks read rustc's MIR dump of /repo's working tree (cargo +nightly rustc -- -Zunpretty=mir) and link /repo as a path dependency of /verif/bridge",
               "baseline_off_cmd": "cd /repo && cargo test --workspace --no-fail-fast --offline", "source_commits": [], "add_only": True},
     "engines": [{"name": "mirsym", "path": "/verif/mirsym", "serves_properties": sorted(claimed),
                  "kind_free_text": "symbolic executor for rustc MIR text (Python) + z3 (cvc5 cross-check); native bridge for tree export and counterexample replay"}],
     "checks": checks,
     "notes": "solver-based checking of the real code: MIR of /repo regenerated every run; see DESIGN.md. Genuine defects: known_findings.txt",
     "not_applicable": na}
json.dump(m, open(os.path.join(V, 'MANIFEST.json'), 'w'), indent=1)
print('claimed', sorted(claimed), 'n/a', [x['property_id'] for x in na])
