#!/usr/bin/env python3
"""apply a seeded change to /repo, run checks against it, undo it.
usage: try_seed.py <patch.diff> [check ids...]  (default: all checks, quick tier)"""
import os, subprocess, sys
V = os.path.dirname(os.path.dirname(os.path.abspath(__file__)))
patch = os.path.abspath(sys.argv[1])
rest = sys.argv[2:]
st = subprocess.run(['git', '-C', '/repo', 'status', '--porcelain', '--untracked-files=no'], stdout=subprocess.PIPE).stdout.decode().strip()
if st:
    print('refusing: /repo has local modifications:\n' + st)
    sys.exit(3)
r = subprocess.run(['git', '-C', '/repo', 'apply', patch])
if r.returncode:
    print('patch does not apply')
    sys.exit(3)
try:
    rc = subprocess.run([sys.executable, os.path.join(V, 'tools', 'run_all.py')] + rest).returncode
finally:
    subprocess.run(['git', '-C', '/repo', 'checkout', '--', '.'])
print('seed run finished; /repo restored')
sys.exit(rc)
