#!/usr/bin/env python3
"""run every registered check (tier from argv, default quick) and print one line each"""
import json, os, subprocess, sys, time
V = os.path.dirname(os.path.dirname(os.path.abspath(__file__)))
tier = 'quick'
only = []
for a in sys.argv[1:]:
    if a in ('quick', 'thorough'):
        tier = a
    else:
        only.append(a)
m = json.load(open(os.path.join(V, 'MANIFEST.json')))
rc_all = 0
for c in m['checks']:
    pid = c['property_id']
    if only and pid not in only:
        continue
    cmd = c['quick_cmd'] if tier == 'quick' else c.get('thorough_cmd', c['quick_cmd'])
    t = time.time()
    r = subprocess.run(cmd, shell=True, cwd=V, stdout=subprocess.PIPE, stderr=subprocess.STDOUT)
    out = r.stdout.decode(errors='replace').strip().split('\n')
    last = out[-1][:150] if out else ''
    viol = [l for l in out if l.startswith('VIOLATION')]
    print('%s rc=%d %5.1fs  %s%s' % (pid, r.returncode, time.time() - t, last, ('  [%d VIOLATION lines]' % len(viol)) if viol else ''), flush=True)
    if r.returncode:
        rc_all = 1
        for l in (viol[:3] + [l for l in out if l.startswith('INCONCLUSIVE')][:3]):
            print('      ' + l[:220])
sys.exit(rc_all)
