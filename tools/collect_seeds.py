#!/usr/bin/env python3
"""assemble /verif/seeded/<P>-<k>/ from the sub-agents' scratch worktrees (/tmp/seed) after confirming each change:
patch.diff, demo.rs, notes.md, meta.json (what it breaks, what it needs, what was run, which checks catch it)"""
import json, os, re, shutil, subprocess, sys
V = os.path.dirname(os.path.dirname(os.path.abspath(__file__)))
ROUNDS = [('/tmp/seed', ''), ('/tmp/seed2', 'r2'), ('/tmp/seed3', 'r3'), ('/tmp/seed4', 'r4'), ('/tmp/seed5', 'r5')]
OUT = os.path.join(V, 'seeded')
MATRIX = '/var/tmp/tau-seed-out'


def confirm(wt, sd, feats):
    r = subprocess.run([os.path.join(V, 'tools', 'confirm_seed.sh'), wt, sd] + ([feats] if feats else []), stdout=subprocess.PIPE, stderr=subprocess.STDOUT)
    txt = r.stdout.decode(errors='replace')
    parts = re.split(r'== (suite with change|demo with change \(must fail\)|demo without change \(must pass\))', txt)
    sec = {parts[i]: parts[i + 1] for i in range(1, len(parts) - 1, 2)}
    suite = sec.get('suite with change', '')
    suite_ok = 'test result: ok' in suite and 'FAILED' not in suite and 'failed to' not in suite
    demo_fail = 'FAILED' in sec.get('demo with change (must fail)', '') or 'error[' in sec.get('demo with change (must fail)', '')
    demo_pass = 'test result: ok' in sec.get('demo without change (must pass)', '') and 'FAILED' not in sec.get('demo without change (must pass)', '')
    return suite_ok, demo_fail, demo_pass, txt[-1500:]


def readme():
    rows = []
    for name in sorted(os.listdir(OUT)):
        mp = os.path.join(OUT, name, 'meta.json')
        if os.path.isfile(mp):
            m = json.load(open(mp))
            rows.append((name, m['property'], m['kept'], m['caught_by'], m['inconclusive'], m.get('checks_run_against_it', [])))
    write_readme(rows)


def main():
    only = sys.argv[1:]
    os.makedirs(OUT, exist_ok=True)
    if only == ['--readme']:
        readme()
        return
    rows = []
    head = subprocess.run(['git', '-C', '/repo', 'rev-parse', '--short', 'HEAD'], stdout=subprocess.PIPE).stdout.decode().strip()
    todo = []
    for SEED, prefix in ROUNDS:
        if not os.path.isdir(SEED):
            continue
        for P in sorted(os.listdir(SEED)):
            wt = os.path.join(SEED, P)
            if not os.path.isdir(os.path.join(wt, 'SEED')) or (only and (prefix + P) not in only and P not in only):
                continue
            for k in sorted(os.listdir(os.path.join(wt, 'SEED'))):
                sd = os.path.join(wt, 'SEED', k)
                if os.path.isfile(os.path.join(sd, 'patch.diff')):
                    todo.append((prefix, P, wt, k, sd))
    full = subprocess.run(['git', '-C', '/repo', 'rev-parse', 'HEAD'], stdout=subprocess.PIPE).stdout.decode().strip()
    for wt in sorted({t[2] for t in todo}):
        # the seeds are kept as patches against /repo's current HEAD: confirm them there
        subprocess.run(['git', '-C', wt, 'checkout', '-q', '--', '.'])
        subprocess.run(['git', '-C', wt, 'checkout', '-q', '--detach', full])
    for prefix, P, wt, k, sd in todo:
        if True:
            name = '%s%s-%s' % (prefix, P, k)
            notes = open(os.path.join(sd, 'notes.md')).read() if os.path.exists(os.path.join(sd, 'notes.md')) else ''
            feats = ''
            if P == 'C15':
                feats = '--features ignore_case'
            if '--features sync' in notes or 'features sync' in notes:
                feats = '--features sync'
            if '--features json' in notes or 'features json' in notes or 'feature json' in notes or '`json` feature' in notes:
                feats = '--features json'
            if 'features ignore_case --test seed_demo' in notes:
                feats = '--features ignore_case'
            suite_ok, demo_fail, demo_pass, log = confirm(wt, sd, feats)
            if feats and not (demo_fail and demo_pass):
                # some C15 demonstrations fail in the default build instead
                s2, f2, p2, log2 = confirm(wt, sd, '')
                if f2:
                    suite_ok, demo_fail, demo_pass, log, feats = s2, f2, p2, log2, ''
            res = {}
            rp = os.path.join(MATRIX, name, 'result.json')
            if os.path.exists(rp):
                res = json.load(open(rp))
            caught = sorted(p for p, rc in res.items() if rc == 1)
            incon = sorted(p for p, rc in res.items() if rc == 2)
            ran = sorted(res)
            keep = suite_ok and demo_fail and demo_pass
            meta = {
                'property': P, 'seed': name,
                'breaks': next((l.strip('# ').strip() for l in notes.split('\n') if l.strip()), '')[:300],
                'needs_to_manifest': notes[:1500],
                'confirmed_in_scratch_worktree': {'existing_suite_passes_with_change': suite_ok, 'demo_fails_with_change': demo_fail,
                                                  'demo_passes_without_change': demo_pass, 'demo_features': feats},
                'what_was_run': ['tools/confirm_seed.sh %s %s %s' % (wt, sd, feats),
                                 'tools/seed_matrix.py --checks=%s (quick tier, change applied in the scratch worktree via TAU_REPO)' % ','.join(ran)],
                'applies_to_repo_head': head, 'checks_run_against_it': ran,
                'caught_by': caught, 'inconclusive': incon, 'kept': keep,
            }
            rows.append((name, P, keep, caught, incon, ran))
            if keep:
                d = os.path.join(OUT, name)
                os.makedirs(d, exist_ok=True)
                for f in ('patch.diff', 'demo.rs', 'notes.md'):
                    if os.path.exists(os.path.join(sd, f)):
                        shutil.copy(os.path.join(sd, f), os.path.join(d, f))
                json.dump(meta, open(os.path.join(d, 'meta.json'), 'w'), indent=1)
            print(name, 'kept' if keep else 'NOT CONFIRMED (%s %s %s)' % (suite_ok, demo_fail, demo_pass), 'caught_by=%s' % caught, 'inconclusive=%s' % incon, flush=True)
    if not only:
        write_readme(rows)
    print('done')


def write_readme(rows):
    with open(os.path.join(OUT, 'README.md'), 'w') as fh:
        fh.write('# Seeded changes (written by sub-agents from the property text only) and the checks that catch them\n\n')
        fh.write('Each change compiles, passes the pinned suite, and fails its own demonstration (confirmed in a scratch worktree).\n')
        fh.write('`caught by` = checks that exit 1 with a VIOLATION line when the change is applied (quick tier).\n\n')
        fh.write('`checks run` = the checks that were run against the change (its own property\'s check and the generalists).\n')
        fh.write('Seeds named rN... come from the N-th round of sub-agents. Apply with `git -C /repo apply seeded/<seed>/patch.diff`, undo with `git -C /repo checkout -- .`.\n\n')
        fh.write('| seed | property | caught by | inconclusive (exit 2) | checks run |\n|---|---|---|---|---|\n')
        for name, P, keep, caught, incon, ran in rows:
            if keep:
                fh.write('| %s | %s | %s | %s | %s |\n' % (name, P, ', '.join(caught) or '**none**', ', '.join(incon), ', '.join(ran)))
        # later `fix:` commits touch the context of some older patches: those apply at the commit they were confirmed at
        stale = []
        for name, P, keep, caught, incon, ran in rows:
            pd = os.path.join(OUT, name, 'patch.diff')
            if keep and os.path.exists(pd) and subprocess.run(['git', '-C', '/repo', 'apply', '--check', pd], stdout=subprocess.PIPE, stderr=subprocess.PIPE).returncode:
                at = json.load(open(os.path.join(OUT, name, 'meta.json'))).get('applies_to_repo_head', '?')
                stale.append('%s (at %s)' % (name, at))
        if stale:
            fh.write('\nPatches whose context was changed by later `fix:` commits in /repo; they apply at the commit they were confirmed at '
                     '(`git -C /repo worktree add <dir> <commit>`): ' + ', '.join(stale) + '.\n')


if __name__ == '__main__':
    main()
