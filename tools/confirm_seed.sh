#!/bin/bash
# confirm a seeded change in a scratch worktree: suite passes with it, demo fails with it, demo passes without it
# usage: confirm_seed.sh <worktree> <seed dir containing patch.diff and demo.rs> [cargo feature flags]
set -u
WT=$1; SD=$2; FEAT=${3:-}
cd "$WT" || exit 3
git checkout -q -- . ; rm -f tests/seed_demo.rs
git apply --check "$SD/patch.diff" || { echo "PATCH DOES NOT APPLY"; exit 3; }
git apply "$SD/patch.diff"
if git diff --name-only | grep -v '^src/' ; then echo "PATCH TOUCHES NON-src FILES"; fi
echo "== suite with change"
cargo test --workspace --no-fail-fast --offline 2>&1 | grep -a -E '^test result|FAILED|failed to' | tr '\n' ' '; echo
cp "$SD/demo.rs" tests/seed_demo.rs
echo "== demo with change (must fail)"
cargo test --offline $FEAT --test seed_demo 2>&1 | grep -a -E '^test result|error\[' | head -3
git checkout -q -- src
echo "== demo without change (must pass)"
cargo test --offline $FEAT --test seed_demo 2>&1 | grep -a -E '^test result|error\[' | head -3
rm -f tests/seed_demo.rs
git status --short | grep -v SEED
