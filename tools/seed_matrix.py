#!/usr/bin/env python3
"""run every check against seeded changes, each applied in its own scratch worktree
(TAU_REPO), with its own artefact cache and output directory, so that /repo and
/verif/evidence are untouched.  usage: seed_matrix.py <worktree> <seeddir> [<seeddir> ...]"""
import json, os, subprocess, sys, shutil
V = os.path.dirname(os.path.dirname(os.path.abspath(__file__)))
args = sys.argv[1:]
checks = []
if args and args[0].startswith('--checks='):
    checks = args.pop(0)[len('--checks='):].split(',')
wt = os.path.abspath(args[0])
tag = os.path.basename(wt)
prefix = os.environ.get('SEED_PREFIX', '')
for sd in args[1:]:
    sd = os.path.abspath(sd)
    name = '%s%s-%s' % (prefix, tag, os.path.basename(sd))
    subprocess.run(['git', '-C', wt, 'checkout', '-q', '--', '.'])
    if subprocess.run(['git', '-C', wt, 'apply', os.path.join(sd, 'patch.diff')]).returncode:
        print(name, 'PATCH DOES NOT APPLY')
        continue
    out = '/var/tmp/tau-seed-out/' + name
    prev = {}
    if os.environ.get('SEED_MERGE') and os.path.exists(os.path.join(out, 'result.json')):
        # re-run of some cells with newer checks: the other cells of this seed are kept
        prev = json.load(open(os.path.join(out, 'result.json')))
    else:
        shutil.rmtree(out, ignore_errors=True)
    os.makedirs(out, exist_ok=True)
    env = dict(os.environ, TAU_REPO=wt, TAU_VERIF_CACHE='/var/tmp/tau-verif-cache-seed-' + prefix + tag, TAU_VERIF_OUT=out,
               VERIF_JOBS=os.environ.get('VERIF_JOBS', '7'))
    sel = [tag if c == 'own' else c for c in checks]
    r = subprocess.run([sys.executable, os.path.join(V, 'tools', 'run_all.py'), 'quick'] + sel, env=env, stdout=subprocess.PIPE, stderr=subprocess.STDOUT)
    txt = r.stdout.decode(errors='replace')
    open(os.path.join(out, 'run_all.log'), 'w').write(txt)
    res = {}
    for line in txt.split('\n'):
        if line[:1] == 'C' and ' rc=' in line:
            pid = line.split()[0]
            res[pid] = int(line.split('rc=')[1].split()[0])
    res = dict(prev, **res)
    json.dump(res, open(os.path.join(out, 'result.json'), 'w'))
    caught = sorted(p for p, rc in res.items() if rc == 1)
    incon = sorted(p for p, rc in res.items() if rc == 2)
    print('%s caught_by=%s inconclusive=%s' % (name, caught, incon), flush=True)
    subprocess.run(['git', '-C', wt, 'checkout', '-q', '--', '.'])
