"""Symbolic executor for the MIR subset tau-engine's functions use.

Forking is by re-execution: a path is identified by its list of decisions;
at a new symbolic branch every feasible alternative is queued and the first is
followed.  Selected pure callees are *summarised*: explored once under an empty
path condition and merged into an if-then-else value (state merging), which is
what keeps groups of k leaves from costing (paths per leaf)^k.
"""
import os
import re
import struct
import sys
import time
import z3

from . import mir
from .program import Program, split_qself, strip_generics, main_ident, ORDERING_DISC
from .vals import *
from . import strings as S

sys.setrecursionlimit(20000)


class PanicEx(Exception):
    def __init__(self, site, msg):
        Exception.__init__(self, '%s: %s' % (site, msg))
        self.site = site
        self.msg = msg


class Unsupported(Exception):
    pass


class Inconclusive(Exception):
    pass


class BoundExceeded(Exception):
    pass


class PurityViolation(Exception):
    pass


class InfeasiblePath(Exception):
    """a branch that was assumed feasible (lazy floating-point feasibility) turned out not to be"""


class StopPath(Exception):
    """a block hook ends the path deliberately (e.g. one loop iteration done)"""

    def __init__(self, value=None):
        Exception.__init__(self, 'stop')
        self.value = value


class PathResult:
    __slots__ = ('pc', 'kind', 'value', 'panic', 'events', 'script', 'blocks')

    def __init__(self, pc, kind, value=None, panic=None, events=None, script=None, blocks=None):
        self.pc = pc
        self.kind = kind          # 'return' | 'panic'
        self.value = value
        self.panic = panic
        self.events = events or []
        self.script = script
        self.blocks = blocks

    def cond(self):
        return b_and(*self.pc)


class Universe:
    """everything that persists across the paths of one check: range axioms of
    the symbolic inputs, memo tables of uninterpreted models"""

    def __init__(self):
        self.axioms = []
        self.memo = {}
        # memo keys hold z3 AST ids, which z3 recycles once a term is freed: whatever a key was computed from is kept
        # alive here for as long as the memo lives
        self.alive = []
        self.stats = {'z3_checks': 0, 'z3_time': 0.0, 'paths': 0, 'summaries': 0,
                      'summary_hits': 0, 'steps': 0}
        self.max_loop = 0
        self.timeout_ms = 20000

    def fresh(self, name, sort):
        n = self.memo.get(('fresh', name), 0)
        self.memo[('fresh', name)] = n + 1
        return z3.Const('%s!%d' % (name, n), sort)


class Frame:
    __slots__ = ('fn', 'locals', 'bb', 'visits')

    def __init__(self, fn):
        self.fn = fn
        n = max(fn.locals) + 1 if fn.locals else 1
        self.locals = Cont([UNINIT] * n)
        self.visits = {}


class Run:
    """one path"""

    def __init__(self, script):
        self.script = list(script)
        self.pos = 0
        self.pc = []
        self.alts = []
        self.events = []
        self.known = {}
        # the keys of `known` are z3 AST ids; z3 recycles the id of a freed term, so every key term is kept alive here
        self.keep = []
        self.blocks = set()
        self.assumed = False


_INT_LIT = re.compile(r'^(-?\d+)_(u8|u16|u32|u64|u128|usize|i8|i16|i32|i64|i128|isize)$')
_FLT_LIT = re.compile(r'^(-?[\d\.]+(?:[eE][-+]?\d+)?|-?inf|NaN|-?NaN)(f64|f32)$')


class Engine:
    def __init__(self, program, universe=None, models=None, summarise=()):
        self.prog = program
        self.uni = universe or Universe()
        self.models = models or []
        self.summarise = set(summarise)
        self.run = None
        self.solver = None
        self.solver_axioms = 0
        self.depth = 0
        self.frozen_below = 0
        self.loop_bound = 64
        self.frames = []
        self.call_hook = None
        self._callee_cache = {}
        self.max_paths = 20000
        self.opaque_fns = {}       # def-name -> python callable(engine, args) replacing MIR body
        self.model_cache = []
        self.block_hook = None
        self.lazy_fp = True
        self.any_assumed = False
        self._fp_memo = {}

    # ------------------------------------------------------------------
    # exploration

    def explore(self, fn, args, max_paths=None):
        """all feasible paths of fn(args) -> [PathResult]"""
        if isinstance(fn, str):
            f = self.prog.by_name.get(fn)
            if f is None:
                raise Unsupported('no MIR body for %s' % fn)
            fn = f
        outer = (self.run, self.solver, self.solver_axioms, self.frames, self.model_cache)
        self.model_cache = []
        self.solver = z3.Solver()
        self.solver.set('timeout', self.uni.timeout_ms)
        self.solver_axioms = 0
        results = []
        work = [[]]
        try:
            while work:
                script = work.pop()
                self.run = Run(script)
                self.frames = []
                self._sync_axioms()
                self.solver.push()
                try:
                    try:
                        v = self.call_mir(fn, [clone_val(a) for a in args])
                        res = PathResult(list(self.run.pc), 'return', v)
                    except PanicEx as p:
                        res = PathResult(list(self.run.pc), 'panic', panic=p)
                    except StopPath as sp:
                        res = PathResult(list(self.run.pc), 'stop', sp.value)
                    except InfeasiblePath:
                        res = None
                finally:
                    self.solver.pop()
                work.extend(self.run.alts)
                if res is None:
                    self.uni.stats['infeasible_paths_dropped'] = self.uni.stats.get('infeasible_paths_dropped', 0) + 1
                    continue
                res.events = self.run.events
                res.script = list(self.run.script)
                res.blocks = self.run.blocks
                results.append(res)
                self.uni.stats['paths'] += 1
                if len(results) > (max_paths or self.max_paths):
                    raise BoundExceeded('more than %d paths in %s' % (max_paths or self.max_paths, fn.name))
        finally:
            self.run, self.solver, self.solver_axioms, self.frames, self.model_cache = outer
        return results

    def _sync_axioms(self):
        ax = self.uni.axioms
        while self.solver_axioms < len(ax):
            self.solver.add(ax[self.solver_axioms])
            self.solver_axioms += 1

    def add_axiom(self, a):
        self.uni.axioms.append(a)

    def feasible(self, cond):
        if cond is True:
            return True
        if cond is False:
            return False
        c = z3.simplify(cond)
        if z3.is_true(c):
            return True
        if z3.is_false(c):
            return False
        if self.lazy_fp and _has_fp(c, self._fp_memo):
            # floating-point feasibility queries are the expensive ones; assuming the branch feasible is sound for
            # exploration (an infeasible path has an unsatisfiable condition and contributes nothing to any obligation,
            # which are all decided by the solver afterwards)
            self.uni.stats['assumed_feasible'] = self.uni.stats.get('assumed_feasible', 0) + 1
            self.run.assumed = True
            self.any_assumed = True
            return True
        # axioms created since the path started
        ax = self.uni.axioms
        extra = ax[self.solver_axioms:]
        # counterexample cache: a model of an earlier query that also satisfies pc /\ c
        if self.model_cache:
            for m, n_ax in self.model_cache:
                # a cached model satisfies the axioms that existed when it was found; the younger ones are checked too
                later = ax[n_ax:]
                full = z3.And(c, *self.run.pc, *later) if (self.run.pc or later) else c
                try:
                    if z3.is_true(m.eval(full, model_completion=True)):
                        self.uni.stats['model_cache_hits'] = self.uni.stats.get('model_cache_hits', 0) + 1
                        return True
                except z3.Z3Exception:
                    pass
        t = time.time()
        r = self.solver.check(c, *extra) if extra else self.solver.check(c)
        self.uni.stats['z3_checks'] += 1
        self.uni.stats['z3_time'] += time.time() - t
        if r == z3.sat:
            self.model_cache.append((self.solver.model(), len(ax)))
            if len(self.model_cache) > 6:
                self.model_cache.pop(0)
            return True
        if r == z3.unsat:
            return False
        # a loaded machine can make a query miss its time cap: retry once with a much larger cap before giving up
        self.solver.set('timeout', self.uni.timeout_ms * 6)
        try:
            r = self.solver.check(c, *extra) if extra else self.solver.check(c)
        finally:
            self.solver.set('timeout', self.uni.timeout_ms)
        self.uni.stats['z3_retries'] = self.uni.stats.get('z3_retries', 0) + 1
        if r == z3.sat:
            return True
        if r == z3.unsat:
            return False
        raise Inconclusive('z3 returned unknown on a feasibility query (%s)' % self.solver.reason_unknown())

    def pc_unsat(self):
        """is the current path condition (with every axiom) definitely unsatisfiable?  Then the path is infeasible and
        contributes nothing; exploration may have entered it through a branch taken without a solver query."""
        ax = self.uni.axioms
        extra = ax[self.solver_axioms:]
        r = self.solver.check(*extra) if extra else self.solver.check()
        self.uni.stats['z3_checks'] += 1
        if r == z3.unsat:
            self.uni.stats['infeasible_paths_detected_late'] = self.uni.stats.get('infeasible_paths_detected_late', 0) + 1
            return True
        return False

    def decide(self, conds):
        """conds: mutually exclusive, jointly exhaustive options (python bool or
        z3 Bool).  Returns the index taken on this path."""
        run = self.run
        live = [i for i, c in enumerate(conds) if c is not False]
        if len(live) == 1 and conds[live[0]] is True:
            return live[0]
        if run.pos < len(run.script):
            k = run.script[run.pos]
            run.pos += 1
        else:
            feas = [i for i in live if self.feasible(conds[i])]
            if not feas:
                if run.assumed or self.any_assumed or self.pc_unsat():
                    raise InfeasiblePath()
                raise Inconclusive('no feasible branch although the path condition is satisfiable (options not exhaustive?)')
            k = feas[0]
            for j in feas[1:]:
                run.alts.append(run.script[:run.pos] + [j])
            run.script.append(k)
            run.pos += 1
        c = conds[k]
        if c is not True:
            c = z3bool(c)
            run.pc.append(c)
            self.solver.add(c)
        return k

    def branch(self, cond):
        """True/False for a possibly symbolic boolean"""
        if isinstance(cond, bool):
            return cond
        c = z3.simplify(cond)
        if z3.is_true(c):
            return True
        if z3.is_false(c):
            return False
        key = c.get_id()
        if key in self.run.known:
            return self.run.known[key]
        k = self.decide([c, z3.Not(c)])
        self.run.known[key] = (k == 0)
        self.run.keep.append(c)
        return k == 0

    def concretize(self, bv, candidates=None, what='value'):
        """fork over the feasible concrete values of a (small) symbolic int"""
        if isinstance(bv.v, int):
            return bv.v
        t = z3.simplify(bv.v)
        if z3.is_bv_value(t):
            return norm_int(t.as_long(), bv.ty)
        key = ('conc', t.get_id())
        if key in self.run.known:
            return self.run.known[key]
        if candidates is None:
            raise Unsupported('cannot concretise %s without candidates' % what)
        conds = [t == z3.BitVecVal(c, t.size()) for c in candidates]
        conds.append(z3.Not(z3.Or(*conds)) if conds else True)
        k = self.decide(conds)
        if k == len(candidates):
            raise Unsupported('%s outside the enumerated candidates' % what)
        self.run.known[key] = candidates[k]
        self.run.keep.append(t)
        return candidates[k]

    # ------------------------------------------------------------------
    # MIR interpretation

    def call_mir(self, fn, args):
        if fn.name in self.opaque_fns:
            return self.opaque_fns[fn.name](self, args)
        short = strip_generics(fn.name).split('::')[-1]
        if (fn.name in self.summarise or short in self.summarise) and self.frames:
            return self.call_summarised(fn, args)
        return self._exec(fn, args)

    def _exec(self, fn, args):
        if len(self.frames) > 400:
            raise BoundExceeded('call depth > 400 in %s' % fn.name)
        fr = Frame(fn)
        for (loc, _ty), a in zip(fn.args, args):
            fr.locals.items[loc] = a
        if len(args) != len(fn.args):
            raise Unsupported('arity mismatch calling %s: %d args for %d params' % (fn.name, len(args), len(fn.args)))
        self.frames.append(fr)
        try:
            bb = 0
            blocks = fn.blocks
            stats = self.uni.stats
            while True:
                blk = blocks[bb]
                fr.bb = bb
                n = fr.visits.get(bb, 0) + 1
                fr.visits[bb] = n
                if n > self.uni.max_loop:
                    self.uni.max_loop = n
                if n > self.loop_bound:
                    raise BoundExceeded('block bb%d of %s entered %d times' % (bb, fn.name, n))
                self.run.blocks.add((fn.name, bb))
                if self.block_hook is not None:
                    self.block_hook(self, fr, bb, n)
                for st in blk['stmts']:
                    stats['steps'] += 1
                    if st[0] == 'assign':
                        v = self.eval_rvalue(fr, st[2], st[1])
                        self.write_place(fr, st[1], v)
                    elif st[0] == 'setdisc':
                        self.set_discriminant(fr, st[1], st[2])
                    elif st[0] == 'unparsed':
                        raise Unsupported('MIR statement outside the supported syntax in %s bb%d: %s' % (fn.name, bb, st[1][:120]))
                term = blk['term']
                k = term[0]
                stats['steps'] += 1
                if k == 'goto':
                    bb = term[1]
                elif k == 'switch':
                    bb = self.do_switch(fr, term)
                elif k == 'call':
                    v = self.do_call(fr, term)
                    if term[4] is None:
                        raise Unsupported('diverging call %s returned' % term[2])
                    self.write_place(fr, term[1], v)
                    bb = term[4]
                elif k == 'return':
                    return fr.locals.items[0]
                elif k == 'drop':
                    bb = term[2]
                elif k == 'assert':
                    c = self.eval_operand(fr, term[1])
                    ok = self.branch(c if term[2] else b_not(c))
                    if not ok:
                        raise PanicEx('%s bb%d' % (fn.name, bb), 'assert failed: %s' % term[3][:80])
                    bb = term[4]
                elif k == 'unreachable':
                    raise PanicEx('%s bb%d' % (fn.name, bb), 'MIR unreachable executed (undefined behaviour)')
                elif k == 'unparsed':
                    raise Unsupported('MIR terminator outside the supported syntax in %s bb%d: %s' % (fn.name, bb, term[1][:120]))
                else:
                    raise Unsupported('terminator %r' % (term,))
        finally:
            self.frames.pop()

    # places -----------------------------------------------------------

    def resolve_place(self, fr, place):
        """-> (cont, idx) location"""
        loc, projs = place
        cont, idx = fr.locals, loc
        variant = None
        for p in projs:
            k = p[0]
            if k == 'deref':
                v = cont.items[idx]
                if isinstance(v, Ref):
                    cont, idx = v.cont, v.idx
                elif isinstance(v, BoxV):
                    cont, idx = v, 0
                elif isinstance(v, BoxPtr):
                    cont, idx = v.box, 0
                else:
                    raise Unsupported('deref of %r in %s' % (v, fr.fn.name))
                variant = None
            elif k == 'field':
                v = cont.items[idx]
                if isinstance(v, SymEnum):
                    if variant is None:
                        raise Unsupported('field of symbolic enum without downcast')
                    vi = self.prog.variant_index(v.name, variant)
                    if vi is None:
                        raise Unsupported('unknown variant %s of %s' % (variant, v.name))
                    pl = v.payload.get(vi)
                    if pl is None:
                        raise Unsupported('no payload for %s::%s' % (v.name, variant))
                    cont, idx = pl, p[1]
                elif isinstance(v, BoxV):
                    # Box.0 (Unique) .0 (NonNull): stay on the box
                    cont, idx = Cont([BoxPtr(v)]), 0
                elif isinstance(v, BoxPtr):
                    cont, idx = Cont([v]), 0
                elif isinstance(v, Cont):
                    if variant is not None and isinstance(v, Adt) and v.vname != variant:
                        raise Unsupported('downcast to %s of value %r' % (variant, v))
                    if p[1] >= len(v.items):
                        raise Unsupported('field %d of %r' % (p[1], v))
                    cont, idx = v, p[1]
                else:
                    raise Unsupported('field .%d of %r (%s)' % (p[1], v, fr.fn.name))
                variant = None
            elif k == 'downcast':
                variant = p[1]
            elif k == 'index':
                v = cont.items[idx]
                i = fr.locals.items[p[1]]
                n = self.concretize(i, candidates=list(range(len(v.items))) if isinstance(v, Cont) else None, what='index')
                if not isinstance(v, Cont) or n >= len(v.items):
                    raise Unsupported('index %d of %r' % (n, v))
                cont, idx = v, n
            elif k == 'constindex':
                v = cont.items[idx]
                n = len(v.items) - p[1] if p[2] else p[1]
                cont, idx = v, n
            else:
                raise Unsupported('projection %r' % (p,))
        return cont, idx

    def read_place(self, fr, place):
        cont, idx = self.resolve_place(fr, place)
        v = cont.items[idx]
        if v is UNINIT:
            raise Unsupported('read of uninitialised %r in %s bb%s' % (place, fr.fn.name, fr.bb))
        return v

    def check_write(self, cont):
        if cont.oid < self.frozen_below:
            raise PurityViolation('write to pre-existing object #%d (%s) in %s' % (
                cont.oid, type(cont).__name__, self.frames[-1].fn.name if self.frames else '?'))

    def write_place(self, fr, place, v):
        cont, idx = self.resolve_place(fr, place)
        if cont is not fr.locals:
            self.check_write(cont)
        cont.items[idx] = v

    def set_discriminant(self, fr, place, idx):
        cont, i = self.resolve_place(fr, place)
        v = cont.items[i]
        if isinstance(v, Adt):
            vs = self.prog.enum_variants(v.name)
            v.variant = idx
            v.vname = vs[idx] if vs else str(idx)
        else:
            raise Unsupported('SetDiscriminant on %r' % (v,))

    # operands / rvalues ----------------------------------------------

    def eval_operand(self, fr, op):
        k = op[0]
        if k == 'copy':
            return clone_val(self.read_place(fr, op[1]))
        if k == 'move':
            return self.read_place(fr, op[1])
        if k == 'const':
            return self.eval_const(fr, op[1])
        raise Unsupported('operand %r' % (op,))

    def eval_const(self, fr, text):
        t = text.strip()
        if t == 'true':
            return True
        if t == 'false':
            return False
        if t == '()':
            return UNIT
        m = _INT_LIT.match(t)
        if m:
            return mk_int(int(m.group(1)), m.group(2))
        m = _FLT_LIT.match(t)
        if m:
            return FP(float(m.group(1).replace('NaN', 'nan')))
        if t.startswith('"'):
            return StrV(unescape(t[1:-1]))
        if t.startswith('b"'):
            return Ref(Cont([Arr([mk_int(b, 'u8') for b in unescape_bytes(t[2:-1])])]), 0)
        if t.startswith("'"):
            s = unescape(t[1:-1])
            return mk_int(ord(s), 'char')
        m = re.search(r'::promoted\[(\d+)\]$', t)
        if m:
            f = self.prog.get_promoted(fr.fn.name, int(m.group(1)))
            if f is None:
                if 'CALLSITE' in t or 'META' in t:
                    return Opaque('promoted', t)
                raise Unsupported('promoted constant %s of %s not found in the MIR dump' % (t, fr.fn.name))
            key = ('promoted', f.name)
            if key not in self.uni.memo:
                save = self.frozen_below
                self.uni.memo[key] = self._exec(f, [])
            return self.uni.memo[key]
        m = re.match(r'^(.*) as (\w+) \((IntToInt|FloatToInt)\)$', t)
        if m:
            inner = self.eval_const(fr, m.group(1))
            return self.do_cast(inner, m.group(2), m.group(3))
        m = re.match(r'^core::num::<impl (\w+)>::(MAX|MIN)$', t) or re.match(r'^(\w+)::(MAX|MIN)$', t)
        if m and m.group(1) in INT_TYPES:
            bits, signed = INT_TYPES[m.group(1)]
            if m.group(2) == 'MAX':
                v = (1 << (bits - 1)) - 1 if signed else (1 << bits) - 1
            else:
                v = -(1 << (bits - 1)) if signed else 0
            return mk_int(v, m.group(1))
        m = re.match(r'^core::f64::<impl f64>::(\w+)$', t) or re.match(r'^f64::(\w+)$', t)
        if m:
            name = m.group(1)
            vals = {'MAX': sys.float_info.max, 'MIN': -sys.float_info.max, 'INFINITY': float('inf'),
                    'NEG_INFINITY': float('-inf'), 'NAN': float('nan'), 'EPSILON': sys.float_info.epsilon}
            if name in vals:
                return FP(vals[name])
        if t.endswith('::ALIGN') or 'SizedTypeProperties>::ALIGN' in t:
            return mk_int(1, 'usize')
        if 'SizedTypeProperties>::IS_ZST' in t:
            return False
        if 'SizedTypeProperties>::SIZE' in t:
            # only ever compared with zero (containers are modelled abstractly): the types stored here are not zero-sized
            return mk_int(8, 'usize')
        m = re.match(r'^\{(alloc\d+): &', t)
        if m and self.prog is not None:
            am = self.prog.by_name.get('@alloc:' + m.group(1))
            if am is not None:
                sname = am.literal[len('static:'):]
                sf = self.prog.by_name.get(sname)
                if sf is None:
                    cands = [f for f in self.prog.fns if f.kind == 'const' and f.name.split('::')[-1] == sname.split('::')[-1] and f.blocks]
                    sf = cands[0] if len(cands) == 1 else None
                if sf is not None and sf.blocks:
                    key = ('staticitem', sf.name)
                    if key not in self.uni.memo:
                        self.uni.memo[key] = Ref(PCont([self._exec(sf, [])]), 0)
                    return self.uni.memo[key]
        if t.startswith('{alloc') or t.startswith('tracing::') or 'CALLSITE' in t:
            return Opaque('static', t)
        segs_ = strip_generics(t.replace('ZeroSized: ', '')).split('::')
        if len(segs_) >= 2 and re.fullmatch(r'\w+', segs_[-1]):
            vs_ = self.prog.enum_variants('::'.join(segs_[:-1])) if self.prog is not None else None
            if vs_ is not None and segs_[-1] in vs_:
                return Adt(segs_[-2], vs_.index(segs_[-1]), segs_[-1], [])
        if t.startswith('ZeroSized: {closure@'):
            return Closure(t[len('ZeroSized: '):], [])
        if t.startswith('ZeroSized: '):
            t = t[len('ZeroSized: '):]
        # a named constant / static of the crate (`const WIDTH: usize = 256;`): its MIR body is in the dump
        cf = self.prog.by_name.get(t) if self.prog is not None else None
        if cf is None and self.prog is not None:
            cf = self.prog.by_name.get(t.split('::')[-1])
            if cf is not None and getattr(cf, 'literal', None) is None:
                cf = None
        if cf is not None and getattr(cf, 'literal', None) is not None:
            return self.eval_const(fr, cf.literal)
        if cf is not None and cf.kind in ('const', 'static') and not cf.args:
            key = ('constitem', cf.name)
            if key not in self.uni.memo:
                self.uni.memo[key] = self._exec(cf, [])
            return self.uni.memo[key]
        # unit-like enum constant, e.g. `SolverResult::True` never appears as const; fn items do
        return Opaque('fnitem', t)

    def eval_rvalue(self, fr, rv, dest_place=None):
        k = rv[0]
        if k == 'use':
            return self.eval_operand(fr, rv[1])
        if k == 'ref' or k == 'rawptr':
            cont, idx = self.resolve_place(fr, rv[2] if k == 'ref' else rv[1])
            # reborrow of a str slice / dyn ref: &(*_x) where _x holds a non-Ref pointer-like value
            place = rv[2] if k == 'ref' else rv[1]
            if place[1] and place[1][-1][0] == 'deref':
                # &*p  == p  (keeps StrV / Opaque pointer-likes intact)
                base = (place[0], place[1][:-1])
                v = self.read_place(fr, base)
                if not isinstance(v, (BoxV, BoxPtr)):
                    return v
            return Ref(cont, idx)
        if k == 'disc':
            v = self.read_place(fr, rv[1])
            return self.discriminant_of(v)
        if k == 'binop':
            a = self.eval_operand(fr, rv[2])
            b = self.eval_operand(fr, rv[3])
            return self.do_binop(rv[1], a, b)
        if k == 'unop':
            a = self.eval_operand(fr, rv[2])
            return self.do_unop(rv[1], a)
        if k == 'cast':
            a = self.eval_operand(fr, rv[1])
            return self.do_cast(a, rv[2], rv[3])
        if k == 'agg':
            return self.do_aggregate(fr, rv)
        if k == 'len':
            v = self.read_place(fr, rv[1])
            return mk_int(len(v.items), 'usize')
        if k == 'repeat':
            a = self.eval_operand(fr, rv[1])
            n = self.eval_const(fr, rv[2].replace('const ', '')) if not rv[2].strip().isdigit() else mk_int(int(rv[2]), 'usize')
            return Arr([clone_val(a) for _ in range(n.v)])
        raise Unsupported('rvalue %r' % (rv,))

    def discriminant_of(self, v):
        if isinstance(v, Adt):
            if v.variant is None:
                return mk_int(0, 'isize')
            if v.name == 'Ordering' or v.name.endswith('::Ordering'):
                return mk_int(ORDERING_DISC[v.vname], 'i8')
            return mk_int(v.variant, 'isize')
        if isinstance(v, SymEnum):
            d = v.disc
            if isinstance(d, int):
                return mk_int(d, 'isize')
            key = ('disc', d.get_id())
            if key in self.run.known:
                return mk_int(self.run.known[key], 'isize')
            return BV(d, 'isize')
        raise Unsupported('discriminant of %r' % (v,))

    def do_aggregate(self, fr, rv):
        kind = rv[1]
        if kind == 'tuple':
            return Tup([self.eval_operand(fr, o) for o in rv[2]])
        if kind == 'array':
            return Arr([self.eval_operand(fr, o) for o in rv[2]])
        if kind == 'closure':
            return Closure(rv[2], [self.eval_operand(fr, o) for o in rv[3]])
        if kind == 'adt':
            head = rv[2]
            ops = [self.eval_operand(fr, o) for o in rv[3]]
            path = strip_generics(head)
            segs = path.split('::')
            if len(segs) >= 2:
                vs = self.prog.enum_variants('::'.join(segs[:-1]))
                if vs is not None and segs[-1] in vs:
                    en = segs[-2] if self.prog.enums.get(segs[-2]) is not None or len(segs) < 3 else '::'.join(segs[-3:-1])
                    return Adt(en, vs.index(segs[-1]), segs[-1], ops)
            if len(segs) >= 2 and segs[-2] == '__Field':
                di = self.prog.derive_field_index(path, fr.fn.name)
                if di is None:
                    raise Unsupported('variant index of %s' % head)
                return Adt('__Field', di, segs[-1], ops)
            return Adt(segs[-1], None, None, ops)
        if kind == 'struct':
            head = strip_generics(rv[2])
            name = head.split('::')[-1]
            order = self.prog.structs.get(name)
            given = {n: self.eval_operand(fr, o) for n, o in rv[3]}
            if order is None:
                if all(n.isdigit() for n in given):
                    order = [str(i) for i in range(len(given))]
                else:
                    order = list(given)
            return Adt(name, None, None, [given.get(n, UNINIT) for n in order])
        raise Unsupported('aggregate %r' % (rv,))

    # arithmetic -------------------------------------------------------

    def do_binop(self, op, a, b):
        if isinstance(a, BV) and isinstance(b, BV):
            return self.int_binop(op, a, b)
        if isinstance(a, FP) and isinstance(b, FP):
            return self.fp_binop(op, a, b)
        if isinstance(a, (bool, z3.BoolRef)) and isinstance(b, (bool, z3.BoolRef)):
            if op == 'Eq':
                return b_ite(a, b, b_not(b))
            if op == 'Ne':
                return b_ite(a, b_not(b), b)
            if op == 'BitAnd':
                return b_and(a, b)
            if op == 'BitOr':
                return b_or(a, b)
            if op == 'BitXor':
                return b_ite(a, b_not(b), b)
            if op in ('Lt', 'Le', 'Gt', 'Ge'):
                na, nb = b_not(a), b_not(b)
                return {'Lt': b_and(na, b), 'Le': b_or(na, b), 'Gt': b_and(a, nb), 'Ge': b_or(a, nb)}[op]
        if op in ('Eq', 'Ne') and isinstance(a, Ref) and isinstance(b, Ref):
            r = (a.cont is b.cont and a.idx == b.idx)
            return r if op == 'Eq' else not r
        raise Unsupported('binop %s on %r, %r' % (op, a, b))

    def int_binop(self, op, a, b):
        ty = a.ty
        bits, signed = INT_TYPES[ty]
        if op in ('Shl', 'Shr', 'ShlUnchecked', 'ShrUnchecked'):
            if isinstance(a.v, int) and isinstance(b.v, int):
                sh = b.v % bits
                if op.startswith('Shl'):
                    return mk_int(a.v << sh, ty)
                return mk_int(a.v >> sh, ty)
            x = to_z3bv(a)
            y = to_z3bv(b)
            ybits = y.size()
            if ybits < bits:
                y = z3.ZeroExt(bits - ybits, y)
            elif ybits > bits:
                y = z3.Extract(bits - 1, 0, y)
            y = y & (bits - 1)
            if op.startswith('Shl'):
                return BV(x << y, ty)
            return BV(x >> y if signed else z3.LShR(x, y), ty)
        if a.ty != b.ty and INT_TYPES[a.ty][0] != INT_TYPES[b.ty][0]:
            raise Unsupported('int binop %s on %s and %s' % (op, a.ty, b.ty))
        conc = isinstance(a.v, int) and isinstance(b.v, int)
        if op in ('Eq', 'Ne', 'Lt', 'Le', 'Gt', 'Ge'):
            if conc:
                return {'Eq': a.v == b.v, 'Ne': a.v != b.v, 'Lt': a.v < b.v, 'Le': a.v <= b.v,
                        'Gt': a.v > b.v, 'Ge': a.v >= b.v}[op]
            x, y = to_z3bv(a), to_z3bv(b)
            if op == 'Eq':
                return x == y
            if op == 'Ne':
                return x != y
            if signed:
                return {'Lt': x < y, 'Le': x <= y, 'Gt': x > y, 'Ge': x >= y}[op]
            return {'Lt': z3.ULT(x, y), 'Le': z3.ULE(x, y), 'Gt': z3.UGT(x, y), 'Ge': z3.UGE(x, y)}[op]
        if op in ('Add', 'Sub', 'Mul', 'AddUnchecked', 'SubUnchecked', 'MulUnchecked',
                  'BitAnd', 'BitOr', 'BitXor'):
            base = op.replace('Unchecked', '')
            if conc:
                r = {'Add': a.v + b.v, 'Sub': a.v - b.v, 'Mul': a.v * b.v, 'BitAnd': a.v & b.v,
                     'BitOr': a.v | b.v, 'BitXor': a.v ^ b.v}[base]
                return mk_int(r, ty)
            x, y = to_z3bv(a), to_z3bv(b)
            r = {'Add': x + y, 'Sub': x - y, 'Mul': x * y, 'BitAnd': x & y, 'BitOr': x | y,
                 'BitXor': x ^ y}[base]
            return BV(r, ty)
        if op in ('AddWithOverflow', 'SubWithOverflow', 'MulWithOverflow'):
            base = op[:3]
            if conc:
                r = {'Add': a.v + b.v, 'Sub': a.v - b.v, 'Mul': a.v * b.v}[base]
                n = norm_int(r, ty)
                return Tup([BV(n, ty), n != r])
            x, y = to_z3bv(a), to_z3bv(b)
            if base == 'Add':
                r = x + y
                ovf = z3.Not(z3.BVAddNoOverflow(x, y, signed))
                if signed:
                    ovf = z3.Or(ovf, z3.Not(z3.BVAddNoUnderflow(x, y)))
            elif base == 'Sub':
                r = x - y
                ovf = z3.Not(z3.BVSubNoUnderflow(x, y, signed))
                if signed:
                    ovf = z3.Or(ovf, z3.Not(z3.BVSubNoOverflow(x, y)))
            else:
                r = x * y
                ovf = z3.Not(z3.BVMulNoOverflow(x, y, signed))
                if signed:
                    ovf = z3.Or(ovf, z3.Not(z3.BVMulNoUnderflow(x, y)))
            return Tup([BV(r, ty), ovf])
        if op in ('Div', 'Rem'):
            if conc:
                if b.v == 0:
                    raise Unsupported('division by zero reached without MIR assert')
                q = abs(a.v) // abs(b.v)
                if (a.v < 0) != (b.v < 0):
                    q = -q
                r = a.v - q * b.v
                return mk_int(q if op == 'Div' else r, ty)
            x, y = to_z3bv(a), to_z3bv(b)
            if signed:
                return BV(x / y if op == 'Div' else z3.SRem(x, y), ty)
            return BV(z3.UDiv(x, y) if op == 'Div' else z3.URem(x, y), ty)
        if op == 'Cmp':
            lt = self.int_binop('Lt', a, b)
            eq = self.int_binop('Eq', a, b)
            if isinstance(lt, bool) and isinstance(eq, bool):
                nm = 'Less' if lt else ('Equal' if eq else 'Greater')
                return Adt('Ordering', ['Less', 'Equal', 'Greater'].index(nm), nm, [])
            d = z3.If(z3bool(lt), z3.BitVecVal(-1, 8), z3.If(z3bool(eq), z3.BitVecVal(0, 8), z3.BitVecVal(1, 8)))
            return SymEnum('Ordering', z3.SignExt(56, d), {})
        raise Unsupported('int binop %s' % op)

    def fp_binop(self, op, a, b):
        if isinstance(a.v, float) and isinstance(b.v, float):
            x, y = a.v, b.v
            if op in ('Eq', 'Ne', 'Lt', 'Le', 'Gt', 'Ge'):
                return {'Eq': x == y, 'Ne': x != y, 'Lt': x < y, 'Le': x <= y, 'Gt': x > y, 'Ge': x >= y}[op]
        x, y = to_fp(a), to_fp(b)
        if op == 'Eq':
            return z3.fpEQ(x, y)
        if op == 'Ne':
            return z3.Not(z3.fpEQ(x, y))
        if op == 'Lt':
            return z3.fpLT(x, y)
        if op == 'Le':
            return z3.fpLEQ(x, y)
        if op == 'Gt':
            return z3.fpGT(x, y)
        if op == 'Ge':
            return z3.fpGEQ(x, y)
        rm = z3.RNE()
        if op == 'Add':
            return FP(z3.fpAdd(rm, x, y))
        if op == 'Sub':
            return FP(z3.fpSub(rm, x, y))
        if op == 'Mul':
            return FP(z3.fpMul(rm, x, y))
        if op == 'Div':
            return FP(z3.fpDiv(rm, x, y))
        raise Unsupported('float binop %s' % op)

    def do_unop(self, op, a):
        if op == 'Not':
            if isinstance(a, (bool, z3.BoolRef)):
                return b_not(a)
            if isinstance(a, BV):
                if isinstance(a.v, int):
                    return mk_int(~a.v, a.ty)
                return BV(~a.v, a.ty)
        if op == 'Neg':
            if isinstance(a, BV):
                if isinstance(a.v, int):
                    return mk_int(-a.v, a.ty)
                return BV(-a.v, a.ty)
            if isinstance(a, FP):
                if isinstance(a.v, float):
                    return FP(-a.v)
                return FP(z3.fpNeg(a.v))
        if op == 'PtrMetadata':
            return self.ptr_metadata(a)
        raise Unsupported('unop %s on %r' % (op, a))

    def ptr_metadata(self, a):
        if isinstance(a, StrV):
            ln = S.s_len(a.s)
            return BV(ln, 'usize')
        if isinstance(a, Ref):
            v = a.get()
            if isinstance(v, (VecV, Arr)):
                return mk_int(len(v.items), 'usize')
            if isinstance(v, StrV):
                return BV(S.s_len(v.s), 'usize')
        if isinstance(a, SliceRef):
            return mk_int(a.length, 'usize')
        raise Unsupported('PtrMetadata of %r' % (a,))

    def do_cast(self, a, ty, kind):
        ty = ty.strip()
        if kind in ('Transmute', 'PtrToPtr') or kind.startswith('PointerCoercion') or kind in (
                'PointerExposeProvenance', 'PointerWithExposedProvenance', 'FnPtrToPtr'):
            if isinstance(a, BoxPtr):
                return Ref(a.box, 0)
            if isinstance(a, Ref) and ty == 'usize':
                return mk_int(4096, 'usize')      # non-null, aligned: pointers are abstract
            if isinstance(a, (Ref, StrV, Opaque, Closure, SliceRef)) or a is UNIT:
                if ty == 'usize':
                    return mk_int(4096, 'usize')
                return a
            if isinstance(a, BV) and ty in INT_TYPES and INT_TYPES[ty][0] == INT_TYPES[a.ty][0]:
                return BV(a.v if not isinstance(a.v, int) else norm_int(a.v, ty), ty)
            if isinstance(a, Cont):
                return a
            raise Unsupported('cast %s of %r to %s' % (kind, a, ty))
        if kind == 'IntToInt':
            if isinstance(a, (bool, z3.BoolRef)):
                if isinstance(a, bool):
                    return mk_int(int(a), ty)
                bits = INT_TYPES[ty][0]
                return BV(z3.If(a, z3.BitVecVal(1, bits), z3.BitVecVal(0, bits)), ty)
            if isinstance(a, SymEnum) or isinstance(a, Adt):
                a = self.discriminant_of(a)
            sb, ss = INT_TYPES[a.ty]
            db, ds = INT_TYPES[ty]
            if isinstance(a.v, int):
                return mk_int(a.v, ty)
            x = a.v
            if db < sb:
                x = z3.Extract(db - 1, 0, x)
            elif db > sb:
                x = z3.SignExt(db - sb, x) if ss else z3.ZeroExt(db - sb, x)
            return BV(x, ty)
        if kind == 'IntToFloat':
            sb, ss = INT_TYPES[a.ty]
            if isinstance(a.v, int):
                return FP(float(a.v))
            if ss:
                return FP(z3.fpSignedToFP(z3.RNE(), a.v, z3.Float64()))
            return FP(z3.fpUnsignedToFP(z3.RNE(), a.v, z3.Float64()))
        if kind == 'FloatToInt':
            return float_to_int(a, ty)
        if kind == 'FloatToFloat':
            if not isinstance(a.v, float) and a.v.sort() != z3.Float64() and ty == 'f64':
                return FP(z3.fpFPToFP(z3.RNE(), a.v, z3.Float64()))
            return a
        raise Unsupported('cast kind %s' % kind)

    # control ----------------------------------------------------------

    def do_switch(self, fr, term):
        v = self.eval_operand(fr, term[1])
        cases, otherwise = term[2], term[3]
        if isinstance(v, bool):
            v = mk_int(int(v), 'u8')
        if isinstance(v, z3.BoolRef):
            m = self.try_diamond(fr, v, cases, otherwise)
            if m is not None:
                return m
            t = self.branch(v)
            v = mk_int(int(t), 'u8')
        if isinstance(v, BV):
            if isinstance(v.v, int):
                bits, signed = INT_TYPES[v.ty]
                for c, bb in cases:
                    if norm_int(c, v.ty) == v.v:
                        return bb
                if otherwise is None:
                    raise PanicEx(fr.fn.name, 'switchInt fell through')
                return otherwise
            t = z3.simplify(v.v)
            if z3.is_bv_value(t):
                val = norm_int(t.as_long(), v.ty)
                for c, bb in cases:
                    if norm_int(c, v.ty) == val:
                        return bb
                return otherwise
            bits = t.size()
            # one option per *target block* (cases that jump to the same block are one decision)
            targets = []
            by_bb = {}
            for c, bb in cases:
                if bb not in by_bb:
                    by_bb[bb] = []
                    targets.append(bb)
                by_bb[bb].append(c)
            conds = [z3.Or(*[t == z3.BitVecVal(c, bits) for c in by_bb[bb]]) if len(by_bb[bb]) > 1
                     else t == z3.BitVecVal(by_bb[bb][0], bits) for bb in targets]
            conds.append(z3.Not(z3.Or(*conds)) if conds else True)
            k = self.decide(conds)
            if k < len(targets):
                bb = targets[k]
                if len(by_bb[bb]) == 1:
                    # remember: a later discriminant() of the same term is concrete
                    self.run.known[('disc', v.v.get_id())] = norm_int(by_bb[bb][0], v.ty)
                    self.run.keep.append(v.v)
                return bb
            return otherwise
        raise Unsupported('switchInt on %r' % (v,))

    def try_diamond(self, fr, cond, cases, otherwise):
        """if-conversion: `if c {x = K1} else {x = K2}` with constant K's joins
        without forking (and without a feasibility query)"""
        if len(cases) != 1 or cases[0][0] != 0 or otherwise is None:
            return None
        bf, bt = fr.fn.blocks[cases[0][1]], fr.fn.blocks[otherwise]
        if len(bf['stmts']) != 1 or len(bt['stmts']) != 1:
            return None
        sf, st = bf['stmts'][0], bt['stmts'][0]
        if sf[0] != 'assign' or st[0] != 'assign' or sf[1] != st[1] or sf[1][1]:
            return None
        if bf['term'][0] != 'goto' or bt['term'][0] != 'goto' or bf['term'][1] != bt['term'][1]:
            return None

        def const_rv(rv):
            if rv[0] == 'use' and rv[1][0] == 'const':
                return True
            return rv[0] == 'agg' and rv[1] == 'adt' and not rv[3]
        if not (const_rv(sf[2]) and const_rv(st[2])):
            return None
        vf = self.eval_rvalue(fr, sf[2])
        vt = self.eval_rvalue(fr, st[2])
        try:
            merged = merge_values([(cond, vt), (z3.Not(cond), vf)])
        except Unsupported:
            return None
        self.write_place(fr, sf[1], merged)
        self.run.blocks.add((fr.fn.name, cases[0][1]))
        self.run.blocks.add((fr.fn.name, otherwise))
        self.uni.stats['diamonds'] = self.uni.stats.get('diamonds', 0) + 1
        return bf['term'][1]

    def do_call(self, fr, term):
        callee = term[2]
        args = [self.eval_operand(fr, a) for a in term[3]]
        return self.call(callee, args, fr)

    def call(self, callee, args, fr=None):
        if self.call_hook is not None:
            r = self.call_hook(self, callee, args)
            if r is not None:
                return r[0]
        ent = self._callee_cache.get(callee)
        if ent is None:
            ent = self._lookup_callee(callee)
            self._callee_cache[callee] = ent
        kind, target = ent
        if kind == 'model':
            return target(self, callee, args)
        if kind == 'mir':
            return self.call_mir(target, args)
        # an enum variant / tuple struct used as a function (`Pattern::Equal as fn(i64) -> Pattern`)
        segs = strip_generics(callee).split('::')
        if len(segs) >= 2 and self.prog is not None:
            vs = self.prog.enum_variants('::'.join(segs[:-1]))
            if vs is not None and segs[-1] in vs:
                return Adt(segs[-2], vs.index(segs[-1]), segs[-1], list(args))
        raise Unsupported('no model for callee %s (called from %s)' % (callee, fr.fn.name if fr else '?'))

    def _lookup_callee(self, callee):
        for rx, h in self.models:
            if rx.search(callee):
                return ('model', h)
        f = self.prog.resolve_call(callee)
        if f is not None:
            qt, qtrait, _ = split_qself(callee)
            if qt is not None and qtrait is not None and qt.lstrip().startswith('&'):
                # std's forwarding impls (`impl PartialEq<&B> for &A`, Display for &T, ...):
                # strip one reference level per leading `&` and call the impl for the pointee
                n = len(qt) - len(qt.lstrip('& '))
                n = qt.replace(' ', '').count('&', 0, len(qt.replace(' ', '')) - len(qt.replace(' ', '').lstrip('&')))

                def fwd(ex, callee, args, f=f, n=n):
                    out = []
                    for a in args:
                        for _ in range(n):
                            if isinstance(a, Ref) and isinstance(a.get(), Ref):
                                a = a.get()
                        out.append(a)
                    return ex.call_mir(f, out)
                return ('model', fwd)
            return ('mir', f)
        return ('none', None)

    def call_closure(self, clo, args):
        """invoke a closure value: MIR closures take (env, args...)"""
        if isinstance(clo, Closure):
            m = re.match(r'^\{closure@(src/\w+\.rs):(\d+):(\d+): (\d+):(\d+)\}$', clo.fn)
            f = self.closure_fn(clo.fn)
            env_ty = f.args[0][1] if f.args else ''
            env = Adt('closure', None, None, list(clo.captures))
            if env_ty.startswith('&'):
                env = Ref(Cont([env]), 0)
            return self.call_mir(f, [env] + list(args))
        if isinstance(clo, Ref):
            return self.call_closure(clo.get(), args)
        if isinstance(clo, Opaque) and clo.kind == 'fnitem':
            return self.call(clo.data, list(args))
        if isinstance(clo, Adt) and not clo.items and clo.variant is not None:
            # a tuple variant used as a function value (`Pattern::Equal as fn(i64) -> Pattern`)
            return Adt(clo.name, clo.variant, clo.vname, list(args))
        raise Unsupported('call of %r' % (clo,))

    def closure_fn(self, text):
        key = ('closure', text)
        if key in self.uni.memo:
            return self.uni.memo[key]
        for f in self.prog.fns:
            if f.kind == 'fn' and f.args and text in f.args[0][1]:
                self.uni.memo[key] = f
                return f
        raise Unsupported('no MIR body for closure %s' % text)

    # summaries --------------------------------------------------------

    def call_summarised(self, fn, args):
        key = ('summary', fn.name, tuple(self.digest(a) for a in args))
        summ = self.uni.memo.get(key)
        if summ is None:
            self.uni.stats['summaries'] += 1
            barrier = next_oid()
            results = self.explore(fn, args)
            summ = []
            for r in results:
                if r.kind == 'return':
                    check_escape(r.value, barrier)
                summ.append(r)
            self.uni.memo[key] = summ
            # the key holds z3 AST ids, which z3 recycles once a term is freed: keep the arguments alive with the entry
            self.uni.memo.setdefault(('keepalive',), []).append(args)
        else:
            self.uni.stats['summary_hits'] += 1
            if os.environ.get('VERIF_DEBUG_SUMMARY'):
                fresh = self.explore(fn, args)
                a = sorted((r.kind, str(r.value), len(r.pc)) for r in summ)
                b = sorted((r.kind, str(r.value), len(r.pc)) for r in fresh)
                eq = z3.Solver()
                for ax in self.uni.axioms:
                    eq.add(ax)
                va = merge_values([(r.cond(), r.value) for r in summ if r.kind == 'return']) if any(r.kind == 'return' for r in summ) else None
                vb = merge_values([(r.cond(), r.value) for r in fresh if r.kind == 'return']) if any(r.kind == 'return' for r in fresh) else None
                diff = None
                try:
                    from .vals import Adt as _A
                    def term_(v_):
                        if isinstance(v_, _A):
                            return z3.BitVecVal(v_.variant or 0, 64) if not v_.items else None
                        if hasattr(v_, 'disc'):
                            return v_.disc if not isinstance(v_.disc, int) else z3.BitVecVal(v_.disc, 64)
                        if isinstance(v_, BV):
                            return v_.v if not isinstance(v_.v, int) else z3.BitVecVal(v_.v, 64)
                        if isinstance(v_, bool):
                            return z3.BoolVal(v_)
                        if isinstance(v_, z3.ExprRef):
                            return v_
                        return None
                    ta, tb = term_(va), term_(vb)
                    if ta is None or tb is None:
                        diff = None
                    else:
                        if ta.sort() != tb.sort():
                            diff = 'sorts'
                        else:
                            eq.add(ta != tb)
                            diff = eq.check() == z3.sat
                    pa = b_or(*[r.cond() for r in summ if r.kind == 'panic'])
                    pb = b_or(*[r.cond() for r in fresh if r.kind == 'panic'])
                    if diff is not True:
                        e2 = z3.Solver()
                        for ax in self.uni.axioms:
                            e2.add(ax)
                        e2.add(z3bool(pa) != z3bool(pb))
                        if e2.check() == z3.sat:
                            diff = True
                except Exception as e:
                    diff = 'n/a %r' % (e,)
                if diff is True:
                    with open(os.environ['VERIF_DEBUG_SUMMARY'], 'a') as fh:
                        fh.write('MISMATCH %s key=%r\n memo=%r\n fresh=%r\n args=%r\n\n' % (fn.name, key, a, b, args))
        # events recorded inside the summary are replayed conditionally
        panics = [r for r in summ if r.kind == 'panic']
        rets = [r for r in summ if r.kind == 'return']
        for r in summ:
            for ev in r.events:
                self.run.events.append(('cond', r.cond(), ev))
            self.run.blocks |= r.blocks
        if panics:
            pc = b_or(*[p.cond() for p in panics])
            k = self.decide([pc, b_not(pc)])
            if k == 0:
                if len(panics) == 1:
                    raise PanicEx(panics[0].panic.site, panics[0].panic.msg)
                # one path per panicking path of the callee (exclusive by construction, exhaustive under `pc`)
                conds, seen_ = [], False
                for p in panics:
                    conds.append(b_and(p.cond(), b_not(seen_)))
                    seen_ = b_or(seen_, p.cond())
                j = self.decide(conds)
                raise PanicEx(panics[j].panic.site, panics[j].panic.msg)
        if not rets:
            raise Inconclusive('summarised callee %s never returns' % fn.name)
        return merge_values([(r.cond(), r.value) for r in rets])

    def digest(self, v, depth=0):
        if depth > 12:
            return ('deep', next_oid())     # never equal to another key: a miss, not a collision
        fb = self.frozen_below
        if isinstance(v, Ref):
            c = v.cont
            if c.oid < fb or getattr(c, 'persistent', False):
                return ('R', c.oid, v.idx)
            return ('r', self.digest(c.items[v.idx], depth + 1))
        if isinstance(v, BV):
            return ('i', v.ty, v.v if isinstance(v.v, int) else ('z', v.v.get_id()))
        if isinstance(v, FP):
            return ('f', v.v if isinstance(v.v, float) else ('z', v.v.get_id()))
        if isinstance(v, bool):
            return v
        if isinstance(v, z3.ExprRef):
            return ('z', v.get_id())
        if isinstance(v, StrV):
            return ('s', S.skey(v.s))
        if isinstance(v, Cont):
            if v.oid < fb or getattr(v, 'persistent', False):
                return ('O', v.oid)
            tag = (type(v).__name__, getattr(v, 'name', None), getattr(v, 'variant', None))
            return tag + tuple(self.digest(x, depth + 1) for x in v.items)
        if isinstance(v, SymEnum):
            if v.oid < fb:
                return ('O', v.oid)
            return ('S', v.name, v.disc.get_id() if not isinstance(v.disc, int) else v.disc,
                    tuple((k, tuple(self.digest(x, depth + 1) for x in p.items)) for k, p in sorted(v.payload.items())))
        if v is UNINIT:
            return ('uninit',)
        if isinstance(v, SliceRef):
            c = v.cont
            base = ('O', c.oid) if (c.oid < fb or getattr(c, 'persistent', False)) else self.digest(c, depth + 1)
            return ('slice', base, self.digest(v.start, depth + 1), self.digest(v.length, depth + 1))
        if isinstance(v, Closure):
            return ('closure', v.fn) + tuple(self.digest(x, depth + 1) for x in v.captures)
        if hasattr(v, 'oid'):
            return ('O', v.oid)
        if v is None or isinstance(v, (bytes, str, int, float)):
            return ('v', v)
        if isinstance(v, (tuple, list)):
            return ('t',) + tuple(self.digest(x, depth + 1) for x in v)
        # identity of a python object: keep it alive, or its id could be handed to another object later
        self.uni.alive.append(v)
        return ('id', id(v))


def _has_fp(t, memo):
    k = t.get_id()
    r = memo.get(k)
    if r is not None and not isinstance(r, bool):
        r = r[1]
    if r is None:
        stack = [t]
        seen = set()
        r = False
        while stack:
            x = stack.pop()
            i = x.get_id()
            if i in seen:
                continue
            seen.add(i)
            mi = memo.get(i)
            if mi is not None and mi[1] is True:
                r = True
                break
            srt = x.sort()
            if srt.kind() in (z3.Z3_FLOATING_POINT_SORT, z3.Z3_ROUNDING_MODE_SORT):
                r = True
                break
            stack.extend(x.children())
        memo[k] = (t, r)     # the term is kept alive so that its id is not recycled
    return r


class SliceRef:
    """&[T] view of part of a container"""
    __slots__ = ('cont', 'start', 'length')

    def __init__(self, cont, start, length):
        self.cont = cont
        self.start = start
        self.length = length


# ----------------------------------------------------------------------

def check_escape(v, barrier):
    """a summarised callee may only return plain data"""
    if isinstance(v, (BV, FP, bool, z3.ExprRef, StrV)) or v is UNIT:
        return
    if isinstance(v, Adt) and not v.items:
        return
    if isinstance(v, SymEnum) and not v.payload:
        return
    if isinstance(v, (Adt, Tup)):
        for x in v.items:
            check_escape(x, barrier)
        return
    if isinstance(v, Tup) and not v.items:
        return
    raise Unsupported('summarised callee returns non-data value %r' % (v,))


def merge_values(pairs):
    """[(cond, value)] with mutually exclusive, exhaustive conds -> one value"""
    if len(pairs) == 1:
        return pairs[0][1]
    vals = [v for _, v in pairs]
    v0 = vals[0]
    if all(isinstance(v, Adt) and not v.items for v in vals) or all(
            (isinstance(v, Adt) and not v.items) or (isinstance(v, SymEnum) and not v.payload) for v in vals):
        name = v0.name
        idx = set()
        expr = None
        for c, v in reversed(pairs):
            d = z3.BitVecVal(v.variant, 64) if isinstance(v, Adt) else v.disc
            expr = d if expr is None else z3.If(z3bool(c), d, expr)
        same = {v.variant for v in vals if isinstance(v, Adt)}
        if len(same) == 1 and all(isinstance(v, Adt) for v in vals):
            return vals[0]
        return SymEnum(name, z3.simplify(expr), {})
    if all(isinstance(v, BV) for v in vals):
        ty = v0.ty
        if all(isinstance(v.v, int) and v.v == v0.v for v in vals):
            return v0
        expr = None
        for c, v in reversed(pairs):
            d = to_z3bv(v)
            expr = d if expr is None else z3.If(z3bool(c), d, expr)
        return BV(expr, ty)
    if all(isinstance(v, (bool, z3.BoolRef)) for v in vals):
        expr = None
        for c, v in reversed(pairs):
            expr = v if expr is None else b_ite(c, v, expr)
        return expr
    if all(v is UNIT or (isinstance(v, Tup) and not v.items) for v in vals):
        return UNIT
    raise Unsupported('cannot merge values %r' % (vals[:3],))


def canon_enum(segs):
    return segs[-1]


def clone_val(v):
    if isinstance(v, Tup):
        return Tup([clone_val(x) for x in v.items])
    if isinstance(v, Adt) and type(v) is Adt:
        return Adt(v.name, v.variant, v.vname, [clone_val(x) for x in v.items])
    if isinstance(v, Arr) and type(v) is Arr:
        return Arr([clone_val(x) for x in v.items])
    return v


def to_fp(a):
    if isinstance(a.v, float):
        return z3.FPVal(a.v, z3.Float64())
    return a.v


def float_to_int(a, ty):
    """Rust `as`: saturating, NaN -> 0"""
    bits, signed = INT_TYPES[ty]
    lo = -(1 << (bits - 1)) if signed else 0
    hi = (1 << (bits - 1)) - 1 if signed else (1 << bits) - 1
    if isinstance(a.v, float):
        x = a.v
        if x != x:
            return mk_int(0, ty)
        if x >= float(hi):
            return mk_int(hi, ty)
        if x <= float(lo):
            return mk_int(lo, ty)
        return mk_int(int(x), ty)
    x = a.v
    rtz = z3.RTZ()
    f_hi = z3.FPVal(float(2 ** (bits - 1 if signed else bits)), z3.Float64())   # first value that does not fit
    f_lo = z3.FPVal(float(lo), z3.Float64())
    conv = z3.fpToSBV(rtz, x, z3.BitVecSort(bits)) if signed else z3.fpToUBV(rtz, x, z3.BitVecSort(bits))
    r = z3.If(z3.fpIsNaN(x), z3.BitVecVal(0, bits),
              z3.If(z3.fpGEQ(x, f_hi), z3.BitVecVal(hi, bits),
                    z3.If(z3.fpLEQ(x, f_lo), z3.BitVecVal(lo, bits), conv)))
    return BV(r, ty)


_ESC = {'n': '\n', 't': '\t', 'r': '\r', '0': '\0', '\\': '\\', '"': '"', "'": "'"}


def unescape(s):
    out = []
    i = 0
    n = len(s)
    while i < n:
        c = s[i]
        if c == '\\' and i + 1 < n:
            d = s[i + 1]
            if d in _ESC:
                out.append(_ESC[d])
                i += 2
                continue
            if d == 'x':
                out.append(chr(int(s[i + 2:i + 4], 16)))
                i += 4
                continue
            if d == 'u':
                j = s.index('}', i)
                out.append(chr(int(s[i + 3:j], 16)))
                i = j + 1
                continue
            if d == '\n':
                i += 2
                while i < n and s[i] in ' \t\n':
                    i += 1
                continue
        out.append(c)
        i += 1
    return ''.join(out)


def unescape_bytes(s):
    out = bytearray()
    i = 0
    n = len(s)
    while i < n:
        c = s[i]
        if c == '\\' and i + 1 < n:
            d = s[i + 1]
            if d in _ESC:
                out.append(ord(_ESC[d]))
                i += 2
                continue
            if d == 'x':
                out.append(int(s[i + 2:i + 4], 16))
                i += 4
                continue
        out.extend(c.encode('utf-8'))
        i += 1
    return bytes(out)
