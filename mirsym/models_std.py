"""Callee models, group 1 (transparent std plumbing), group 2 (string
primitives) and group 4 (logging / formatting).  DESIGN 2.3.

Each model is (regex on the callee text as printed in MIR, handler).  The
handler receives already-evaluated arguments.
"""
import re
import z3
from .vals import *
from .engine import PanicEx, Unsupported, SliceRef, clone_val, merge_values
from . import strings as S

MODELS = []


def model(pattern):
    def deco(fn):
        MODELS.append((re.compile(pattern), fn))
        return fn
    return deco


def some(v):
    return Adt('Option', 1, 'Some', [v])


def none():
    return Adt('Option', 0, 'None', [])


def ok(v):
    return Adt('Result', 0, 'Ok', [v])


def err(v):
    return Adt('Result', 1, 'Err', [v])


def deref_all(v):
    """follow references down to the pointee value"""
    n = 0
    while isinstance(v, Ref):
        v = v.get()
        n += 1
        if n > 8:
            break
    return v


def as_str(v):
    """&str / &String / &&str / Cow -> bytes or SStr"""
    v = deref_all(v)
    if isinstance(v, StrV):
        return v.s
    if isinstance(v, Adt) and v.name == 'Cow':
        return as_str(v.items[0])
    if isinstance(v, BoxV):
        return as_str(v.items[0])
    if isinstance(v, (Arr, VecV)) and all(isinstance(b, BV) and b.ty == 'u8' for b in v.items):
        # a byte slice handed to something that takes AsRef<[u8]> (as_bytes() of a string, a sub-slice of it)
        if all(isinstance(b.v, int) for b in v.items):
            return bytes(b.v for b in v.items)
        return S.SStr([b.v for b in v.items], len(v.items), 'bytes')
    if isinstance(v, SliceRef):
        items = v.cont.items[v.start:v.start + v.length] if isinstance(v.length, int) else None
        if items is not None and all(isinstance(b, BV) and b.ty == 'u8' for b in items):
            if all(isinstance(b.v, int) for b in items):
                return bytes(b.v for b in items)
            return S.SStr([b.v for b in items], len(items), 'bytes')
    raise Unsupported('expected a string, got %r' % (v,))


class IterV:
    """iterator state (mutable, lives in a frame slot)"""
    __slots__ = ('kind', 'src', 'pos', 'extra', 'oid')

    def __init__(self, kind, src, pos=0, extra=None):
        self.kind = kind
        self.src = src
        self.pos = pos
        self.extra = extra
        self.oid = next_oid()

    def clone(self):
        src = self.src.clone() if isinstance(self.src, IterV) else self.src
        return IterV(self.kind, src, self.pos, clone_val(self.extra))

    def __repr__(self):
        return '<iter %s @%s>' % (self.kind, self.pos)


def get_iter(v):
    v0 = v
    while isinstance(v, Ref):
        v = v.get()
    if isinstance(v, BoxV):
        v = v.items[0]
    if not isinstance(v, IterV):
        raise Unsupported('expected an iterator, got %r' % (v0,))
    return v


def vec_of(v):
    v = deref_all(v)
    if isinstance(v, (VecV, Arr)):
        return v
    raise Unsupported('expected a Vec/slice, got %r' % (v,))


# ----------------------------------------------------------------------
# group 4: logging / formatting: no effect on tracked state

@model(r'^<Level as PartialOrd<LevelFilter>>::(le|lt|ge|gt)$')
def m_level_cmp(ex, callee, args):
    # tracing disabled: the verdict must not depend on logging (assumption A-log)
    return False


@model(r'^(tracing|tracing_core)::|^LevelFilter::|^DefaultCallsite::|^Interest::|^FieldSet::|'
       r'<DefaultCallsite as|tracing::Metadata|ValueSet|^Event::|__macro_support')
def m_tracing(ex, callee, args):
    return Opaque('tracing')


@model(r'^(core::fmt::rt::)?Argument::<.*>::new_|^Arguments::<.*>::new|^core::fmt::Arguments|'
       r'^core::fmt::rt::|^Formatter::<.*>::|^std::fmt::Formatter|^DebugStruct|^DebugTuple')
def m_fmt_args(ex, callee, args):
    return Opaque('fmt')


@model(r'^(std|alloc)::fmt::format$|^format::|^alloc::fmt::format::')
def m_format(ex, callee, args):
    return StrV(b'<formatted>')


@model(r'^core::panicking::panic(_fmt|_display|_explicit|_nounwind)?$|^std::rt::begin_panic|^core::panicking::unreachable_display|^core::panicking::panic_bounds_check')
def m_panic(ex, callee, args):
    msg = ''
    if args and isinstance(args[0], StrV) and isinstance(args[0].s, bytes):
        msg = args[0].s.decode('utf-8', 'replace')
    raise PanicEx(ex.frames[-1].fn.name + ' bb%s' % ex.frames[-1].bb, msg or callee)


@model(r'^core::slice::index::slice_(start|end)_index_len_fail|^core::slice::index::slice_index_order_fail|^core::str::slice_error_fail|^core::option::(unwrap|expect)_failed|^core::result::unwrap_failed')
def m_panic2(ex, callee, args):
    raise PanicEx(ex.frames[-1].fn.name + ' bb%s' % ex.frames[-1].bb, callee)


# ----------------------------------------------------------------------
# Option / Result

def _opt_disc(ex, v):
    """-> True if Some (forks when symbolic)"""
    if isinstance(v, Adt):
        return v.variant == 1
    if isinstance(v, SymEnum):
        d = ex.discriminant_of(v)
        if isinstance(d.v, int):
            return d.v == 1
        t = ex.branch(d.v == z3.BitVecVal(1, 64))
        ex.run.known[('disc', v.disc.get_id())] = 1 if t else 0
        ex.run.keep.append(v.disc)
        return t
    raise Unsupported('expected Option/Result, got %r' % (v,))


def _payload(v, idx):
    if isinstance(v, Adt):
        return v.items[0]
    return v.payload[idx].items[0]


@model(r'^std::option::Option::<.*>::(expect|unwrap)$')
def m_opt_expect(ex, callee, args):
    v = args[0]
    if _opt_disc(ex, v):
        return _payload(v, 1)
    msg = as_str(args[1]).decode() if len(args) > 1 else 'called `Option::unwrap()` on a `None` value'
    raise PanicEx(ex.frames[-1].fn.name + ' bb%s' % ex.frames[-1].bb, msg)


@model(r'^std::result::Result::<.*>::(expect|unwrap)$')
def m_res_expect(ex, callee, args):
    v = args[0]
    if not _opt_disc(ex, v):     # Ok = 0
        return _payload(v, 0)
    msg = as_str(args[1]).decode() if len(args) > 1 else 'called `Result::unwrap()` on an `Err` value'
    raise PanicEx(ex.frames[-1].fn.name + ' bb%s' % ex.frames[-1].bb, msg)


@model(r'^std::option::Option::<.*>::is_none$')
def m_is_none(ex, callee, args):
    v = deref_all(args[0])
    if isinstance(v, Adt):
        return v.variant == 0
    return v.disc == z3.BitVecVal(0, 64)


@model(r'^std::option::Option::<.*>::is_some$')
def m_is_some(ex, callee, args):
    v = deref_all(args[0])
    if isinstance(v, Adt):
        return v.variant == 1
    return v.disc == z3.BitVecVal(1, 64)


@model(r'^std::option::Option::<.*>::unwrap_or$')
def m_unwrap_or(ex, callee, args):
    v = args[0]
    if _opt_disc(ex, v):
        return _payload(v, 1)
    return args[1]


@model(r'^std::option::Option::<.*>::(and_then|map)::<')
def m_opt_and_then(ex, callee, args):
    v = args[0]
    is_map = '::map::<' in callee
    if _opt_disc(ex, v):
        r = ex.call_closure(args[1], [Tup([_payload(v, 1)])] if False else [_payload(v, 1)])
        return some(r) if is_map else r
    return none()


@model(r'^std::option::Option::<.*>::ok_or_else::<|^std::option::Option::<.*>::ok_or::<')
def m_ok_or_else(ex, callee, args):
    v = args[0]
    if _opt_disc(ex, v):
        return ok(_payload(v, 1))
    if 'ok_or_else' in callee:
        return err(ex.call_closure(args[1], []))
    return err(args[1])


@model(r'^std::option::Option::<.*>::ok$|^std::result::Result::<.*>::ok$')
def m_res_ok(ex, callee, args):
    v = args[0]
    if not _opt_disc(ex, v):
        return some(_payload(v, 0))
    return none()


@model(r'^std::result::Result::<.*>::map_err::<')
def m_map_err(ex, callee, args):
    v = args[0]
    if not _opt_disc(ex, v):
        return ok(_payload(v, 0))
    return err(ex.call_closure(args[1], [_payload(v, 1)]))


@model(r'^std::result::Result::<.*>::is_(ok|err)$')
def m_res_is(ex, callee, args):
    v = deref_all(args[0])
    want = 0 if callee.endswith('is_ok') else 1
    if isinstance(v, Adt):
        return v.variant == want
    return v.disc == z3.BitVecVal(want, 64)


@model(r'^<std::(option::Option|result::Result)<.*> as Try>::branch$|^<(Option|Result)<.*> as Try>::branch$')
def m_try_branch(ex, callee, args):
    v = args[0]
    is_result = 'Result<' in callee.split(' as ')[0]
    if is_result:
        if not _opt_disc(ex, v):
            return Adt('ControlFlow', 0, 'Continue', [_payload(v, 0)])
        return Adt('ControlFlow', 1, 'Break', [err(_payload(v, 1))])
    if _opt_disc(ex, v):
        return Adt('ControlFlow', 0, 'Continue', [_payload(v, 1)])
    return Adt('ControlFlow', 1, 'Break', [none()])


@model(r' as FromResidual<.*>>::from_residual$')
def m_from_residual(ex, callee, args):
    v = args[0]
    if isinstance(v, Adt) and v.name == 'Result':
        # Err(e) -> Err(From::from(e)); error conversions are identity here
        return v
    return v


@model(r'^<std::option::Option<.*> as Clone>::clone$|^<.* as Clone>::clone$')
def m_clone(ex, callee, args):
    qt = callee[1:callee.index(' as Clone')]
    v0 = deref_all(args[0])
    if isinstance(v0, SymEnum):
        # derived Clone is a structural copy; symbolic enum values are immutable here
        return v0
    f = ex.prog.resolve_call(callee)
    if f is not None:
        return ex.call_mir(f, args)
    v = deref_all(args[0])
    return deep_clone(v)


def deep_clone(v):
    if isinstance(v, IterV):
        return v.clone()
    if isinstance(v, VecV):
        return VecV([deep_clone(x) for x in v.items])
    if isinstance(v, BoxV):
        return BoxV([deep_clone(v.items[0])])
    if isinstance(v, Tup):
        return Tup([deep_clone(x) for x in v.items])
    if isinstance(v, Arr):
        return Arr([deep_clone(x) for x in v.items])
    if isinstance(v, Adt):
        return Adt(v.name, v.variant, v.vname, [deep_clone(x) for x in v.items])
    return v


@model(r'^std::mem::replace::<')
def m_replace(ex, callee, args):
    r = args[0]
    old = r.get()
    ex.check_write(r.cont) if r.cont.oid < ex.frozen_below else None
    r.set(args[1])
    return old


@model(r'^std::mem::(drop|forget)::<|^core::mem::drop')
def m_drop(ex, callee, args):
    return UNIT


@model(r'^<.* as (Into|From)<.*>>::(into|from)$')
def m_into(ex, callee, args):
    v = args[0]
    # a conversion the crate itself defines (`impl From<bool> for SolverResult`) is executed from its MIR
    f = ex.prog.resolve_call(callee)
    if f is None and '::into' in callee:
        m_ = re.match(r'^<(.+) as Into<(.+)>>::into$', callee)
        if m_:
            f = ex.prog.resolve_call('<%s as From<%s>>::from' % (m_.group(2), m_.group(1)))
    if f is not None:
        return ex.call_mir(f, args)
    m = re.match(r'^<(\w+) as From<(\w+)>>::from$', callee) or None
    dst = src = None
    if m:
        dst, src = m.group(1), m.group(2)
    else:
        m = re.match(r'^<(\w+) as Into<(\w+)>>::into$', callee)
        if m:
            src, dst = m.group(1), m.group(2)
    if dst in INT_TYPES and isinstance(v, (BV, bool, z3.BoolRef)):
        return ex.do_cast(v, dst, 'IntToInt')
    if dst == 'f64' and isinstance(v, BV):
        return ex.do_cast(v, 'f64', 'IntToFloat')
    if dst == 'f64' and isinstance(v, FP):
        return ex.do_cast(v, 'f64', 'FloatToFloat')
    # identity conversions (String -> String, error sources, &str -> String)
    return v


@model(r'^<Box<.*> as AsRef<.*>>::as_ref$|^<Box<.*> as Deref>::deref$|^<Box<.*> as Borrow')
def m_box_as_ref(ex, callee, args):
    b = deref_all_to(args[0], BoxV)
    return Ref(b, 0)


def deref_all_to(v, cls):
    while isinstance(v, Ref):
        v = v.get()
        if isinstance(v, cls):
            return v
    if isinstance(v, cls):
        return v
    raise Unsupported('expected %s, got %r' % (cls.__name__, v))


@model(r'^Box::<.*>::new$|^std::boxed::Box::<.*>::new$')
def m_box_new(ex, callee, args):
    return BoxV([args[0]])


# ----------------------------------------------------------------------
# Vec / slices / iterators

@model(r'^Vec::<.*>::(new|with_capacity)$|^std::vec::Vec::<.*>::(new|with_capacity)$')
def m_vec_new(ex, callee, args):
    return VecV([])


@model(r'^(std::vec::|alloc::vec::)?from_elem::<.*>$')
def m_vec_from_elem(ex, callee, args):
    # vec![x; n] with a concrete n
    n = args[1]
    n = n.v if isinstance(n, BV) else n
    if not isinstance(n, int):
        n = ex.concretize(args[1], list(range(0, 9)), 'vec![x; n] length')
    return VecV([clone_val(args[0]) for _ in range(n)])


@model(r'^Vec::<.*>::push$')
def m_vec_push(ex, callee, args):
    v = vec_of(args[0])
    ex.check_write(v)
    v.items.append(args[1])
    return UNIT


@model(r'^Vec::<.*>::(len)$|^core::slice::<impl \[.*\]>::len$')
def m_vec_len(ex, callee, args):
    return mk_int(len(vec_of(args[0]).items), 'usize')


@model(r'^Vec::<.*>::is_empty$|^core::slice::<impl \[.*\]>::is_empty$')
def m_vec_is_empty(ex, callee, args):
    return len(vec_of(args[0]).items) == 0


@model(r'^Vec::<.*>::clear$')
def m_vec_clear(ex, callee, args):
    v = vec_of(args[0])
    ex.check_write(v)
    del v.items[:]
    return UNIT


@model(r'^Vec::<.*>::extend::<|^<Vec<.*> as Extend<.*>>::extend::<')
def m_vec_extend(ex, callee, args):
    v = vec_of(args[0])
    ex.check_write(v)
    src = args[1]
    if isinstance(src, VecV):
        v.items.extend(src.items)
        return UNIT
    it = get_iter(src)
    while True:
        r = iter_next(ex, it)
        if r.variant == 0:
            break
        v.items.append(r.items[0])
    return UNIT


@model(r'^<Vec<.*> as Deref>::deref$|^<Vec<.*> as DerefMut>::deref_mut$|^Vec::<.*>::as_slice$|^<Vec<.*> as AsRef')
def m_vec_deref(ex, callee, args):
    r = args[0]
    while isinstance(r, Ref) and isinstance(r.get(), Ref):
        r = r.get()
    return r


@model(r'^<(Vec<.*>|\[.*\]) as (std::ops::)?(Index|IndexMut)<(usize|PatternID)>>::(index|index_mut)$')
def m_vec_index(ex, callee, args):
    v = vec_of(args[0])
    i = args[1]
    if isinstance(i, Adt):       # PatternID newtype
        i = i.items[0]
    n = ex.concretize(i, candidates=list(range(len(v.items))), what='vector index')
    if n >= len(v.items):
        raise PanicEx(ex.frames[-1].fn.name + ' bb%s' % ex.frames[-1].bb,
                      'index out of bounds: the len is %d but the index is %d' % (len(v.items), n))
    return Ref(v, n)


@model(r'^<&(mut )?Vec<.*> as IntoIterator>::into_iter$|^<&(mut )?\[.*\] as IntoIterator>::into_iter$|'
       r'^core::slice::<impl \[.*\]>::iter(_mut)?$|^Vec::<.*>::iter$')
def m_slice_iter(ex, callee, args):
    return IterV('slice', vec_of(args[0]))


@model(r'^<Vec<.*> as IntoIterator>::into_iter$|^Vec::<.*>::into_iter$')
def m_vec_into_iter(ex, callee, args):
    return IterV('owned', vec_of(args[0]))


@model(r'^<(std::slice::Iter<.*>|std::vec::IntoIter<.*>|Enumerate<.*>|Box<dyn Iterator<.*>>|'
       r'aho_corasick::FindOverlappingIter<.*>|aho_corasick::FindIter<.*>|regex::SetMatchesIter<.*>|Peekable<.*>|Chars<.*>|'
       r'std::str::\w+<.*>|Split\w*<.*>|&mut .*|Map<.*>|Rev<.*>|Filter<.*>|Flatten<.*>|Skip<.*>|Take<.*>|Zip<.*>|Chain<.*>|TakeWhile<.*>|SkipWhile<.*>) as IntoIterator>::into_iter$')
def m_iter_identity(ex, callee, args):
    return args[0]


@model(r'^<.* as Iterator>::enumerate$')
def m_enumerate(ex, callee, args):
    return IterV('enumerate', get_iter(args[0]), 0)


@model(r'^<.* as Iterator>::by_ref$')
def m_by_ref(ex, callee, args):
    return args[0]


@model(r'^<.* as Iterator>::peekable$')
def m_peekable(ex, callee, args):
    return IterV('peekable', get_iter(args[0]), 0, extra=None)


@model(r'^<.* as Iterator>::map::<')
def m_iter_map(ex, callee, args):
    return IterV('map', get_iter(args[0]), 0, extra=args[1])


@model(r'^<.* as Iterator>::filter_map::<')
def m_iter_filter_map(ex, callee, args):
    return IterV('filter_map', get_iter(args[0]), 0, extra=args[1])


@model(r'^<.* as Iterator>::collect::<Vec<.*>>$')
def m_collect_vec(ex, callee, args):
    it = get_iter(args[0])
    out = []
    while True:
        r = iter_next(ex, it)
        if r.variant == 0:
            break
        v = r.items[0]
        out.append(v)
    return VecV(out)


def iter_next(ex, it):
    """-> concrete Option Adt (forks inside for symbolic sources)"""
    k = it.kind
    if k == 'slice':
        if it.pos < len(it.src.items):
            r = some(Ref(it.src, it.pos))
            it.pos += 1
            return r
        return none()
    if k == 'owned':
        if it.pos < len(it.src.items):
            r = some(it.src.items[it.pos])
            it.pos += 1
            return r
        return none()
    if k == 'enumerate':
        r = iter_next(ex, it.src)
        if r.variant == 0:
            return r
        i = it.pos
        it.pos += 1
        return some(Tup([mk_int(i, 'usize'), r.items[0]]))
    if k == 'peekable':
        if it.extra is not None:
            r = it.extra
            it.extra = None
            return r
        return iter_next(ex, it.src)
    if k == 'map':
        r = iter_next(ex, it.src)
        if r.variant == 0:
            return r
        return some(ex.call_closure(it.extra, [r.items[0]]))
    if k == 'flatten':
        # over items that are Option<T> / &Option<T>: the Some payloads, in order
        while True:
            r = iter_next(ex, it.src)
            if r.variant == 0:
                return r
            item = r.items[0]
            inner = deref_all(item)
            if isinstance(inner, Adt) and inner.name == 'Option':
                if inner.variant == 0:
                    continue
                return some(Ref(inner, 0) if isinstance(item, Ref) else inner.items[0])
            raise Unsupported('flatten over %r' % (inner,))
    if k == 'filter_map':
        while True:
            r = iter_next(ex, it.src)
            if r.variant == 0:
                return r
            o = ex.call_closure(it.extra, [r.items[0]])
            if _opt_disc(ex, o):
                return some(_payload(o, 1))
    h = ITER_KINDS.get(k)
    if h is not None:
        return h(ex, it)
    raise Unsupported('next() on iterator kind %s' % k)


ITER_KINDS = {}


@model(r'^<.* as Iterator>::next$')
def m_iter_next(ex, callee, args):
    qt = callee[1:callee.index(' as Iterator')]
    if qt.startswith('std::ops::Range<'):
        rng = deref_all(args[0])
        start, end = rng.items[0], rng.items[1]
        lt = ex.int_binop('Lt', start, end)
        if ex.branch(lt):
            rng.items[0] = ex.int_binop('Add', start, mk_int(1, start.ty))
            return some(start)
        return none()
    return iter_next(ex, get_iter(args[0]))


@model(r'^<.* as Iterator>::nth$')
def m_iter_nth(ex, callee, args):
    it = get_iter(args[0])
    n = args[1].v
    if not isinstance(n, int):
        # symbolic index: fork over 0..K-1 and ">= K" where K bounds what the source can yield
        K = getattr(it.src, 'cap', None)
        if K is None and hasattr(it.src, 'items'):
            K = len(it.src.items)
        if K is None:
            raise Unsupported('nth() with a symbolic index on an unbounded iterator')
        t = args[1].v
        conds = [t == z3.BitVecVal(i, t.size()) for i in range(K)] + [z3.UGE(t, z3.BitVecVal(K, t.size()))]
        k = ex.decide(conds)
        n = k if k < K else K
    r = none()
    for _ in range(n + 1):
        r = iter_next(ex, it)
        if r.variant == 0:
            return r
    return r


@model(r'^Peekable::<.*>::peek$')
def m_peek(ex, callee, args):
    it = get_iter(args[0])
    if it.extra is None:
        it.extra = iter_next(ex, it.src)
    r = it.extra
    if r.variant == 0:
        return none()
    return some(Ref(r, 0))


@model(r'^core::slice::<impl \[(char|u8|u16|u32|u64|usize|i8|i16|i32|i64|isize|bool)\]>::contains$|^Vec::<(char|u8|u16|u32|u64|usize|i8|i16|i32|i64|isize|bool)>::contains$')
def m_slice_contains_scalar(ex, callee, args):
    v = vec_of(args[0])
    x = deref_all(args[1])
    hits = []
    for it in v.items:
        it = deref_all(it)
        if isinstance(x, BV) and isinstance(it, BV):
            hits.append(ex.int_binop('Eq', BV(it.v, x.ty), BV(x.v, x.ty)))
        else:
            hits.append(struct_eq(ex, it, x))
    return b_or(*hits) if hits else False


@model(r'^(std::string::|alloc::string::)?String::push$')
def m_string_push(ex, callee, args):
    # String::push(char) on a string under construction (concrete length)
    r = args[0]
    cur = r.get() if isinstance(r, Ref) else r
    s_ = cur.s if isinstance(cur, StrV) else None
    ch = deref_all(args[1])
    if s_ is None:
        raise Unsupported('String::push on %r' % (cur,))
    bs, ln, cap = S.parts(s_)
    if not isinstance(ln, int):
        raise Unsupported('String::push on a string of symbolic length')
    src = getattr(ch, 'src', None)
    if src is not None:
        sb = S.parts(src[0])[0]
        new = list(bs[:ln]) + list(sb[src[1]:src[1] + src[2]])
    elif isinstance(ch.v, int):
        new = list(bs[:ln]) + list(chr(ch.v).encode('utf-8'))
    else:
        raise Unsupported('String::push of a computed char')
    val = StrV(bytes(new) if all(isinstance(b, int) for b in new) else S.SStr(new, len(new), 'pushed'))
    if isinstance(r, Ref):
        ex.check_write(r.cont)
        r.cont.items[r.idx] = val
    return UNIT


@model(r'^Peekable::<.*>::(next_if|next_if_eq)::<|^Peekable::<.*>::next_if_eq$')
def m_next_if(ex, callee, args):
    it = get_iter(args[0])
    if it.extra is None:
        it.extra = iter_next(ex, it.src)
    r = it.extra
    if r.variant == 0:
        return none()
    x = r.items[0]
    if 'next_if_eq' in callee:
        want = deref_all(args[1])
        okv = struct_eq(ex, x, want) if not isinstance(x, BV) else ex.int_binop('Eq', BV(x.v, x.ty), BV(want.v, x.ty))
    else:
        okv = ex.call_closure(args[1], [Ref(r, 0)])
    if ex.branch(okv):
        it.extra = None
        return some(x)
    return none()


@model(r'^<(Peekable<.*>|Chars<.*>|std::slice::Iter<.*>) as Clone>::clone$')
def m_iter_clone(ex, callee, args):
    return get_iter(args[0]).clone()


@model(r'^<std::ops::Range<.*> as IntoIterator>::into_iter$')
def m_range_into_iter(ex, callee, args):
    return args[0]


@model(r'^(core::|alloc::)?slice::<impl \[.*\]>::join::<|^(core::|alloc::)?slice::<impl \[.*\]>::concat')
def m_join(ex, callee, args):
    v = vec_of(args[0])
    sep = as_str(args[1]) if len(args) > 1 else b''
    parts = [as_str(x) for x in v.items]
    if all(isinstance(p, bytes) for p in parts) and isinstance(sep, bytes):
        return StrV(sep.join(parts))
    raise Unsupported('join of symbolic strings')


# ----------------------------------------------------------------------
# HashMap<String, Expression> (rule side; concrete keys)

@model(r'^HashMap::<std::string::String, .*>::get::<|^(serde_json::)?Map::<std::string::String, .*>::get::<|^serde_yaml::Mapping::get::<')
def m_map_get(ex, callee, args):
    m = deref_all(args[0])
    k = as_str(args[1])
    h = getattr(m, 'hashmap_get', None)
    if h is not None:
        return h(ex, k)
    if not isinstance(m, MapV) or not isinstance(k, bytes):
        raise Unsupported('HashMap::get on %r / %r' % (m, k))
    i = m.d.get(k)
    if i is None:
        return none()
    return some(Ref(m.vals, i))


@model(r'^HashMap::<std::string::String, .*>::contains_key::<')
def m_map_contains(ex, callee, args):
    m = deref_all(args[0])
    k = as_str(args[1])
    if isinstance(m, MapV) and isinstance(k, bytes):
        return k in m.d
    h = getattr(m, 'contains_key', None)
    if h is not None:
        return h(ex, k)
    raise Unsupported('HashMap::contains_key on %r / %r' % (m, k))


# ----------------------------------------------------------------------
# strings

@model(r'^<std::string::String as Deref>::deref$|^std::string::String::as_str$|^<Cow<.*str> as Deref>::deref$|'
       r'^<std::string::String as AsRef<str>>::as_ref$|^<std::string::String as Borrow<str>>::borrow$|'
       r'^<str as AsRef<str>>::as_ref$|^std::string::String::as_mut_str$')
def m_str_deref(ex, callee, args):
    return StrV(as_str(args[0]))


@model(r'^<(str|std::string::String) as (ToOwned|ToString)>::(to_owned|to_string)$|^<Cow<.*str> as ToString>::to_string$|'
       r'^<std::string::String as Clone>::clone$|^<&str as ToString>::to_string$|^<std::string::String as From<&str>>::from$|'
       r'^<str as ToString>::to_string$|^core::str::<impl str>::to_string$|^core::str::<impl str>::to_owned$')
def m_str_to_owned(ex, callee, args):
    return StrV(as_str(args[0]))


@model(r'^std::string::String::new$')
def m_string_new(ex, callee, args):
    return StrV(b'')


@model(r'^<(&?std::string::String|&?str|&&str) as PartialEq(<.*>)?>::(eq|ne)$')
def m_str_eq(ex, callee, args):
    r = S.s_eq(as_str(args[0]), as_str(args[1]))
    return r if callee.endswith('::eq') else b_not(r)


@model(r'^core::str::<impl str>::eq_ignore_ascii_case$|^str::eq_ignore_ascii_case$|^core::slice::ascii::<impl \[u8\]>::eq_ignore_ascii_case$')
def m_str_eq_ignore_ascii_case(ex, callee, args):
    # equal lengths and bytes equal after folding A-Z (bytes >= 0x80 are compared as they are)
    return S.s_eq(as_str(args[0]), as_str(args[1]), fold=True)


class CharSet:
    """pattern that is a set of (ASCII) chars: `['a', 'b']`, `&[char]`"""
    def __init__(self, chars):
        self.chars = chars


def _pat(ex, p):
    """pattern argument: &str / &String / char / [char; N] -> bytes | SStr | CharSet"""
    p = deref_all(p)
    if isinstance(p, BV):
        if isinstance(p.v, int):
            return chr(p.v).encode('utf-8')
        raise Unsupported('symbolic char pattern')
    if isinstance(p, (Arr, VecV)) and all(isinstance(c, BV) and isinstance(c.v, int) and c.v < 0x80 for c in p.items):
        return CharSet([c.v for c in p.items])
    return as_str(p)


def _byte_in(b, cs):
    return b_or(*[S._eqb(b, c) for c in cs.chars])


def _first_in(s, cs):
    bs, ln, cap = S.parts(s)
    if cap == 0:
        return False
    nonempty = (ln >= 1) if isinstance(ln, int) else z3.UGE(ln, z3.BitVecVal(1, 64))
    return b_and(nonempty, _byte_in(bs[0], cs))


def _last_in(s, cs):
    bs, ln, cap = S.parts(s)
    opts = []
    for L in (range(1, cap + 1) if not isinstance(ln, int) else ([ln] if ln >= 1 else [])):
        opts.append(b_and(S._len_eq(ln, L), _byte_in(bs[L - 1], cs)))
    return b_or(*opts)


def _any_in(s, cs):
    bs, ln, cap = S.parts(s)
    return b_or(*[b_and((i < ln) if isinstance(ln, int) else z3.UGT(ln, z3.BitVecVal(i, 64)), _byte_in(bs[i], cs)) for i in range(cap)])


def _closure_pat(ex, hay, clo, how):
    """`s.contains(|c| ..)` / starts_with / ends_with with a predicate on chars: the predicate's MIR is run on each
    character of a concrete string (a rule key, a literal)"""
    s = as_str(hay)
    if not isinstance(s, (bytes, bytearray)):
        bs, ln, cap = S.parts(s)
        if not (isinstance(ln, int) and all(isinstance(b, int) for b in bs[:ln])):
            if how != 'contains':
                raise Unsupported('char predicate pattern (%s) on a symbolic string' % how)
            # symbolic ASCII string: the predicate's MIR runs on each byte as a char (a path on which some byte is not ASCII
            # is not modelled)
            hits = []
            for i in range(cap):
                b = bs[i]
                inlen = (i < ln) if isinstance(ln, int) else z3.UGT(ln, z3.BitVecVal(i, 64))
                if inlen is False:
                    continue
                if not isinstance(b, int):
                    if not ex.branch(z3.Or(z3.Not(z3bool(inlen)), z3.ULT(b, 0x80))):
                        raise Unsupported('char predicate pattern on a symbolic non-ASCII string')
                ch = BV(b, 'char') if isinstance(b, int) else BV(z3.ZeroExt(24, b), 'char')
                r = ex.call_closure(clo, [ch])
                if r is False:
                    continue
                hits.append(b_and(inlen, r))
            return b_or(*hits) if hits else False
        s = bytes(bs[:ln])
    try:
        chars = s.decode('utf-8')
    except UnicodeDecodeError:
        raise Unsupported('char predicate pattern on bytes that are not UTF-8')
    if how == 'starts_with':
        chars = chars[:1]
    elif how == 'ends_with':
        chars = chars[-1:]
    hits = []
    for ch in chars:
        r = ex.call_closure(clo, [BV(ord(ch), 'char')])
        if r is True:
            return True
        if r is not False:
            hits.append(r)
    return b_or(*hits) if hits else False


@model(r'^core::str::<impl str>::contains::<')
def m_contains(ex, callee, args):
    if isinstance(deref_all(args[1]), Closure):
        return _closure_pat(ex, args[0], deref_all(args[1]), 'contains')
    p = _pat(ex, args[1])
    if isinstance(p, CharSet):
        return _any_in(as_str(args[0]), p)
    return S.s_contains(as_str(args[0]), p)


@model(r'^core::str::<impl str>::starts_with::<')
def m_starts_with(ex, callee, args):
    p = _pat(ex, args[1])
    if isinstance(p, CharSet):
        return _first_in(as_str(args[0]), p)
    return S.s_prefix(as_str(args[0]), p)


@model(r'^core::str::<impl str>::ends_with::<')
def m_ends_with(ex, callee, args):
    p = _pat(ex, args[1])
    if isinstance(p, CharSet):
        return _last_in(as_str(args[0]), p)
    return S.s_suffix(as_str(args[0]), p)


@model(r'^core::str::<impl str>::len$|^std::string::String::len$')
def m_str_len(ex, callee, args):
    return BV(S.s_len(as_str(args[0])), 'usize')


@model(r'^core::str::<impl str>::is_empty$|^std::string::String::is_empty$')
def m_str_is_empty(ex, callee, args):
    ln = S.s_len(as_str(args[0]))
    if isinstance(ln, int):
        return ln == 0
    return ln == z3.BitVecVal(0, 64)


@model(r'^<bool as ToString>::to_string$')
def m_bool_to_string(ex, callee, args):
    b = deref_all(args[0])
    if isinstance(b, bool):
        return StrV(b'true' if b else b'false')
    key = ('bool_str', b.get_id())
    s = ex.uni.memo.get(key)
    if s is None:
        s = S.s_ite(b, b'true', b'false')
        ex.uni.memo[key] = s
        ex.uni.alive.append(b)
    return StrV(s)


def num_to_string(ex, kind, v):
    """i64/u64/f64 -> decimal text.  Modelled as a deterministic function of
    the value (same term -> same string) whose result is an arbitrary string of
    bounded length; nothing is claimed about *which* text it is (DESIGN 2.3
    group 2) except for concrete values."""
    if isinstance(v, BV) and isinstance(v.v, int):
        return StrV(str(v.v).encode())
    if isinstance(v, FP) and isinstance(v.v, float):
        return StrV(rust_f64_display(v.v).encode())
    t = v.v
    key = ('num_str', kind, t.get_id())
    s = ex.uni.memo.get(key)
    if s is None:
        cap = getattr(ex.uni, 'numstr_cap', 3)
        s = S.fresh('str(%s)' % kind, cap, ex.uni.axioms, ascii_only=True, min_len=1)
        ex.uni.memo[key] = s
        ex.uni.alive.append(t)
        # injective rendering: equal text <=> equal number (also across i64/u64)
        allk = ex.uni.memo.setdefault(('num_str_all',), [])
        for (k2, t2, s2) in allk:
            same = None
            if k2 == kind:
                same = (t == t2) if kind != 'f64' else None
            elif {k2, kind} == {'i64', 'u64'}:
                ti, tu = (t, t2) if kind == 'i64' else (t2, t)
                same = z3.And(ti >= 0, ti == tu)
            if same is not None:
                ex.add_axiom(same == z3bool(S.s_eq(s, s2)))
        allk.append((kind, t, s))
        # exact renderings of a few common values (known a priori), and the set they form
        if kind == 'f64':
            vals = [(0.0, b'0'), (1.0, b'1'), (2.0, b'2'), (-1.0, b'-1'), (1.5, b'1.5'), (0.5, b'0.5'), (10.0, b'10')]
            inset = []
            for fv, txt in vals:
                if len(txt) <= cap:
                    c = z3.fpToIEEEBV(t) == z3.fpToIEEEBV(z3.FPVal(fv, z3.Float64()))
                    ex.add_axiom(z3.Implies(c, z3bool(S.s_eq(s, txt))))
                    inset.append(c)
        else:
            cand = [0, 1, 2, 3, 4, 5, 7, 9, 10, 12, 42, 80, 99, 100, 404, -1, -2, -10] if kind == 'i64' else [0, 1, 2, 3, 4, 5, 7, 9, 10, 12, 42, 80, 99, 100, 404]
            inset = []
            for iv in cand:
                txt = str(iv).encode()
                if len(txt) <= cap:
                    c = t == z3.BitVecVal(iv, 64)
                    ex.add_axiom(z3.Implies(c, z3bool(S.s_eq(s, txt))))
                    inset.append(c)
        ex.uni.memo.setdefault(('num_str_exact',), []).append(z3.Or(*inset) if inset else z3.BoolVal(False))
    return StrV(s)


def rust_f64_display(x):
    if x != x:
        return 'NaN'
    if x == float('inf'):
        return 'inf'
    if x == float('-inf'):
        return '-inf'
    if x == int(x) and abs(x) < 1e16:
        return ('-' if (x < 0 or (x == 0 and str(x).startswith('-'))) else '') + str(abs(int(x)))
    r = repr(x)
    if 'e' in r or 'E' in r:
        raise Unsupported('f64 display of %r' % x)
    return r


@model(r'^<(i64|u64|f64|f32|usize|i32|u32|i8|i16|u8|u16|isize) as ToString>::to_string$')
def m_num_to_string(ex, callee, args):
    kind = callee[1:callee.index(' as ')]
    v = deref_all(args[0])
    if kind not in ('i64', 'u64', 'f64'):
        # narrower types: nothing but "a function of the value" is claimed about the text
        if isinstance(v, BV) and isinstance(v.v, int):
            return StrV(str(v.v).encode())
        t = v.v
        key = ('num_str', kind, t.get_id() if not isinstance(t, (int, float)) else t)
        s = ex.uni.memo.get(key)
        if s is None:
            s = S.fresh('str(%s)' % kind, 8, ex.uni.axioms, ascii_only=True, min_len=1)
            ex.uni.memo[key] = s
            ex.uni.alive.append(t)
        return StrV(s)
    return num_to_string(ex, kind, v)


@model(r'^f64::<impl f64>::round$|^std::f64::<impl f64>::round$')
def m_round(ex, callee, args):
    a = args[0]
    if isinstance(a.v, float):
        import math
        x = a.v
        if x != x or x in (float('inf'), float('-inf')):
            return FP(x)
        r = math.floor(abs(x) + 0.5)
        return FP(math.copysign(r, x))
    return FP(z3.fpRoundToIntegral(z3.RNA(), a.v))


@model(r'^<.* as (std::ops::)?Drop>::drop$')
def m_drop(ex, callee, args):
    # a Drop impl of the crate itself is executed; dropping std containers / boxes has no observable effect here
    f = ex.prog.resolve_call(callee)
    if f is not None:
        return ex.call_mir(f, args)
    return UNIT


def _ordering(name):
    return Adt('Ordering', ['Less', 'Equal', 'Greater'].index(name), name, [])


@model(r'^<.* as (std::cmp::)?(PartialOrd|Ord)(<.*>)?>::(partial_cmp|cmp)$')
def m_cmp(ex, callee, args):
    """numeric (partial_)cmp, by forking on the order; NaN is unordered"""
    a, b = deref_all(args[0]), deref_all(args[1])
    partial = callee.endswith('partial_cmp')
    wrap = some if partial else (lambda x: x)
    if isinstance(a, FP) and isinstance(b, FP):
        x, y = _fpv(a), _fpv(b)
        if ex.branch(z3.Or(z3.fpIsNaN(x), z3.fpIsNaN(y))):
            if not partial:
                raise Unsupported('Ord::cmp on floats')
            return none()
        if ex.branch(z3.fpLT(x, y)):
            return wrap(_ordering('Less'))
        if ex.branch(z3.fpEQ(x, y)):
            return wrap(_ordering('Equal'))
        return wrap(_ordering('Greater'))
    if isinstance(a, BV) and isinstance(b, BV) and a.ty == b.ty and a.ty in INT_TYPES:
        lt = ex.int_binop('Lt', a, b)
        if ex.branch(lt):
            return wrap(_ordering('Less'))
        if ex.branch(ex.int_binop('Eq', a, b)):
            return wrap(_ordering('Equal'))
        return wrap(_ordering('Greater'))
    f = ex.prog.resolve_call(callee)
    if f is not None:
        return ex.call_mir(f, args)
    raise Unsupported('%s on %r, %r' % (callee, a, b))


@model(r'^core::num::<impl (u8|u16|u32|u64|usize|i8|i16|i32|i64|isize)>::(count_ones|count_zeros|leading_zeros|trailing_zeros)$')
def m_bit_counts(ex, callee, args):
    a = deref_all(args[0])
    bits, _signed = INT_TYPES[a.ty]
    what = callee.rsplit('::', 1)[1]
    if isinstance(a.v, int):
        x = a.v & ((1 << bits) - 1)
        r = {'count_ones': bin(x).count('1'), 'count_zeros': bits - bin(x).count('1'),
             'leading_zeros': bits - x.bit_length(), 'trailing_zeros': (bits if x == 0 else (x & -x).bit_length() - 1)}[what]
        return mk_int(r, 'u32')
    x = a.v
    if what in ('count_ones', 'count_zeros'):
        ones = z3.BitVecVal(0, 32)
        for i in range(bits):
            ones = ones + z3.ZeroExt(31, z3.Extract(i, i, x))
        return BV(z3.simplify(ones if what == 'count_ones' else z3.BitVecVal(bits, 32) - ones), 'u32')
    r = z3.BitVecVal(bits, 32)
    rng = range(bits) if what == 'leading_zeros' else range(bits - 1, -1, -1)
    for i in rng:
        # the highest (lowest) set bit decides
        val = (bits - 1 - i) if what == 'leading_zeros' else i
        r = z3.If(z3.Extract(i, i, x) == 1, z3.BitVecVal(val, 32), r)
    return BV(z3.simplify(r), 'u32')


def _fpv(a):
    a = deref_all(a)
    return z3.FPVal(a.v, z3.Float64()) if isinstance(a.v, float) else a.v


@model(r'^(core|std)::f64::<impl f64>::(is_finite|is_nan|is_infinite|is_sign_negative|is_sign_positive)$|^f64::<impl f64>::(is_finite|is_nan|is_infinite|is_sign_negative|is_sign_positive)$')
def m_f64_class(ex, callee, args):
    v = _fpv(args[0])
    what = callee.rsplit('::', 1)[1]
    r = {'is_finite': lambda: z3.Not(z3.Or(z3.fpIsNaN(v), z3.fpIsInf(v))), 'is_nan': lambda: z3.fpIsNaN(v), 'is_infinite': lambda: z3.fpIsInf(v),
         'is_sign_negative': lambda: z3.fpIsNegative(v), 'is_sign_positive': lambda: z3.fpIsPositive(v)}[what]()
    r = z3.simplify(r)
    return True if z3.is_true(r) else (False if z3.is_false(r) else r)


@model(r'^(core|std)::f64::<impl f64>::(abs|floor|ceil|trunc|fract)$|^f64::<impl f64>::(abs|floor|ceil|trunc|fract)$')
def m_f64_unary(ex, callee, args):
    v = _fpv(args[0])
    what = callee.rsplit('::', 1)[1]
    r = {'abs': lambda: z3.fpAbs(v), 'floor': lambda: z3.fpRoundToIntegral(z3.RTN(), v), 'ceil': lambda: z3.fpRoundToIntegral(z3.RTP(), v),
         'trunc': lambda: z3.fpRoundToIntegral(z3.RTZ(), v),
         'fract': lambda: z3.fpSub(z3.RNE(), v, z3.fpRoundToIntegral(z3.RTZ(), v))}[what]()
    return FP(z3.simplify(r))


@model(r'^core::str::<impl str>::parse::<f64>$')
def m_parse_f64(ex, callee, args):
    s = as_str(args[0])
    if isinstance(s, bytes):
        try:
            txt = s.decode()
            if not re.fullmatch(r'[+-]?(\d+\.?\d*([eE][+-]?\d+)?|\.\d+([eE][+-]?\d+)?|inf|infinity|nan)', txt, re.I):
                raise ValueError
            return ok(FP(float(txt)))
        except (ValueError, UnicodeDecodeError):
            return err(Opaque('ParseFloatError'))
    # validity: Rust's f64 grammar, exactly; value: an uninterpreted function of the string
    key = ('parse_f64', S.skey(s))
    ent = ex.uni.memo.get(key)
    if ent is None:
        from . import rx
        okb = z3bool(rx.is_match(F64_GRAMMAR, True, s))
        val = ex.uni.fresh('parse_f64_val', z3.Float64())
        ent = (okb, val, s)
        ex.uni.memo[key] = ent
        ex.uni.alive.append(s)
    if ex.branch(ent[0]):
        return ok(FP(ent[1]))
    return err(Opaque('ParseFloatError'))


F64_GRAMMAR = rb'^[+-]?(inf|infinity|nan|(\d+\.?\d*|\.\d+)(e[+-]?\d+)?)$'


def parse_int_model(ex, s, ty):
    """Rust's <int>::from_str: optional sign, >=1 ASCII digits, in range"""
    bits, signed = INT_TYPES[ty]
    lo = -(1 << (bits - 1)) if signed else 0
    hi = (1 << (bits - 1)) - 1 if signed else (1 << bits) - 1
    if isinstance(s, bytes):
        m = re.fullmatch(rb'([+-]?)(\d+)', s)
        if not m or (m.group(1) == b'-' and not signed and False):
            return None
        if m.group(1) == b'-' and not signed:
            # unsigned types reject a minus sign
            return None
        v = int(m.group(2)) * (-1 if m.group(1) == b'-' else 1)
        if v < lo or v > hi:
            return None
        return v
    raise Unsupported('parse::<%s> of a symbolic string needs the char-level model' % ty)


@model(r'^core::str::<impl str>::parse::<(i64|usize|u64|i32|u32)>$')
def m_parse_int(ex, callee, args):
    ty = re.search(r'parse::<(\w+)>', callee).group(1)
    s = as_str(args[0])
    if isinstance(s, bytes):
        v = parse_int_model(ex, s, ty)
        if v is None:
            return err(Opaque('ParseIntError'))
        return ok(mk_int(v, ty))
    return sym_parse_int(ex, s, ty)


def sym_parse_int(ex, s, ty):
    ent = parse_int_terms(ex.uni, s, ty)
    if ex.branch(ent[0]):
        return ok(BV(ent[1], ty))
    return err(Opaque('ParseIntError'))


def parse_int_terms(uni, s, ty):
    """exact model of <int>::from_str on a bounded symbolic byte string
    (cap <= 18 so that no overflow is possible for 64-bit targets):
    -> (valid: Bool, value: BV64)"""
    bits, signed = INT_TYPES[ty]
    bs, ln, cap = S.parts(s)
    if cap > 38 or bits != 64:
        raise Unsupported('symbolic parse::<%s> with cap %d' % (ty, cap))
    key = ('parse_int', ty, S.skey(s))
    ent = uni.memo.get(key)
    if ent is None and cap > 18:
        # longer texts can overflow: the value is accumulated in 128 bits and the result is valid only if it fits
        bs = [z3.BitVecVal(b, 8) if isinstance(b, int) else b for b in bs]
        W = 128
        valid = False
        value = z3.BitVecVal(0, 64)
        lo, hi = (-(1 << 63), (1 << 63) - 1) if signed else (0, (1 << 64) - 1)
        for L in range(1, cap + 1):
            for sign in (0, 1, 2):
                nd = L - (1 if sign else 0)
                if nd < 1 or (sign == 2 and not signed):
                    continue
                off = 1 if sign else 0
                conds = [ln == L]
                if sign == 1:
                    conds.append(bs[0] == 0x2b)
                elif sign == 2:
                    conds.append(bs[0] == 0x2d)
                val = z3.BitVecVal(0, W)
                for i in range(nd):
                    b = bs[off + i]
                    conds.append(z3.And(z3.UGE(b, 0x30), z3.ULE(b, 0x39)))
                    val = val * 10 + z3.ZeroExt(W - 8, b - 0x30)
                if sign == 2:
                    val = -val
                conds.append(z3.And(val >= z3.BitVecVal(lo, W), val <= z3.BitVecVal(hi, W)))
                c = z3.And(*conds)
                valid = b_or(valid, c)
                value = z3.If(c, z3.Extract(63, 0, val), value)
        ent = (z3bool(valid), value)
        uni.memo[key] = ent
        uni.alive.append(s)
    if ent is None:
        bs = [z3.BitVecVal(b, 8) if isinstance(b, int) else b for b in bs]

        def isdig(b):
            return z3.And(z3.UGE(b, 0x30), z3.ULE(b, 0x39))

        def dig(b):
            return z3.ZeroExt(56, b - 0x30)
        valid = False
        value = z3.BitVecVal(0, 64)
        for L in range(1, cap + 1):
            for sign in (0, 1, 2):        # none, '+', '-'
                nd = L - (1 if sign else 0)
                if nd < 1:
                    continue
                if sign == 2 and not signed:
                    continue
                off = 1 if sign else 0
                conds = [ln == L]
                if sign == 1:
                    conds.append(bs[0] == 0x2b)
                elif sign == 2:
                    conds.append(bs[0] == 0x2d)
                val = z3.BitVecVal(0, 64)
                for i in range(nd):
                    conds.append(isdig(bs[off + i]))
                    val = val * 10 + dig(bs[off + i])
                if sign == 2:
                    val = -val
                c = z3.And(*conds)
                valid = b_or(valid, c)
                value = z3.If(c, val, value)
        ent = (z3bool(valid), value)
        uni.memo[key] = ent
        uni.alive.append(s)
    return ent


# ----------------------------------------------------------------------
# splitting / stripping (concrete strings here; the char-level symbolic
# versions live in models_chars.py and take precedence when loaded)

@model(r'^core::str::<impl str>::(split|split_terminator)::<(char|&str)>$')
def m_split(ex, callee, args):
    s = as_str(args[0])
    p = _pat(ex, args[1])
    term = 'split_terminator' in callee
    if isinstance(s, bytes) and isinstance(p, bytes):
        parts = s.split(p)
        if term and parts and parts[-1] == b'':
            parts.pop()
        return IterV('owned', VecV([StrV(x) for x in parts]))
    h = getattr(ex, 'sym_split', None)
    if h is not None:
        return h(s, p, term) if term else h(s, p)
    raise Unsupported('split of a symbolic string')


@model(r'^core::str::<impl str>::strip_(prefix|suffix)::<')
def m_strip(ex, callee, args):
    s = as_str(args[0])
    p = _pat(ex, args[1])
    pre = 'strip_prefix' in callee
    if isinstance(p, CharSet):
        from .models_chars import sub_sstr, len_minus
        bs, ln, cap = S.parts(s)
        if pre:
            if ex.branch(_first_in(s, p)):
                return some(StrV(sub_sstr(s, 1, len_minus(ln, 1))))
            return none()
        if ex.branch(_last_in(s, p)):
            if isinstance(s, bytes):
                return some(StrV(s[:-1]))
            return some(StrV(S.SStr(list(bs), len_minus(ln, 1), 'strip_suffix')))
        return none()
    if isinstance(s, bytes) and isinstance(p, bytes):
        if pre and s.startswith(p):
            return some(StrV(s[len(p):]))
        if not pre and s.endswith(p):
            return some(StrV(s[:len(s) - len(p)]))
        return none()
    h = getattr(ex, 'sym_strip', None)
    if h is not None:
        return h(s, p, pre)
    raise Unsupported('strip_prefix/suffix of a symbolic string')


@model(r'^core::str::<impl str>::chars$')
def m_chars(ex, callee, args):
    s = as_str(args[0])
    if isinstance(s, bytes):
        return IterV('owned', VecV([mk_int(ord(c), 'char') for c in s.decode('utf-8')]))
    h = getattr(ex, 'sym_chars', None)
    if h is not None:
        return h(s)
    raise Unsupported('chars() of a symbolic string')


@model(r'^<(u64|usize|u32) as TryFrom<(i64|isize|i32)>>::try_from$')
def m_try_from_signed(ex, callee, args):
    ty = callee[1:callee.index(' as ')]
    a = args[0]
    nonneg = ex.int_binop('Ge', a, mk_int(0, a.ty))
    if ex.branch(nonneg):
        return ok(ex.do_cast(a, ty, 'IntToInt'))
    return err(Opaque('TryFromIntError'))


@model(r'^std::option::Option::<.*>::as_ref$|^std::option::Option::<.*>::as_mut$')
def m_opt_as_ref(ex, callee, args):
    r = args[0]
    v = deref_all(r)
    if _opt_disc(ex, v):
        if isinstance(v, Adt):
            return some(Ref(v, 0))
        return some(Ref(v.payload[1], 0))
    return none()


def struct_eq(ex, a, b):
    """derived structural equality of plain data (field-less enums, Option/Result of them, numbers, strings)"""
    a, b = deref_all(a), deref_all(b)
    if isinstance(a, Adt) and isinstance(b, Adt):
        if a.name != b.name or a.variant != b.variant or len(a.items) != len(b.items):
            return False
        return b_and(*[struct_eq(ex, x, y) for x, y in zip(a.items, b.items)])
    if isinstance(a, BV) and isinstance(b, BV):
        return ex.int_binop('Eq', a, b)
    if isinstance(a, FP) and isinstance(b, FP):
        return z3.fpEQ(_fpv(a), _fpv(b))
    if isinstance(a, (bool, z3.BoolRef)) and isinstance(b, (bool, z3.BoolRef)):
        return b_not(b_xor(a, b)) if 'b_xor' in globals() else (a == b)
    if isinstance(a, StrV) and isinstance(b, StrV):
        return S.s_eq(a.s, b.s)
    raise Unsupported('structural == of %r and %r' % (a, b))


@model(r'^<(std::cmp::Ordering|(std::option::)?Option<.*>) as PartialEq(<.*>)?>::eq$')
def m_plain_eq(ex, callee, args):
    return struct_eq(ex, args[0], args[1])


@model(r'^(std::cmp::|core::cmp::)?Ordering::(is_lt|is_le|is_gt|is_ge|is_eq|is_ne)$')
def m_ordering_is(ex, callee, args):
    o = deref_all(args[0])
    what = callee.rsplit('::', 1)[1]
    return {'is_lt': o.vname == 'Less', 'is_le': o.vname != 'Greater', 'is_gt': o.vname == 'Greater', 'is_ge': o.vname != 'Less',
            'is_eq': o.vname == 'Equal', 'is_ne': o.vname != 'Equal'}[what]


@model(r'^<.* as PartialEq(<.*>)?>::ne$')
def m_partial_ne(ex, callee, args):
    """PartialEq::ne is the provided method: !eq"""
    return b_not(ex.call(callee[:-2] + 'eq', args))


@model(r'^core::str::<impl str>::as_bytes$|^std::string::String::as_bytes$')
def m_as_bytes(ex, callee, args):
    s = as_str(args[0])
    bs, ln, cap = S.parts(s)
    if not isinstance(ln, int):
        # one path per length (at most cap + 1 of them): the slice then has a concrete length, so indexing it has
        # Rust's bounds check
        for L in range(cap + 1):
            if L == cap or ex.branch(ln == z3.BitVecVal(L, 64)):
                return Ref(Cont([Arr([BV(b, 'u8') for b in bs[:L]])]), 0)
    return Ref(Cont([Arr([BV(b, 'u8') for b in bs[:ln]])]), 0)


@model(r'^core::str::<impl str>::bytes$')
def m_bytes_iter(ex, callee, args):
    s = as_str(args[0])
    bs, ln, cap = S.parts(s)
    if not isinstance(ln, int):
        raise Unsupported('bytes() of a string of symbolic length')
    return IterV('owned', VecV([BV(b, 'u8') for b in bs[:ln]]))


@model(r'^core::slice::<impl \[.*\]>::(first|last)$')
def m_slice_first_last(ex, callee, args):
    v = vec_of(args[0])
    if not v.items:
        return none()
    i = 0 if callee.endswith('first') else len(v.items) - 1
    return some(Ref(v, i))


@model(r'^core::slice::<impl \[.*\]>::get::<usize>$|^Vec::<.*>::get::<usize>$')
def m_slice_get(ex, callee, args):
    v = vec_of(args[0])
    n = ex.concretize(args[1], candidates=list(range(len(v.items) + 1)), what='slice index')
    if n < len(v.items):
        return some(Ref(v, n))
    return none()



# ----------------------------------------------------------------------
# more Option / Result combinators (plausible in small source changes)

@model(r'^std::result::Result::<.*>::or_else::<')
def m_res_or_else(ex, callee, args):
    v = args[0]
    if not _opt_disc(ex, v):
        return ok(_payload(v, 0))
    return ex.call_closure(args[1], [_payload(v, 1)])


@model(r'^std::result::Result::<.*>::(map|and_then)::<')
def m_res_map(ex, callee, args):
    v = args[0]
    if not _opt_disc(ex, v):
        r = ex.call_closure(args[1], [_payload(v, 0)])
        return ok(r) if '::map::<' in callee else r
    return err(_payload(v, 1))


@model(r'^std::result::Result::<.*>::unwrap_or$')
def m_res_unwrap_or(ex, callee, args):
    v = args[0]
    if not _opt_disc(ex, v):
        return _payload(v, 0)
    return args[1]


@model(r'^std::result::Result::<.*>::(unwrap_or_else|map_or_else)::<|^std::result::Result::<.*>::unwrap_or_default$')
def m_res_unwrap_or_else(ex, callee, args):
    v = args[0]
    if not _opt_disc(ex, v):
        return _payload(v, 0)
    if 'unwrap_or_default' in callee:
        raise Unsupported('unwrap_or_default')
    return ex.call_closure(args[1], [_payload(v, 1)])


@model(r'^std::option::Option::<.*>::(unwrap_or_else|or_else)::<')
def m_opt_unwrap_or_else(ex, callee, args):
    v = args[0]
    if _opt_disc(ex, v):
        return _payload(v, 1) if 'unwrap_or_else' in callee else v
    return ex.call_closure(args[1], [])


@model(r'^std::option::Option::<.*>::map_or::<')
def m_opt_map_or(ex, callee, args):
    v = args[0]
    if _opt_disc(ex, v):
        return ex.call_closure(args[2], [_payload(v, 1)])
    return args[1]


@model(r'^std::option::Option::<.*>::(is_some_and|is_none_or)::<')
def m_opt_is_some_and(ex, callee, args):
    v = args[0]
    some_and = 'is_some_and' in callee
    if _opt_disc(ex, v):
        return ex.call_closure(args[1], [_payload(v, 1)])
    return not some_and


@model(r'^std::option::Option::<.*>::filter::<')
def m_opt_filter(ex, callee, args):
    v = args[0]
    if _opt_disc(ex, v):
        p = _payload(v, 1)
        if ex.branch(ex.call_closure(args[1], [Ref(Cont([p]), 0)])):
            return some(p)
    return none()


@model(r'^std::option::Option::<.*>::or$')
def m_opt_or(ex, callee, args):
    return args[0] if _opt_disc(ex, args[0]) else args[1]


@model(r'^std::cmp::(min|max)::<|^<(u64|usize|i64|u32|i32) as Ord>::(min|max)$|^core::cmp::Ord::(min|max)')
def m_min_max(ex, callee, args):
    a, b = args[0], args[1]
    lt = ex.int_binop('Lt', a, b)
    want_min = 'min' in callee.split('::')[-1] or '::min::<' in callee
    if isinstance(lt, bool):
        return (a if lt else b) if want_min else (b if lt else a)
    x, y = to_z3bv(a), to_z3bv(b)
    return BV(z3.If(lt, x, y) if want_min else z3.If(lt, y, x), a.ty)


@model(r'^core::num::<impl (u64|usize|i64|u32)>::(saturating_sub|saturating_add|wrapping_add|wrapping_sub)$')
def m_sat_arith(ex, callee, args):
    a, b = args[0], args[1]
    op = callee.split('::')[-1]
    if op.startswith('wrapping'):
        return ex.int_binop('Add' if op.endswith('add') else 'Sub', a, b)
    r = ex.int_binop('AddWithOverflow' if op.endswith('add') else 'SubWithOverflow', a, b)
    val, ovf = r.items
    bits, signed = INT_TYPES[a.ty]
    if signed:
        raise Unsupported('signed saturating arithmetic')
    lim = mk_int((1 << bits) - 1 if op.endswith('add') else 0, a.ty)
    if isinstance(ovf, bool):
        return lim if ovf else val
    return BV(z3.If(ovf, to_z3bv(lim), to_z3bv(val)), a.ty)


INTS = r'(u8|u16|u32|u64|u128|usize|i8|i16|i32|i64|i128|isize)'


@model(r'^core::num::<impl %s>::(wrapping_mul|wrapping_neg|wrapping_add|wrapping_sub|checked_add|checked_sub|checked_mul|checked_neg|unsigned_abs|wrapping_abs)$' % INTS)
def m_int_methods(ex, callee, args):
    op = callee.split('::')[-1]
    a = args[0]
    bits, signed = INT_TYPES[a.ty]
    if op == 'wrapping_neg':
        return ex.int_binop('Sub', mk_int(0, a.ty), a)
    if op in ('wrapping_add', 'wrapping_sub', 'wrapping_mul'):
        return ex.int_binop({'add': 'Add', 'sub': 'Sub', 'mul': 'Mul'}[op[-3:]], a, args[1])
    if op in ('unsigned_abs', 'wrapping_abs'):
        neg = ex.int_binop('Sub', mk_int(0, a.ty), a)
        uty = a.ty if (op == 'wrapping_abs' or not signed) else ('u' + a.ty[1:])
        if isinstance(a.v, int):
            v = neg.v if (signed and a.v < 0) else a.v
            return mk_int(v % (1 << bits), uty) if op == 'unsigned_abs' else mk_int(v, uty)
        x = to_z3bv(a)
        return BV(z3.If(x < 0, to_z3bv(neg), x) if signed else x, uty)
    if op == 'checked_neg':
        if isinstance(a.v, int):
            ovf = (a.v == -(1 << (bits - 1))) if signed else (a.v != 0)
        else:
            x = to_z3bv(a)
            ovf = (x == z3.BitVecVal(1 << (bits - 1), bits)) if signed else (x != 0)
        val = ex.int_binop('Sub', mk_int(0, a.ty), a)
    else:
        r = ex.int_binop({'add': 'AddWithOverflow', 'sub': 'SubWithOverflow', 'mul': 'MulWithOverflow'}[op[-3:]], a, args[1])
        val, ovf = r.items
    if isinstance(ovf, bool):
        return none() if ovf else some(val)
    return none() if ex.branch(ovf) else some(val)


# ----------------------------------------------------------------------
# more iterator adaptors / consumers

def _drain(ex, it):
    out = []
    while True:
        r = iter_next(ex, it)
        if r.variant == 0:
            return out
        out.append(r.items[0])


@model(r'^<.* as Iterator>::(max|min)$')
def m_iter_max_min(ex, callee, args):
    # Iterator::max / min over integers: None for an empty iterator, otherwise the greatest / least element
    xs = [deref_all(x) for x in _drain(ex, get_iter(args[0]))]
    if not xs:
        return none()
    if not all(isinstance(x, BV) for x in xs):
        raise Unsupported('Iterator::max/min over %r' % (xs[0],))
    want_max = callee.endswith('::max')
    acc = xs[0]
    for x in xs[1:]:
        bits, signed = INT_TYPES[acc.ty]
        if isinstance(acc.v, int) and isinstance(x.v, int):
            take = (x.v >= acc.v) if want_max else (x.v < acc.v)
            acc = x if take else acc
        else:
            a, b = to_z3bv(acc), to_z3bv(x)
            ge = (b >= a) if signed else z3.UGE(b, a)
            lt = (b < a) if signed else z3.ULT(b, a)
            acc = BV(z3.If(ge if want_max else lt, b, a), acc.ty)
    return some(acc)


@model(r'^<.* as Iterator>::sum::<(usize|u64|i64|u32|i32|isize)>$')
def m_iter_sum(ex, callee, args):
    ty = re.search(r'sum::<(\w+)>', callee).group(1)
    acc = mk_int(0, ty)
    for x in _drain(ex, get_iter(args[0])):
        x = deref_all(x)
        r = ex.int_binop('AddWithOverflow', acc, x)
        if not ex.branch(b_not(r.items[1])):
            raise PanicEx(ex.frames[-1].fn.name, 'attempt to add with overflow (Iterator::sum)')
        acc = r.items[0]
    return acc


@model(r'^<.* as Iterator>::count$')
def m_iter_count(ex, callee, args):
    return mk_int(len(_drain(ex, get_iter(args[0]))), 'usize')


@model(r'^<.* as Iterator>::(any|all)::<')
def m_iter_any_all(ex, callee, args):
    is_any = '::any::<' in callee
    it = get_iter(args[0])
    while True:
        r = iter_next(ex, it)
        if r.variant == 0:
            return not is_any
        t = ex.branch(ex.call_closure(args[1], [r.items[0]]))
        if is_any and t:
            return True
        if not is_any and not t:
            return False


@model(r'^<.* as Iterator>::(find|position)::<')
def m_iter_find(ex, callee, args):
    is_find = '::find::<' in callee
    it = get_iter(args[0])
    i = 0
    while True:
        r = iter_next(ex, it)
        if r.variant == 0:
            return none()
        x = r.items[0]
        arg = Ref(Cont([x]), 0) if is_find else x
        if ex.branch(ex.call_closure(args[1], [arg])):
            return some(x) if is_find else some(mk_int(i, 'usize'))
        i += 1


@model(r'^<.* as Iterator>::flatten$')
def m_flatten(ex, callee, args):
    return IterV('flatten', get_iter(args[0]), 0)


@model(r'^<.* as Iterator>::filter::<')
def m_iter_filter(ex, callee, args):
    return IterV('filter', get_iter(args[0]), 0, extra=args[1])


def _filter_next(ex, it):
    while True:
        r = iter_next(ex, it.src)
        if r.variant == 0:
            return r
        if ex.branch(ex.call_closure(it.extra, [Ref(Cont([r.items[0]]), 0)])):
            return r


ITER_KINDS['filter'] = _filter_next


@model(r'^<.* as Iterator>::(rev|cloned|copied|fuse)$|^<.* as DoubleEndedIterator>::rev$')
def m_iter_rev_cloned(ex, callee, args):
    it = get_iter(args[0])
    name = callee.rsplit('::', 1)[1]
    if name == 'rev':
        if it.kind not in ('slice', 'owned') or it.pos != 0:
            raise Unsupported('rev() of iterator kind %s' % it.kind)
        return IterV(it.kind, VecV(list(reversed(it.src.items))) if it.kind == 'owned' else _RevView(it.src), 0)
    if name in ('cloned', 'copied'):
        return IterV('deref', it, 0)
    return it


class _RevView(Cont):
    """reversed view of a container for slice iteration (read-only)"""
    __slots__ = ()

    def __init__(self, src):
        Cont.__init__(self, list(reversed(src.items)))


def _deref_next(ex, it):
    r = iter_next(ex, it.src)
    if r.variant == 0:
        return r
    return some(clone_val(deref_all(r.items[0])))


ITER_KINDS['deref'] = _deref_next


@model(r'^<.* as Iterator>::(skip|take)$')
def m_iter_skip_take(ex, callee, args):
    it = get_iter(args[0])
    n = args[1].v
    if not isinstance(n, int):
        raise Unsupported('skip/take with a symbolic count')
    if callee.endswith('skip'):
        for _ in range(n):
            if iter_next(ex, it).variant == 0:
                break
        return it
    return IterV('take', it, 0, extra=n)


def _take_next(ex, it):
    if it.pos >= it.extra:
        return none()
    it.pos += 1
    return iter_next(ex, it.src)


ITER_KINDS['take'] = _take_next


@model(r'^<.* as Iterator>::zip::<')
def m_iter_zip(ex, callee, args):
    b = args[1]
    try:
        bi = get_iter(b)
    except Unsupported:
        bi = IterV('slice', vec_of(b))
    return IterV('zip', (get_iter(args[0]), bi), 0)


def _zip_next(ex, it):
    a, b = it.src
    x = iter_next(ex, a)
    if x.variant == 0:
        return x
    y = iter_next(ex, b)
    if y.variant == 0:
        return y
    return some(Tup([x.items[0], y.items[0]]))


ITER_KINDS['zip'] = _zip_next


@model(r'^<.* as Iterator>::chain::<')
def m_iter_chain(ex, callee, args):
    return IterV('chain', [get_iter(args[0]), get_iter(args[1])], 0)


def _chain_next(ex, it):
    while it.src:
        r = iter_next(ex, it.src[0])
        if r.variant == 1:
            return r
        it.src.pop(0)
    return none()


ITER_KINDS['chain'] = _chain_next


@model(r'^<.* as Iterator>::last$')
def m_iter_last(ex, callee, args):
    xs = _drain(ex, get_iter(args[0]))
    return some(xs[-1]) if xs else none()


@model(r'^<.* as Iterator>::fold::<')
def m_iter_fold(ex, callee, args):
    acc = args[1]
    for x in _drain(ex, get_iter(args[0])):
        acc = ex.call_closure(args[2], [acc, x])
    return acc


@model(r'^<.* as Iterator>::for_each::<')
def m_iter_for_each(ex, callee, args):
    for x in _drain(ex, get_iter(args[0])):
        ex.call_closure(args[1], [x])
    return UNIT


@model(r'^<(\[.*\]|Vec<.*>) as (std::ops::)?Index(Mut)?<(std::ops::)?(Range|RangeFrom|RangeTo|RangeInclusive|RangeFull|RangeToInclusive)<usize>>>::index(_mut)?$|'
       r'^<(\[.*\]|Vec<.*>) as (std::ops::)?Index(Mut)?<(std::ops::)?RangeFull>>::index(_mut)?$')
def m_slice_range(ex, callee, args):
    v = vec_of(args[0])
    n = len(v.items)
    rng = args[1]
    kind = re.search(r'(RangeFrom|RangeToInclusive|RangeTo|RangeInclusive|RangeFull|Range)', callee).group(1)

    def conc(x, what):
        return ex.concretize(x, candidates=list(range(n + 2)), what=what)
    if kind == 'RangeFull':
        a, b = 0, n
    elif kind == 'Range':
        a, b = conc(rng.items[0], 'range start'), conc(rng.items[1], 'range end')
    elif kind == 'RangeFrom':
        a, b = conc(rng.items[0], 'range start'), n
    elif kind == 'RangeTo':
        a, b = 0, conc(rng.items[0], 'range end')
    elif kind == 'RangeToInclusive':
        a, b = 0, conc(rng.items[0], 'range end') + 1
    else:
        a, b = conc(rng.items[0], 'range start'), conc(rng.items[1], 'range end') + 1
    site = ex.frames[-1].fn.name + ' bb%s' % ex.frames[-1].bb
    if a > b:
        raise PanicEx(site, 'slice index starts at %d but ends at %d' % (a, b))
    if b > n:
        raise PanicEx(site, 'range end index %d out of range for slice of length %d' % (b, n))
    return Ref(Cont([VecV(v.items[a:b])]), 0)


@model(r'^core::slice::<impl \[.*\]>::to_vec$|^<\[.*\] as ToOwned>::to_owned$')
def m_to_vec(ex, callee, args):
    return VecV([deep_clone(x) if not isinstance(x, SymEnum) else x for x in vec_of(args[0]).items])


@model(r'^core::slice::<impl \[.*\]>::(split_first|split_last)$')
def m_split_first(ex, callee, args):
    v = vec_of(args[0])
    if not v.items:
        return none()
    if callee.endswith('split_first'):
        return some(Tup([Ref(v, 0), Ref(Cont([VecV(v.items[1:])]), 0)]))
    return some(Tup([Ref(v, len(v.items) - 1), Ref(Cont([VecV(v.items[:-1])]), 0)]))
