"""Build artefacts derived from /repo's *current working tree*: MIR dumps and
the native bridge.  Everything is keyed by a content hash of the sources, lives
outside /repo and /verif, and is rebuilt whenever it is missing, so a check
never uses anything stale and needs nothing that was not regenerated from the
tree it is asked about.
"""
import fcntl
import hashlib
import json
import os
import shutil
import subprocess
import time

REPO = os.environ.get('TAU_REPO', '/repo')
VERIF = os.path.dirname(os.path.dirname(os.path.abspath(__file__)))
CACHE = os.environ.get('TAU_VERIF_CACHE', '/var/tmp/tau-verif-cache')
ENV = dict(os.environ, CARGO_NET_OFFLINE='true', CARGO_TERM_COLOR='never')


def repo_hash():
    h = hashlib.sha256()
    files = ['Cargo.toml', 'Cargo.lock']
    for root, _dirs, fs in os.walk(os.path.join(REPO, 'src')):
        for f in sorted(fs):
            files.append(os.path.relpath(os.path.join(root, f), REPO))
    for f in sorted(files):
        p = os.path.join(REPO, f)
        if os.path.exists(p):
            h.update(f.encode())
            h.update(open(p, 'rb').read())
    # the bridge source is part of the key too
    for f in ('bridge/Cargo.toml', 'bridge/src/main.rs'):
        h.update(open(os.path.join(VERIF, f), 'rb').read())
    return h.hexdigest()[:16]


class Lock:
    def __init__(self, name):
        os.makedirs(CACHE, exist_ok=True)
        self.path = os.path.join(CACHE, name + '.lock')

    def __enter__(self):
        self.fh = open(self.path, 'w')
        fcntl.flock(self.fh, fcntl.LOCK_EX)
        return self

    def __exit__(self, *a):
        fcntl.flock(self.fh, fcntl.LOCK_UN)
        self.fh.close()


def _prune(kind, keep):
    d = os.path.join(CACHE, kind)
    if not os.path.isdir(d):
        return
    ents = sorted(os.listdir(d), key=lambda e: os.path.getmtime(os.path.join(d, e)))
    for e in ents[:-3]:
        if e != keep:
            shutil.rmtree(os.path.join(d, e), ignore_errors=True)


def ensure_mir(features=()):
    """-> path of the MIR dump of /repo's lib with the given features"""
    hh = repo_hash()
    tag = '+'.join(sorted(features)) or 'default'
    out = os.path.join(CACHE, 'mir', hh, tag + '.mir')
    if os.path.exists(out) and os.path.getsize(out) > 100000:
        return out
    with Lock('mir-' + tag):
        if os.path.exists(out) and os.path.getsize(out) > 100000:
            return out
        os.makedirs(os.path.dirname(out), exist_ok=True)
        tdir = os.path.join(CACHE, 'mir-target-' + tag)
        cmd = ['cargo', '+nightly', 'rustc', '--offline', '--lib', '--target-dir', tdir]
        if features:
            cmd += ['--features', ','.join(features)]
        cmd += ['--', '-Zunpretty=mir']
        for attempt in range(2):
            r = subprocess.run(cmd, cwd=REPO, env=ENV, stdout=subprocess.PIPE, stderr=subprocess.PIPE)
            if r.returncode != 0:
                raise RuntimeError('MIR dump failed:\n' + r.stderr.decode()[-3000:])
            if len(r.stdout) > 100000:
                break
            # cargo considered the crate fresh: drop its fingerprint and retry
            fp = os.path.join(tdir, 'debug', '.fingerprint')
            if os.path.isdir(fp):
                for e in os.listdir(fp):
                    if e.startswith('tau-engine-'):
                        shutil.rmtree(os.path.join(fp, e), ignore_errors=True)
        else:
            raise RuntimeError('MIR dump came back empty')
        tmp = out + '.tmp%d' % os.getpid()
        open(tmp, 'wb').write(r.stdout)
        os.replace(tmp, out)
        _prune('mir', hh)
    return out


def ensure_bridge(profile='dev', ignore_case=False, sync=False):
    """-> path of the bridge binary built against /repo's current tree"""
    hh = repo_hash()
    name = 'bridge-%s%s%s' % (profile, '-ic' if ignore_case else '', '-sync' if sync else '')
    out = os.path.join(CACHE, 'bin', hh, name)
    if os.path.exists(out):
        return out
    with Lock('bridge' + ('-ic' if ignore_case else '') + ('-sync' if sync else '')):
        if os.path.exists(out):
            return out
        src = os.path.join(CACHE, 'bridge-src' + ('-ic' if ignore_case else '') + ('-sync' if sync else ''))
        os.makedirs(os.path.join(src, 'src'), exist_ok=True)
        toml = open(os.path.join(VERIF, 'bridge', 'Cargo.toml')).read().replace('path = "/repo"', 'path = "%s"' % REPO)
        open(os.path.join(src, 'Cargo.toml'), 'w').write(toml)
        shutil.copy(os.path.join(VERIF, 'bridge', 'src', 'main.rs'), os.path.join(src, 'src', 'main.rs'))
        shutil.copy(os.path.join(REPO, 'Cargo.lock'), os.path.join(src, 'Cargo.lock'))
        tdir = os.path.join(CACHE, 'target' + ('-ic' if ignore_case else '') + ('-sync' if sync else ''))
        cmd = ['cargo', 'build', '--offline']
        if profile == 'release':
            cmd.append('--release')
        feats = [f for f, on in (('ignore_case', ignore_case), ('sync', sync)) if on]
        if feats:
            cmd += ['--features', ','.join(feats)]
        env = dict(ENV, CARGO_TARGET_DIR=tdir)
        r = subprocess.run(cmd, cwd=src, env=env, stdout=subprocess.PIPE, stderr=subprocess.PIPE)
        if r.returncode != 0:
            raise RuntimeError('bridge build failed:\n' + r.stderr.decode()[-4000:])
        built = os.path.join(tdir, 'release' if profile == 'release' else 'debug', 'tau-bridge')
        os.makedirs(os.path.dirname(out), exist_ok=True)
        tmp = out + '.tmp%d' % os.getpid()
        shutil.copy(built, tmp)
        os.replace(tmp, out)
        _prune('bin', hh)
    return out


class Bridge:
    """JSON-lines client of the native bridge"""

    def __init__(self, profile='dev', ignore_case=False, sync=False):
        self.path = ensure_bridge(profile, ignore_case, sync)
        self.proc = subprocess.Popen([self.path], stdin=subprocess.PIPE, stdout=subprocess.PIPE,
                                     stderr=subprocess.DEVNULL)
        self.calls = 0

    def call(self, **req):
        self.calls += 1
        self.proc.stdin.write((json.dumps(req) + '\n').encode())
        self.proc.stdin.flush()
        line = self.proc.stdout.readline()
        if not line:
            raise RuntimeError('bridge died on %r' % (req,))
        return json.loads(line)

    def close(self):
        try:
            self.proc.stdin.close()
            self.proc.wait(timeout=5)
        except Exception:
            self.proc.kill()


OPT_COMBOS = [[bool(n & 8), bool(n & 4), bool(n & 2), bool(n & 1)] for n in range(16)]   # coalesce, shake, rewrite, matrix
