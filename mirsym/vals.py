"""Value domain of the MIR symbolic executor.

Structure (trees, vectors, iterators, references) is concrete Python; data
(integers, floats, booleans, bytes of strings, enum discriminants of document
values and of merged results) may be z3 terms.
"""
import itertools
import z3

_oid = itertools.count(1)


def next_oid():
    return next(_oid)


class Uninit:
    def __repr__(self):
        return '<uninit>'


UNINIT = Uninit()


class Cont:
    """anything with addressable slots; identity matters (references point at
    (cont, index))."""
    __slots__ = ('items', 'oid')

    def __init__(self, items):
        self.items = items
        self.oid = next(_oid)


class PCont(Cont):
    """container owned by the universe (symbolic document); identity persists
    across paths"""
    __slots__ = ()
    persistent = True


class Tup(Cont):
    __slots__ = ()

    def __repr__(self):
        return 'Tup%r' % (tuple(self.items),)


class Arr(Cont):
    """fixed array / Vec backing store (concrete length)"""
    __slots__ = ()

    def __repr__(self):
        return 'Arr%r' % (self.items,)


class Adt(Cont):
    """struct (variant None) or enum value with a concrete variant"""
    __slots__ = ('name', 'variant', 'vname')

    def __init__(self, name, variant, vname, items):
        Cont.__init__(self, items)
        self.name = name
        self.variant = variant
        self.vname = vname

    def __repr__(self):
        if self.variant is None:
            return '%s%r' % (self.name, tuple(self.items))
        return '%s::%s%r' % (self.name, self.vname, tuple(self.items))


class SymEnum:
    """enum value whose discriminant is a z3 term.  payload[idx] is a Cont with
    the fields of variant idx (absent = no fields)."""
    __slots__ = ('name', 'disc', 'payload', 'oid')

    def __init__(self, name, disc, payload):
        self.name = name
        self.disc = disc
        self.payload = payload
        self.oid = next(_oid)

    def __repr__(self):
        return 'SymEnum<%s %s>' % (self.name, self.disc)


class Ref:
    """reference / raw pointer to slot `idx` of container `cont`"""
    __slots__ = ('cont', 'idx', 'meta')

    def __init__(self, cont, idx, meta=None):
        self.cont = cont
        self.idx = idx
        self.meta = meta

    def get(self):
        return self.cont.items[self.idx]

    def set(self, v):
        self.cont.items[self.idx] = v

    def __repr__(self):
        return '&%s#%d[%s]' % (type(self.cont).__name__, self.cont.oid, self.idx)


class BoxV(Cont):
    """Box<T>: one slot holding T"""
    __slots__ = ()

    def __repr__(self):
        return 'Box(%r)' % (self.items[0],)


class BoxPtr:
    """Box.0 / Box.0.0 (Unique / NonNull) - becomes a Ref on transmute"""
    __slots__ = ('box',)

    def __init__(self, box):
        self.box = box


class BV:
    """integer or char; v is a python int (always normalised to the type's
    range) or a z3 BitVecRef of the type's width"""
    __slots__ = ('v', 'ty')

    def __init__(self, v, ty):
        self.v = v
        self.ty = ty

    def concrete(self):
        return isinstance(self.v, int)

    def __repr__(self):
        return '%s_%s' % (self.v, self.ty)


class FP:
    __slots__ = ('v',)

    def __init__(self, v):
        self.v = v

    def concrete(self):
        return isinstance(self.v, float)

    def __repr__(self):
        return '%sf64' % (self.v,)


class StrV:
    """str slice / String contents: python bytes or strings.SStr"""
    __slots__ = ('s',)

    def __init__(self, s):
        if isinstance(s, str):
            s = s.encode('utf-8')
        self.s = s

    def __repr__(self):
        return 'Str(%r)' % (self.s,)


class VecV(Cont):
    """Vec<T> with concrete length; items are the elements"""
    __slots__ = ()

    def __repr__(self):
        return 'Vec%r' % (self.items,)


class MapV:
    """HashMap<String, V> with concrete string keys (rule side)"""
    __slots__ = ('d', 'oid', 'vals')

    def __init__(self, d):
        # d: key(bytes) -> index into vals
        self.vals = Cont([])
        self.d = {}
        for k, v in d.items():
            self.d[k] = len(self.vals.items)
            self.vals.items.append(v)
        self.oid = next(_oid)


class Opaque:
    """third-party / irrelevant object (Regex, AhoCorasick, closure, fn item,
    tracing junk)"""
    __slots__ = ('kind', 'data', 'oid')

    def __init__(self, kind, data=None):
        self.kind = kind
        self.data = data
        self.oid = next(_oid)

    def __repr__(self):
        return '<%s %r>' % (self.kind, self.data)


class Closure:
    __slots__ = ('fn', 'captures')

    def __init__(self, fn, captures):
        self.fn = fn
        self.captures = captures


UNIT = Tup([])

INT_TYPES = {
    'u8': (8, False), 'u16': (16, False), 'u32': (32, False), 'u64': (64, False),
    'u128': (128, False), 'usize': (64, False),
    'i8': (8, True), 'i16': (16, True), 'i32': (32, True), 'i64': (64, True),
    'i128': (128, True), 'isize': (64, True), 'char': (32, False),
}


def norm_int(v, ty):
    bits, signed = INT_TYPES[ty]
    v &= (1 << bits) - 1
    if signed and v >> (bits - 1):
        v -= 1 << bits
    return v


def mk_int(v, ty):
    return BV(norm_int(v, ty), ty)


def to_z3bv(b):
    bits, _ = INT_TYPES[b.ty]
    if isinstance(b.v, int):
        return z3.BitVecVal(b.v, bits)
    return b.v


def is_sym(x):
    return isinstance(x, z3.ExprRef)


def z3bool(x):
    if isinstance(x, bool):
        return z3.BoolVal(x)
    return x


def b_and(*xs):
    out = []
    for x in xs:
        if x is True:
            continue
        if x is False:
            return False
        out.append(x)
    if not out:
        return True
    if len(out) == 1:
        return out[0]
    return z3.And(*out)


def b_or(*xs):
    out = []
    for x in xs:
        if x is False:
            continue
        if x is True:
            return True
        out.append(x)
    if not out:
        return False
    if len(out) == 1:
        return out[0]
    return z3.Or(*out)


def b_not(x):
    if isinstance(x, bool):
        return not x
    return z3.Not(x)


def b_ite(c, a, b):
    """a, b: python bool / z3 Bool"""
    if c is True:
        return a
    if c is False:
        return b
    if a is True and b is False:
        return c
    if a is False and b is True:
        return z3.Not(c)
    return z3.If(c, z3bool(a), z3bool(b))
