"""Program = parsed MIR dump + the type tables recovered from /repo's source.

The MIR text names enum variants and struct fields symbolically; the variant
order / field order is read from the crate's source files (regenerated every
run, like the MIR itself).
"""
import os
import re
from . import mir


STD_ENUMS = {
    'Option': ['None', 'Some'],
    'Result': ['Ok', 'Err'],
    'Cow': ['Borrowed', 'Owned'],
    'ControlFlow': ['Continue', 'Break'],
    'Ordering': ['Less', 'Equal', 'Greater'],
    'Bound': ['Included', 'Excluded', 'Unbounded'],
    # serde_yaml::Value (yaml.rs adapters, parse_identifier)
    'serde_yaml::Value': ['Null', 'Bool', 'Number', 'String', 'Sequence', 'Mapping', 'Tagged'],
    # serde_json::Value
    'serde_json::Value': ['Null', 'Bool', 'Number', 'String', 'Array', 'Object'],
}
ORDERING_DISC = {'Less': -1, 'Equal': 0, 'Greater': 1}


def strip_generics(s):
    """remove every ::<...> / <...> generic argument list (balanced), keep
    leading `<T as Trait>` qualified-self syntax intact if keep_qself"""
    out = []
    depth = 0
    i = 0
    n = len(s)
    while i < n:
        c = s[i]
        if c == '<':
            depth += 1
        elif c == '>' and not (i > 0 and s[i - 1] == '-'):
            depth -= 1
        elif depth == 0:
            out.append(c)
        i += 1
    r = ''.join(out)
    while '::::' in r:
        r = r.replace('::::', '::')
    return r.rstrip(':')


def split_qself(callee):
    """'<T as Trait>::method::<G>' -> (T, Trait, 'method') ; otherwise
    (None, None, path)"""
    if callee.startswith('<'):
        depth = 0
        for i, c in enumerate(callee):
            if c == '<':
                depth += 1
            elif c == '>' and callee[i - 1] != '-':
                depth -= 1
                if depth == 0:
                    inner = callee[1:i]
                    rest = callee[i + 1:]
                    if rest.startswith('::'):
                        rest = rest[2:]
                    # split inner on top-level ' as '
                    d = 0
                    k = None
                    j = 0
                    while j < len(inner):
                        ch = inner[j]
                        if ch in '<([':
                            d += 1
                        elif ch in ')]' or (ch == '>' and inner[j - 1] != '-'):
                            d -= 1
                        elif d == 0 and inner.startswith(' as ', j):
                            k = j
                        j += 1
                    if k is None:
                        return inner, None, strip_generics(rest)
                    return inner[:k], inner[k + 4:], strip_generics(rest)
    return None, None, strip_generics(callee)


def main_ident(ty):
    """'Cache<'_>' -> 'Cache'; 'value::Value<'_>' -> 'Value'; '&dyn Object' -> 'dyn Object'"""
    t = ty.strip()
    while t.startswith('&'):
        t = t[1:].strip()
        if t.startswith("'"):
            t = t.split(None, 1)[1] if ' ' in t else t
        if t.startswith('mut '):
            t = t[4:]
    t = strip_generics(t)
    if t.startswith('dyn '):
        return 'dyn ' + t[4:].split('::')[-1].split(' ')[0]
    return t.split('::')[-1].strip()


class Program:
    def __init__(self, mir_path, src_root):
        self.src_root = src_root
        self.fns = mir.parse_file(mir_path)
        self.mir_path = mir_path
        self._derive_fields = {}
        self.by_name = {}
        self.by_last = {}
        self.promoted = {}
        for f in self.fns:
            self.by_name.setdefault(f.name, f)
            m = re.search(r'::promoted\[(\d+)\]$', f.name)
            if m:
                owner = strip_generics(f.name[:m.start()])
                self.promoted[(owner.split('::')[-1], owner, int(m.group(1)))] = f
                continue
            if f.kind != 'fn':
                continue
            last = strip_generics(f.name).split('::')[-1]
            self.by_last.setdefault(last, []).append(f)
        self.enums = {}      # name -> [variants]   (also 'module::name')
        self.structs = {}    # name -> [fields] (named structs)
        self.impls = {}      # 'src/x.rs:LINE' -> (trait or None, type text)
        self._read_sources()
        self.enums.update(STD_ENUMS)
        self._impl_index = None

    # ------------------------------------------------------------------
    def _read_sources(self):
        srcdir = os.path.join(self.src_root, 'src')
        self.sources = {}
        for fn in sorted(os.listdir(srcdir)):
            if not fn.endswith('.rs'):
                continue
            text = open(os.path.join(srcdir, fn), encoding='utf-8').read()
            self.sources['src/' + fn] = text.split('\n')
            mod = fn[:-3]
            self._scan_items(mod, text)

    def _scan_items(self, mod, text):
        # strip comments
        t = re.sub(r'//[^\n]*', '', text)
        for m in re.finditer(r'\benum\s+(\w+)\s*(?:<[^>{]*>)?\s*\{', t):
            body = self._body(t, m.end() - 1)
            variants = []
            for part in mir.split_top(body):
                part = re.sub(r'#\[[^\]]*\]', '', part).strip()
                vm = re.match(r'^(\w+)', part)
                if vm:
                    variants.append(vm.group(1))
            name = m.group(1)
            self.enums[mod + '::' + name] = variants
            if name in self.enums and self.enums[name] != variants:
                self.enums[name] = None      # ambiguous short name
            else:
                self.enums[name] = variants
        for m in re.finditer(r'\bstruct\s+(\w+)\s*(?:<[^>{(]*>)?\s*\{', t):
            body = self._body(t, m.end() - 1)
            fields = []
            for part in mir.split_top(body):
                part = re.sub(r'#\[[^\]]*\]', '', part).strip()
                part = re.sub(r'^pub(\([^)]*\))?\s+', '', part)
                fm = re.match(r'^(\w+)\s*:', part)
                if fm:
                    fields.append(fm.group(1))
            self.structs[m.group(1)] = fields
            self.structs[mod + '::' + m.group(1)] = fields

    @staticmethod
    def _body(t, i):
        depth = 0
        j = i
        while j < len(t):
            if t[j] == '{':
                depth += 1
            elif t[j] == '}':
                depth -= 1
                if depth == 0:
                    return t[i + 1:j]
            j += 1
        raise ValueError('unbalanced braces')

    # ------------------------------------------------------------------
    def derive_field_index(self, head, fn_name):
        """serde-derive's field identifier enum `__Field { __field0, .., __fieldN, __ignore }` has no source text: the
        variant index is the number in the name; `__ignore` follows the last field named in the same derive expansion
        (the functions that share the `<impl at ..>` span of the function the aggregate occurs in)"""
        m = re.match(r'^(?:.*::)?__Field::(__field(\d+)|__ignore)$', head)
        if not m:
            return None
        if m.group(2) is not None:
            return int(m.group(2))
        sp = re.search(r'<impl at [^>]*>', fn_name)
        if not sp:
            return None
        prefix = sp.group(0)
        if prefix not in self._derive_fields:
            ns = []
            for f in self.fns:
                if prefix in f.name:
                    ns += [int(x) for x in re.findall(r'__Field::__field(\d+)', f.text if hasattr(f, 'text') else '')]
            if not ns:
                text = open(self.mir_path).read()
                for blk in text.split('\nfn ')[1:]:
                    if prefix in blk.split('\n', 1)[0]:
                        ns += [int(x) for x in re.findall(r'__Field::__field(\d+)', blk)]
            self._derive_fields[prefix] = (max(ns) + 1) if ns else None
        return self._derive_fields[prefix]

    def enum_variants(self, ty):
        """ty: type path text (possibly with generics)"""
        t = strip_generics(ty).strip()
        if t in self.enums and self.enums[t] is not None:
            return self.enums[t]
        segs = t.split('::')
        for k in (2, 1):
            key = '::'.join(segs[-k:])
            v = self.enums.get(key)
            if v is not None:
                return v
        return None

    def variant_index(self, enum_ty, vname):
        vs = self.enum_variants(enum_ty)
        if vs is None or vname not in vs:
            return None
        return vs.index(vname)

    # ------------------------------------------------------------------
    def impl_info(self, fname):
        """for a def name containing '<impl at src/x.rs:L:C: L2:C2>' return
        (trait or None, type text)"""
        m = re.search(r'<impl at (src/\w+\.rs):(\d+):(\d+): (\d+):(\d+)>', fname)
        if not m:
            return None
        key = (m.group(1), int(m.group(2)), int(m.group(3)))
        if key in self.impls:
            return self.impls[key]
        lines = self.sources.get(m.group(1))
        info = None
        if lines:
            ln = int(m.group(2)) - 1
            col = int(m.group(3)) - 1
            text = lines[ln][col:]
            k = ln + 1
            while '{' not in text and k < len(lines):
                text += ' ' + lines[k].strip()
                k += 1
            if text.startswith('#[derive') or text.startswith('derive') or not text.lstrip().startswith(('impl', 'unsafe impl')):
                # derive(...) expansion: span points into the derive list;
                # the type is the item that follows
                trait = re.match(r'\w+', lines[ln][col:]).group(0)
                k = ln + 1
                ty = None
                while k < len(lines):
                    tm = re.search(r'\b(?:enum|struct)\s+(\w+)', lines[k])
                    if tm:
                        ty = tm.group(1)
                        break
                    k += 1
                info = (trait, ty)
            else:
                im = re.match(r'^\s*(?:unsafe\s+)?impl\s*(<.*?>\s+)?(.*?)\s*(?:\bwhere\b.*)?\{', text)
                if im:
                    head = im.group(2).strip()
                    if head.startswith('<'):
                        # generic params not separated by space
                        d = 0
                        for i, c in enumerate(head):
                            if c == '<':
                                d += 1
                            elif c == '>':
                                d -= 1
                                if d == 0:
                                    head = head[i + 1:].strip()
                                    break
                    if ' for ' in head:
                        tr, ty = head.split(' for ', 1)
                        info = (tr.strip(), ty.strip())
                    else:
                        info = (None, head)
        self.impls[key] = info
        return info

    def impl_index(self):
        if self._impl_index is None:
            idx = {}
            for f in self.fns:
                if f.kind != 'fn' or '<impl at ' not in f.name or '{closure' in f.name:
                    continue
                info = self.impl_info(f.name)
                if not info:
                    continue
                after = f.name.split('>::', 1)
                meth = strip_generics(f.name[f.name.index('>::', f.name.index('<impl at')) + 3:])
                if '::' in meth:
                    continue
                tr, ty = info
                key = (main_ident(tr) if tr else None, main_ident(ty) if ty else None, meth)
                idx.setdefault(key, []).append(f)
            self._impl_index = idx
        return self._impl_index

    def find_impl(self, trait, ty, method):
        idx = self.impl_index()
        key = (main_ident(trait) if trait else None, main_ident(ty), method)
        c = idx.get(key)
        if c and len(c) == 1:
            return c[0]
        if c:
            return c[0]
        return None

    def resolve_call(self, callee):
        """callee text -> Function defined in this crate, or None"""
        qt, qtrait, rest = split_qself(callee)
        if qt is not None:
            if qtrait is None:
                # <T>::method  (inherent through qualified path)
                return self.find_impl(None, qt, rest.split('::')[-1])
            f = self.find_impl(qtrait, qt, rest.split('::')[-1])
            if f is not None:
                return f
            # trait default method defined in this crate:  value::Object::find
            return None
        segs = rest.split('::')
        name = segs[-1]
        if re.fullmatch(r'\{closure#\d+\}', name):
            return self.by_name.get(callee)
        if len(segs) >= 2:
            f = self.find_impl(None, segs[-2], name)
            if f is not None:
                return f
        cands = [f for f in self.by_last.get(name, []) if '<impl at' not in f.name and '{closure' not in f.name]
        if len(cands) == 1 and len(segs) <= 2:
            c = cands[0]
            cs = strip_generics(c.name).split('::')
            # `parser::parse` matches def `parse`; `Vec::new` must not match a crate fn `new`
            if len(cs) == 1 and (len(segs) == 1 or segs[-2] in self.module_names()):
                return c
            if cs[-len(segs):] == segs:
                return c
        elif len(cands) > 1:
            for c in cands:
                cs = strip_generics(c.name).split('::')
                if cs[-len(segs):] == segs:
                    return c
        return None

    def module_names(self):
        return {k[4:-3] for k in self.sources}

    def trait_default(self, trait_ident, method):
        """default method bodies are dumped as `module::Trait::method`"""
        for f in self.by_last.get(method, []):
            cs = strip_generics(f.name).split('::')
            if len(cs) >= 2 and cs[-2] == trait_ident and '<impl at' not in f.name:
                return f
        return None

    def get_promoted(self, owner_fn_name, n):
        """promoted consts are owned by the function that references them"""
        return self.by_name.get('%s::promoted[%d]' % (owner_fn_name, n))
