"""Character-level models for the textual layers (tokeniser, identifier
parser, Object::find): symbolic UTF-8 byte strings, `Chars` / `Peekable`,
char predicates, slicing with Rust's panic conditions, prefix/suffix
stripping, lower-casing, splitting.  DESIGN 2.3 group 2.
"""
import re
import z3
from .vals import *
from .engine import PanicEx, Unsupported
from .models_std import MODELS, some, none, ok, err, deref_all, as_str, IterV, get_iter, ITER_KINDS, vec_of, _pat
from . import strings as S
from .strings import SStr


def model(pattern):
    """models of this module take precedence over the generic ones"""
    def deco(fn):
        MODELS.insert(0, (re.compile(pattern), fn))
        return fn
    return deco


class CharBV(BV):
    """a char decoded from a string: remembers where it came from so that
    `chars.collect::<String>()` of consecutive chars is a slice of the source"""
    __slots__ = ('src',)

    def __init__(self, v, src):
        BV.__init__(self, v, 'char')
        self.src = src      # (SStr|bytes, byte offset, width)


def fresh_utf8(name, cap, uni, max_width=3, min_len=0):
    """a fresh string of <= cap bytes constrained to well-formed UTF-8 made of
    1..max_width byte characters"""
    s = S.fresh(name, cap, uni.axioms, ascii_only=False, min_len=min_len)
    bs = s.bytes
    okp = [z3.BoolVal(True)] + [z3.BoolVal(False)] * cap      # okp[i]: i is a char boundary of a well-formed prefix

    def cont(b, lo=0x80, hi=0xbf):
        return z3.And(z3.UGE(b, lo), z3.ULE(b, hi))
    for i in range(cap):
        b0 = bs[i]
        opts = [(1, z3.ULT(b0, 0x80))]
        if max_width >= 2 and i + 1 < cap:
            opts.append((2, z3.And(z3.UGE(b0, 0xc2), z3.ULE(b0, 0xdf), cont(bs[i + 1]))))
        if max_width >= 3 and i + 2 < cap:
            b1, b2 = bs[i + 1], bs[i + 2]
            opts.append((3, z3.And(cont(b2), z3.Or(
                z3.And(b0 == 0xe0, cont(b1, 0xa0, 0xbf)),
                z3.And(z3.UGE(b0, 0xe1), z3.ULE(b0, 0xec), cont(b1)),
                z3.And(b0 == 0xed, cont(b1, 0x80, 0x9f)),
                z3.And(z3.UGE(b0, 0xee), z3.ULE(b0, 0xef), cont(b1))))))
        if max_width >= 4 and i + 3 < cap:
            b1, b2, b3 = bs[i + 1], bs[i + 2], bs[i + 3]
            opts.append((4, z3.And(cont(b2), cont(b3), z3.Or(
                z3.And(b0 == 0xf0, cont(b1, 0x90, 0xbf)),
                z3.And(z3.UGE(b0, 0xf1), z3.ULE(b0, 0xf3), cont(b1)),
                z3.And(b0 == 0xf4, cont(b1, 0x80, 0x8f))))))
        for w, c in opts:
            okp[i + w] = z3.Or(okp[i + w], z3.And(okp[i], c))
    uni.axioms.append(z3.Or(*[z3.And(s.length == L, okp[L]) for L in range(cap + 1)]))
    return s


def sub_sstr(s, start, length):
    """view of s from byte `start` (python int) with the given byte length
    (python int or z3 BV64)"""
    bs, ln, cap = S.parts(s)
    if isinstance(s, (bytes, bytearray)) and isinstance(length, int):
        return bytes(s[start:start + length])
    if isinstance(length, int):
        return SStr(list(bs[start:start + length]), length, 'slice')
    return SStr(list(bs[start:]), length, 'slice')


def byte_at(s, i):
    return S.parts(s)[0][i]


def len_minus(ln, k):
    if isinstance(ln, int):
        return ln - k
    return z3.simplify(ln - z3.BitVecVal(k, 64))


# ----------------------------------------------------------------------
# Chars

@model(r'^core::str::<impl str>::chars$')
def m_chars(ex, callee, args):
    return IterV('chars', as_str(args[0]), 0)


def decode_at(ex, s, pos):
    """decode one char at byte offset pos (forks on the width).  Returns
    (CharBV, width) or None at the end of the string."""
    bs, ln, cap = S.parts(s)
    if isinstance(s, (bytes, bytearray)):
        if pos >= len(s):
            return None
        b0 = s[pos]
        w = 1 if b0 < 0x80 else 2 if b0 < 0xe0 else 3 if b0 < 0xf0 else 4
        c = ord(bytes(s[pos:pos + w]).decode('utf-8'))
        return CharBV(c, (s, pos, w)), w
    if pos >= cap:
        return None
    b0 = bs[pos]
    has = (pos < ln) if isinstance(ln, int) else z3.UGT(ln, z3.BitVecVal(pos, 64))
    if isinstance(b0, int):
        widths = [1 if b0 < 0x80 else 2 if b0 < 0xe0 else 3 if b0 < 0xf0 else 4]
        conds = [True]
    else:
        widths = [1, 2, 3, 4]
        conds = [z3.ULT(b0, 0x80), z3.And(z3.UGE(b0, 0xc0), z3.ULT(b0, 0xe0)), z3.And(z3.UGE(b0, 0xe0), z3.ULT(b0, 0xf0)),
                 z3.UGE(b0, 0xf0)]
    opts = [b_and(has, c) for c in conds] + [b_not(has)]
    k = ex.decide(opts)
    if k == len(widths):
        return None
    w = widths[k]
    if pos + w > cap:
        raise Unsupported('truncated UTF-8 sequence in a symbolic string (well-formedness axiom missing?)')

    def z(b):
        return z3.ZeroExt(24, b) if not isinstance(b, int) else z3.BitVecVal(b, 32)
    if w == 1:
        c = b0 if isinstance(b0, int) else z3.ZeroExt(24, b0)
    elif w == 2:
        c = ((z(b0) & 0x1f) << 6) | (z(bs[pos + 1]) & 0x3f)
    elif w == 3:
        c = ((z(b0) & 0x0f) << 12) | ((z(bs[pos + 1]) & 0x3f) << 6) | (z(bs[pos + 2]) & 0x3f)
    else:
        c = ((z(b0) & 0x07) << 18) | ((z(bs[pos + 1]) & 0x3f) << 12) | ((z(bs[pos + 2]) & 0x3f) << 6) | (z(bs[pos + 3]) & 0x3f)
    if not isinstance(c, int):
        c = z3.simplify(c)
    return CharBV(c, (s, pos, w)), w


def _chars_next(ex, it):
    r = decode_at(ex, it.src, it.pos)
    if r is None:
        return none()
    ch, w = r
    it.pos += w
    return some(ch)


ITER_KINDS['chars'] = _chars_next


@model(r'^<Chars<.*> as Clone>::clone$')
def m_chars_clone(ex, callee, args):
    return get_iter(args[0]).clone()


# ----------------------------------------------------------------------
# char predicates: exact on ASCII, uninterpreted above

def _uf(uni, name):
    key = ('uf', name)
    f = uni.memo.get(key)
    if f is None:
        f = z3.Function(name, z3.BitVecSort(32), z3.BoolSort())
        uni.memo[key] = f
    return f


def char_pred(ex, name, c):
    v = c.v
    if isinstance(v, int):
        ch = chr(v)
        a = v < 0x80
        table = {'is_numeric': ch.isnumeric(), 'is_alphanumeric': ch.isalnum() or ch.isnumeric(), 'is_alphabetic': ch.isalpha(),
                 'is_whitespace': ch.isspace(), 'is_ascii_digit': '0' <= ch <= '9', 'is_ascii': a,
                 'is_ascii_alphabetic': a and ch.isalpha(), 'is_ascii_alphanumeric': a and ch.isalnum(),
                 'is_ascii_whitespace': ch in ' \t\n\x0c\r', 'is_ascii_lowercase': 'a' <= ch <= 'z', 'is_ascii_uppercase': 'A' <= ch <= 'Z',
                 'is_ascii_punctuation': a and (not ch.isalnum()) and 0x21 <= v <= 0x7e, 'is_control': v < 0x20 or 0x7f <= v <= 0x9f,
                 'is_ascii_control': v < 0x20 or v == 0x7f, 'is_ascii_graphic': 0x21 <= v <= 0x7e, 'is_ascii_hexdigit': ch in '0123456789abcdefABCDEF',
                 'is_lowercase': ch.islower(), 'is_uppercase': ch.isupper()}
        return table[name]
    digit = z3.And(z3.UGE(v, 0x30), z3.ULE(v, 0x39))
    alpha = z3.Or(z3.And(z3.UGE(v, 0x41), z3.ULE(v, 0x5a)), z3.And(z3.UGE(v, 0x61), z3.ULE(v, 0x7a)))
    asc = z3.ULT(v, 0x80)
    lower = z3.And(z3.UGE(v, 0x61), z3.ULE(v, 0x7a))
    upper = z3.And(z3.UGE(v, 0x41), z3.ULE(v, 0x5a))
    simple = {
        'is_ascii_digit': digit, 'is_ascii': asc, 'is_ascii_alphabetic': alpha, 'is_ascii_alphanumeric': z3.Or(alpha, digit),
        'is_ascii_whitespace': z3.Or(v == 0x20, v == 9, v == 10, v == 12, v == 13), 'is_ascii_lowercase': lower, 'is_ascii_uppercase': upper,
        'is_ascii_control': z3.Or(z3.ULT(v, 0x20), v == 0x7f), 'is_ascii_graphic': z3.And(z3.UGE(v, 0x21), z3.ULE(v, 0x7e)),
        'is_ascii_punctuation': z3.And(z3.UGE(v, 0x21), z3.ULE(v, 0x7e), z3.Not(z3.Or(alpha, digit))),
        'is_ascii_hexdigit': z3.Or(digit, z3.And(z3.UGE(v, 0x41), z3.ULE(v, 0x46)), z3.And(z3.UGE(v, 0x61), z3.ULE(v, 0x66))),
        'is_control': z3.Or(z3.ULT(v, 0x20), z3.And(z3.UGE(v, 0x7f), z3.ULE(v, 0x9f))),
    }
    if name in simple:
        return simple[name]
    if name == 'is_lowercase':
        return z3.If(asc, lower, _uf(ex.uni, 'unicode_is_lowercase')(v))
    if name == 'is_uppercase':
        return z3.If(asc, upper, _uf(ex.uni, 'unicode_is_uppercase')(v))
    num_hi = _uf(ex.uni, 'unicode_is_numeric')(v)
    alpha_hi = _uf(ex.uni, 'unicode_is_alphabetic')(v)
    if name == 'is_numeric':
        return z3.If(asc, digit, num_hi)
    if name == 'is_alphabetic':
        return z3.If(asc, alpha, alpha_hi)
    if name == 'is_alphanumeric':
        return z3.If(asc, z3.Or(digit, alpha), z3.Or(num_hi, alpha_hi))
    if name == 'is_whitespace':
        ws = z3.Or(v == 0x20, z3.And(z3.UGE(v, 9), z3.ULE(v, 13)))
        return z3.If(asc, ws, _uf(ex.uni, 'unicode_is_whitespace')(v))
    raise Unsupported('char predicate %s' % name)


@model(r'^(core::)?char::methods::<impl char>::(is_\w+)$')
def m_char_pred(ex, callee, args):
    name = callee.rsplit('::', 1)[1]
    return char_pred(ex, name, deref_all(args[0]))


@model(r'^(core::)?char::methods::<impl char>::to_digit$')
def m_to_digit(ex, callee, args):
    """char::to_digit(radix) for radix <= 10 and 16 on ASCII (None above ASCII: no other character is a digit)"""
    c = deref_all(args[0])
    radix = deref_all(args[1])
    if not isinstance(radix.v, int) or radix.v not in (2, 8, 10, 16):
        raise Unsupported('to_digit with radix %r' % (radix.v,))
    r = radix.v
    v = c.v if not isinstance(c.v, int) else z3.BitVecVal(c.v, 32)
    dec = z3.And(z3.UGE(v, 0x30), z3.ULE(v, 0x30 + min(r, 10) - 1))
    if ex.branch(dec):
        return some(BV(z3.simplify(v - 0x30), 'u32'))
    if r == 16:
        low = z3.And(z3.UGE(v, 0x61), z3.ULE(v, 0x66))
        if ex.branch(low):
            return some(BV(z3.simplify(v - 0x61 + 10), 'u32'))
        up = z3.And(z3.UGE(v, 0x41), z3.ULE(v, 0x46))
        if ex.branch(up):
            return some(BV(z3.simplify(v - 0x41 + 10), 'u32'))
    return none()


@model(r'^<F as Fn<\(char,\)>>::call$|^<.* as Fn(Mut|Once)?<\(.*\)>>::call(_mut|_once)?$')
def m_fn_call(ex, callee, args):
    clo = args[0]
    tup = args[1]
    return ex.call_closure(clo, list(tup.items))


# ----------------------------------------------------------------------
# Vec<char> -> String

@model(r'^<std::vec::IntoIter<char> as Iterator>::collect::<std::string::String>$|^<.* as Iterator>::collect::<std::string::String>$')
def m_collect_string(ex, callee, args):
    it = get_iter(args[0])
    from .models_std import iter_next
    chars = []
    while True:
        r = iter_next(ex, it)
        if r.variant == 0:
            break
        chars.append(r.items[0])
    if not chars:
        return StrV(b'')
    if all(isinstance(c, CharBV) for c in chars):
        src0, p0, _ = chars[0].src
        pos = p0
        okc = True
        for c in chars:
            s, p, w = c.src
            if s is not src0 or p != pos:
                okc = False
                break
            pos += w
        if okc:
            return StrV(sub_sstr(src0, p0, pos - p0))
    if all(isinstance(c.v, int) for c in chars):
        return StrV(''.join(chr(c.v) for c in chars).encode('utf-8'))
    raise Unsupported('collect::<String>() of chars that are not a contiguous slice')


# ----------------------------------------------------------------------
# slicing

def is_boundary(s, i):
    """byte index i (python int) is a char boundary of s"""
    bs, ln, cap = S.parts(s)
    if i == 0:
        return True
    at_end = (ln == i) if isinstance(ln, int) else (ln == z3.BitVecVal(i, 64))
    if i >= cap:
        return at_end
    b = bs[i]
    inside = (i < ln) if isinstance(ln, int) else z3.UGT(ln, z3.BitVecVal(i, 64))
    notcont = (not (0x80 <= b <= 0xbf)) if isinstance(b, int) else z3.Not(z3.And(z3.UGE(b, 0x80), z3.ULE(b, 0xbf)))
    return b_or(at_end, b_and(inside, notcont))


@model(r'^<(std::string::String|str) as (std::ops::)?Index<(std::ops::)?RangeFull>>::index$')
def m_index_full(ex, callee, args):
    return StrV(as_str(args[0]))


@model(r'^<(std::string::String|str) as (std::ops::)?Index<(std::ops::)?Range<usize>>>::index$')
def m_index_range(ex, callee, args):
    s = as_str(args[0])
    rng = args[1]
    start, end = rng.items[0], rng.items[1]
    bs, ln, cap = S.parts(s)
    site = ex.frames[-1].fn.name + ' bb%s' % ex.frames[-1].bb
    a = ex.concretize(start, candidates=list(range(cap + 1)), what='slice start')
    # end is typically len - k
    le = ex.int_binop('Le', BV(a, 'usize'), end)
    if not ex.branch(le):
        raise PanicEx(site, 'slice index starts at %d but ends before it (begin <= end violated)' % a)
    inb = ex.int_binop('Le', end, BV(ln, 'usize'))
    if not ex.branch(inb):
        raise PanicEx(site, 'byte index out of range for str slice')
    if not ex.branch(is_boundary(s, a)):
        raise PanicEx(site, 'byte index %d is not a char boundary' % a)
    # end boundary: enumerate the concrete end to test the byte there
    if isinstance(end.v, int):
        e = end.v
        if not ex.branch(is_boundary(s, e)):
            raise PanicEx(site, 'byte index %d is not a char boundary' % e)
        return StrV(sub_sstr(s, a, e - a))
    e = ex.concretize(end, candidates=list(range(a, cap + 1)), what='slice end')
    if not ex.branch(is_boundary(s, e)):
        raise PanicEx(site, 'byte index %d is not a char boundary' % e)
    return StrV(sub_sstr(s, a, e - a))


@model(r'^<(std::string::String|str) as (std::ops::)?Index<(std::ops::)?(RangeFrom|RangeTo)<usize>>>::index$')
def m_index_range_open(ex, callee, args):
    """&s[a..] and &s[..b]: the same checks as &s[a..b] with the missing bound filled in"""
    s = as_str(args[0])
    bs, ln, cap = S.parts(s)
    rng = args[1]
    bound = rng.items[0]
    if 'RangeFrom' in callee:
        full = Adt('Range', None, None, [bound, BV(ln, 'usize')])
    else:
        full = Adt('Range', None, None, [BV(0, 'usize'), bound])
    return m_index_range(ex, callee, [args[0], full])


@model(r'^core::str::<impl str>::(find|rfind)::<char>$')
def m_str_find_char(ex, callee, args):
    """str::find(char) / rfind(char) -> Option<usize>: the byte offset of the first (last) occurrence; forks on it"""
    s = as_str(args[0])
    c = deref_all(args[1])
    if not isinstance(c.v, int) or c.v >= 0x80:
        raise Unsupported('str::find with a non-ASCII or symbolic char')
    rev = 'rfind' in callee
    if isinstance(s, (bytes, bytearray)):
        j = (bytes(s).rfind if rev else bytes(s).find)(bytes([c.v]))
        return some(mk_int(j, 'usize')) if j >= 0 else none()
    bs, ln, cap = S.parts(s)
    order = list(range(cap - 1, -1, -1)) if rev else list(range(cap))
    conds, prev = [], True
    for j in order:
        inl = (j < ln) if isinstance(ln, int) else z3.UGT(ln, z3.BitVecVal(j, 64))
        hit = b_and(inl, S._eqb(bs[j], c.v))
        conds.append(b_and(prev, hit))
        prev = b_and(prev, b_not(hit))
    conds.append(prev)
    k = ex.decide(conds)
    if k == len(conds) - 1:
        return none()
    return some(mk_int(order[k], 'usize'))


# ----------------------------------------------------------------------
# trim_matches / trim_start_matches / trim_end_matches with a closure or a char

@model(r'^core::str::<impl str>::(trim_matches|trim_start_matches|trim_end_matches)::<')
def m_trim_matches(ex, callee, args):
    s = as_str(args[0])
    pat = args[1]
    which = callee.split('<impl str>::')[1].split('::')[0]
    bs, ln, cap = S.parts(s)
    n = ln if isinstance(ln, int) else ex.concretize(BV(ln, 'usize'), candidates=list(range(cap + 1)), what='string length')
    chars, pos = [], 0
    while pos < n:
        r = decode_at(ex, s, pos)
        if r is None:
            break
        ch, w = r
        chars.append((ch, pos, w))
        pos += w

    def hit(ch):
        p = deref_all(pat) if not isinstance(pat, Closure) else pat
        if isinstance(p, Closure) or (isinstance(p, Opaque) and p.kind == 'fnitem'):
            return ex.branch(ex.call_closure(p, [ch]))
        if isinstance(p, BV):
            return ex.branch(ex.int_binop('Eq', BV(ch.v, 'char'), BV(p.v, 'char')))
        raise Unsupported('%s with pattern %r' % (which, p))
    i, j = 0, len(chars)
    if which in ('trim_matches', 'trim_start_matches'):
        while i < j and hit(chars[i][0]):
            i += 1
    if which in ('trim_matches', 'trim_end_matches'):
        while j > i and hit(chars[j - 1][0]):
            j -= 1
    start = chars[i][1] if i < len(chars) else n
    end = (chars[j - 1][1] + chars[j - 1][2]) if j > 0 else start
    end = max(end, start)
    if isinstance(s, (bytes, bytearray)):
        return StrV(bytes(s[start:end]))
    return StrV(SStr(list(bs[start:end]), end - start, 'trim'))


# ----------------------------------------------------------------------
# prefix / suffix / contains with char or str patterns on symbolic strings

def _sym_strip(ex, s, p, pre):
    """strip_prefix / strip_suffix -> Option<&str>"""
    bs, ln, cap = S.parts(s)
    if not isinstance(p, (bytes, bytearray)):
        raise Unsupported('strip with a symbolic pattern')
    k = len(p)
    if pre:
        if ex.branch(S.s_prefix(s, p)):
            return some(StrV(sub_sstr(s, k, len_minus(ln, k))))
        return none()
    if ex.branch(S.s_suffix(s, p)):
        if isinstance(s, (bytes, bytearray)):
            return some(StrV(bytes(s[:len(s) - k])))
        return some(StrV(SStr(list(bs), len_minus(ln, k), 'strip_suffix')))
    return none()


def install(ex):
    """hooks used by the generic models in models_std for symbolic strings"""
    ex.sym_strip = lambda s, p, pre: _sym_strip(ex, s, p, pre)
    ex.sym_split = lambda s, p, term=False: _sym_split(ex, s, p, term)
    ex.sym_chars = lambda s: IterV('chars', s, 0)


def _sym_split(ex, s, p, term=False):
    """str::split(char) on a symbolic string: the separator positions are
    decided one by one (fork), giving concrete piece boundaries per path"""
    if not isinstance(p, (bytes, bytearray)) or len(p) != 1:
        raise Unsupported('split with a non-char pattern on a symbolic string')
    return IterV('split', (s, p[0], term), 0, extra=False)


def _split_next(ex, it):
    s, sep, term = it.src
    if it.extra:       # finished
        return none()
    bs, ln, cap = S.parts(s)
    start = it.pos
    # find the first separator at or after start: n-ary decision over its position / none
    conds = []
    prev = True
    for j in range(start, cap):
        inl = (j < ln) if isinstance(ln, int) else z3.UGT(ln, z3.BitVecVal(j, 64))
        hit = b_and(inl, S._eqb(bs[j], sep))
        conds.append(b_and(prev, hit))
        prev = b_and(prev, b_not(hit))
    conds.append(prev)
    k = ex.decide(conds)
    if k == len(conds) - 1:
        it.extra = True
        rest = len_minus(ln, start)
        if term:
            # split_terminator: a trailing empty piece is not produced
            empty = (rest == 0) if isinstance(rest, int) else (rest == z3.BitVecVal(0, 64))
            if ex.branch(empty):
                return none()
        return some(StrV(sub_sstr(s, start, rest)))
    j = start + k
    it.pos = j + 1
    return some(StrV(sub_sstr(s, start, j - start)))


ITER_KINDS['split'] = _split_next


@model(r'^str::<impl str>::to_lowercase$|^core::str::<impl str>::to_lowercase$|^alloc::str::<impl str>::to_lowercase$')
def m_to_lowercase(ex, callee, args):
    s = as_str(args[0])
    if isinstance(s, (bytes, bytearray)):
        return StrV(bytes(s).decode('utf-8').lower().encode('utf-8'))
    bs, ln, cap = S.parts(s)
    key = ('lower', S.skey(s))
    r = ex.uni.memo.get(key)
    if r is None:
        # exact when the string is ASCII; otherwise an arbitrary string (Unicode lower-casing can
        # change the byte length; nothing is claimed about it)
        n = lambda i: (i < ln) if isinstance(ln, int) else z3.UGT(ln, z3.BitVecVal(i, 64))
        ascii_all = b_and(*[b_or(b_not(n(i)), (bs[i] < 0x80) if isinstance(bs[i], int) else z3.ULT(bs[i], 0x80)) for i in range(cap)])
        if ascii_all is True:
            r = S.to_lower_ascii(s)
        else:
            other = S.fresh('lower_nonascii', cap + 2, ex.uni.axioms, ascii_only=False)
            low = S.to_lower_ascii(s)
            lb, ll, _ = S.parts(low)
            r = S.s_ite(z3bool(ascii_all), SStr(list(lb) + [0, 0], ll, 'lower'), other)
        ex.uni.memo[key] = r
        ex.uni.alive.append(s)
    return StrV(r)


@model(r'^(core::|alloc::)?str::<impl str>::to_ascii_(lower|upper)case$')
def m_to_ascii_case(ex, callee, args):
    # exact for every UTF-8 string: only the bytes A-Z / a-z change, everything else (all bytes >= 0x80) stays
    s = as_str(args[0])
    upper = callee.endswith('to_ascii_uppercase')
    if isinstance(s, (bytes, bytearray)):
        return StrV(bytes((c - 32 if 0x61 <= c <= 0x7a else c) if upper else (c + 32 if 0x41 <= c <= 0x5a else c) for c in s))
    if not upper:
        return StrV(S.to_lower_ascii(s))
    bs, ln, cap = S.parts(s)
    up = [(b - 32 if 0x61 <= b <= 0x7a else b) if isinstance(b, int) else z3.If(z3.And(z3.UGE(b, 0x61), z3.ULE(b, 0x7a)), b - 32, b) for b in bs]
    return StrV(SStr(up, ln, 'upper'))


# ----------------------------------------------------------------------
# regex construction: validity of an arbitrary pattern is an uninterpreted
# property of the pattern text

@model(r'^regex::RegexBuilder::new$')
def m_rb_new(ex, callee, args):
    return Opaque('RegexBuilder', {'pattern': as_str(args[0]), 'i': False})


@model(r'^regex::RegexBuilder::case_insensitive$')
def m_rb_ci(ex, callee, args):
    b = deref_all(args[0])
    b.data['i'] = args[1]
    return args[0]


@model(r'^regex::RegexBuilder::build$')
def m_rb_build(ex, callee, args):
    from .models_tau import RegexV
    b = deref_all(args[0])
    pat = b.data['pattern']
    if isinstance(pat, (bytes, bytearray)):
        hook = getattr(ex.uni, 'regex_valid_hook', None)
        valid = hook(bytes(pat)) if hook else None
        if valid is True:
            return ok(RegexV(bytes(pat), b.data['i']))
        if valid is False:
            return err(Opaque('regex::Error'))
    key = ('regex_valid', S.skey(pat))
    v = ex.uni.memo.get(key)
    if v is None:
        v = ex.uni.fresh('regex_valid', z3.BoolSort())
        ex.uni.memo[key] = v
        ex.uni.alive.append(pat)
    if ex.branch(v):
        return ok(RegexV(pat, b.data['i']))
    return err(Opaque('regex::Error'))


# ----------------------------------------------------------------------
# error constructors: build an opaque error value (formatting / boxing of the
# source is irrelevant to every property)

@model(r'^(error::)?(parse_invalid_expr|parse_invalid_ident|parse_invalid_token|parse_led_following|parse_led_preceding|'
       r'rule_invalid|token_invalid_char|token_invalid_num)(::<.*>)?$')
def m_error_ctor(ex, callee, args):
    name = re.match(r'^(?:error::)?(\w+)', callee).group(1)
    return Adt('Error', None, None, [Opaque('error-kind', name)])


@model(r'^must_use::<|^std::hint::must_use::<|^core::hint::must_use::<')
def m_must_use(ex, callee, args):
    return args[0]


@model(r'^format$')
def m_format_bare(ex, callee, args):
    return StrV(b'<formatted>')
