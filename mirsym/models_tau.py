"""Callee models, group 3: third-party engines by contract (regex,
aho-corasick), the symbolic document behind `dyn Document` / `dyn Object` /
`dyn Array`.  DESIGN 2.3 / 2.4.
"""
import re
import z3
from .vals import *
from .engine import PanicEx, Unsupported
from .models_std import model, MODELS, some, none, ok, err, deref_all, as_str, IterV, get_iter, \
    ITER_KINDS, vec_of
from . import strings as S
from .doc import SymDoc, SymArray, Cell, ConcDoc


class RegexV:
    """regex::Regex by contract: an uninterpreted predicate per (pattern, flag)"""
    __slots__ = ('pattern', 'insensitive', 'oid')

    def __init__(self, pattern, insensitive):
        self.pattern = pattern
        self.insensitive = insensitive
        self.oid = next_oid()

    def __repr__(self):
        return '<Regex %r i=%s>' % (self.pattern, self.insensitive)


class RegexSetV:
    __slots__ = ('patterns', 'insensitive', 'oid', 'pats_vec')

    def __init__(self, patterns, insensitive):
        self.patterns = patterns
        self.insensitive = insensitive
        self.oid = next_oid()
        self.pats_vec = VecV([StrV(p) for p in patterns])


class AhoV:
    """aho_corasick::AhoCorasick by contract"""
    __slots__ = ('needles', 'insensitive', 'oid')

    def __init__(self, needles, insensitive):
        self.needles = needles
        self.insensitive = insensitive
        self.oid = next_oid()

    def __repr__(self):
        return '<Aho %r i=%s>' % (self.needles, self.insensitive)


def regex_pred(ex, pattern, insensitive, hay):
    """re(pattern, flag, hay): Bool.  Uninterpreted but functional: equal
    haystacks give equal answers (congruence axioms are added pairwise)."""
    if isinstance(pattern, str):
        pattern = pattern.encode()
    hook = getattr(ex.uni, 'regex_hook', None)
    if hook is not None:
        r = hook(pattern, insensitive, hay)
        if r is not None:
            return r
    hkey = S.skey(hay)
    key = ('re', pattern, insensitive, hkey)
    r = ex.uni.memo.get(key)
    if r is None and getattr(ex.uni, 'interpret_regex', True):
        from . import rx
        try:
            r = rx.is_match(pattern, insensitive, hay)
            ex.uni.memo[key] = r
            ex.uni.alive.append(hay)
            ex.uni.memo.setdefault(('re_interpreted',), set()).add((pattern, insensitive))
        except rx.RxUnsupported:
            r = None
    if r is None:
        r = ex.uni.fresh('re<%s|%s>' % (pattern.decode('utf-8', 'replace'), 'i' if insensitive else ''), z3.BoolSort())
        uses = ex.uni.memo.setdefault(('re_uses', pattern, insensitive), [])
        for (h2, r2) in uses:
            eq = S.s_eq(hay, h2)
            if eq is not False:
                ex.add_axiom(z3.Implies(z3bool(eq), r == r2))
        uses.append((hay, r))
        ex.uni.memo[key] = r
        ex.uni.alive.append(hay)
    return r


def opaque_data(v, cls):
    v = deref_all(v)
    if isinstance(v, BoxV):
        v = v.items[0]
    if isinstance(v, cls):
        return v
    raise Unsupported('expected %s, got %r' % (cls.__name__, v))


@model(r'^regex::Regex::is_match$')
def m_regex_is_match(ex, callee, args):
    r = opaque_data(args[0], RegexV)
    return regex_pred(ex, r.pattern, r.insensitive, as_str(args[1]))


@model(r'^regex::Regex::as_str$')
def m_regex_as_str(ex, callee, args):
    return StrV(opaque_data(args[0], RegexV).pattern)


@model(r'^regex::RegexSet::is_match$')
def m_regexset_is_match(ex, callee, args):
    r = opaque_data(args[0], RegexSetV)
    h = as_str(args[1])
    return b_or(*[regex_pred(ex, p, r.insensitive, h) for p in r.patterns])


@model(r'^regex::RegexSet::matches$')
def m_regexset_matches(ex, callee, args):
    r = opaque_data(args[0], RegexSetV)
    h = as_str(args[1])
    return Opaque('SetMatches', [regex_pred(ex, p, r.insensitive, h) for p in r.patterns])


@model(r'^regex::SetMatches::iter$|^<regex::SetMatches as IntoIterator>::into_iter$')
def m_setmatches_iter(ex, callee, args):
    sm = deref_all(args[0])
    return IterV('setmatches', sm.data, 0)


@model(r'^regex::SetMatches::(len|matched_any|matched|is_empty)$')
def m_setmatches_misc(ex, callee, args):
    """SetMatches by its documentation: len() is the number of *patterns in the set* (not of matches), matched_any()
    whether some pattern matched, matched(i) whether pattern i did"""
    sm = deref_all(args[0])
    what = callee.rsplit('::', 1)[1]
    if what == 'len':
        return mk_int(len(sm.data), 'usize')
    if what == 'is_empty':
        return len(sm.data) == 0
    if what == 'matched_any':
        return b_or(*sm.data) if sm.data else False
    i = deref_all(args[1])
    if not isinstance(i.v, int):
        raise Unsupported('SetMatches::matched with a symbolic index')
    if i.v >= len(sm.data):
        raise PanicEx(ex.frames[-1].fn.name, 'SetMatches::matched index out of range')
    return sm.data[i.v]


def _setmatches_next(ex, it):
    while it.pos < len(it.src):
        i = it.pos
        it.pos += 1
        if ex.branch(it.src[i]):
            return some(mk_int(i, 'usize'))
    return none()


ITER_KINDS['setmatches'] = _setmatches_next


@model(r'^regex::RegexSet::patterns$')
def m_regexset_patterns(ex, callee, args):
    r = opaque_data(args[0], RegexSetV)
    return Ref(Cont([r.pats_vec]), 0)


@model(r'^regex::RegexSet::len$')
def m_regexset_len(ex, callee, args):
    return mk_int(len(opaque_data(args[0], RegexSetV).patterns), 'usize')


# ----------------------------------------------------------------------
# aho-corasick contract: find_overlapping_iter yields exactly the occurrences
# (pattern p, start s, end s+len(needle p)) of the needles in the haystack
# (ASCII case-insensitively when the automaton was built so).  The order is
# the iteration order chosen below (uni.aho_order); verdicts must not depend on
# it, which the checks establish by running more than one order.

@model(r'^AhoCorasick::find_overlapping_iter::<|^aho_corasick::AhoCorasick::find_overlapping_iter::<')
def m_aho_iter(ex, callee, args):
    a = opaque_data(args[0], AhoV)
    h = as_str(args[1])
    cap = S.parts(h)[2]
    cands = []
    for p, n in enumerate(a.needles):
        ln = S.parts(n)[1]
        if not isinstance(ln, int):
            raise Unsupported('aho-corasick model needs needles of concrete length')
        for s in range(0, cap - ln + 1):
            cands.append((p, s, s + ln))
    order = getattr(ex.uni, 'aho_order', 'end')
    if order == 'end':
        cands.sort(key=lambda c: (c[2], c[0], c[1]))
    elif order == 'pattern':
        cands.sort(key=lambda c: (c[0], c[1]))
    elif order == 'rev':
        cands.sort(key=lambda c: (-c[2], -c[0], -c[1]))
    return IterV('aho', (a, h, cands), 0)


@model(r'^AhoCorasick::find_iter::<|^aho_corasick::AhoCorasick::find_iter::<')
def m_aho_find_iter(ex, callee, args):
    """non-overlapping iteration (MatchKind::Standard): repeatedly the match
    with the smallest end at or after the previous match's end; among matches
    ending there the longest needle, then the smallest pattern id (validated
    against the crate in C07)"""
    a = opaque_data(args[0], AhoV)
    h = as_str(args[1])
    cap = S.parts(h)[2]
    cands = []
    for p, n in enumerate(a.needles):
        ln = S.parts(n)[1]
        if not isinstance(ln, int):
            raise Unsupported('aho-corasick model needs needles of concrete length')
        if ln == 0:
            raise Unsupported('find_iter with an empty needle is not modelled')
        for s in range(0, cap - ln + 1):
            cands.append((p, s, s + ln))
    cands.sort(key=lambda c: (c[2], -(c[2] - c[1]), c[0]))
    return IterV('aho_nonoverlap', (a, h, cands), 0, extra=0)


def _aho_nonoverlap_next(ex, it):
    a, h, cands = it.src
    at = it.extra
    rest = [c for c in cands if c[1] >= at]
    if not rest:
        return none()
    occ = [S.occurs_at(h, a.needles[p], s, fold=a.insensitive) for (p, s, e) in rest]
    conds = []
    prev_none = True
    for o in occ:
        conds.append(b_and(prev_none, o))
        prev_none = b_and(prev_none, b_not(o))
    conds.append(prev_none)
    k = ex.decide(conds)
    if k == len(rest):
        it.extra = 10 ** 9
        return none()
    p, s, e = rest[k]
    it.extra = e
    return some(Adt('AhoMatch', None, None, [mk_int(p, 'usize'), mk_int(s, 'usize'), mk_int(e, 'usize')]))


ITER_KINDS['aho_nonoverlap'] = _aho_nonoverlap_next


def _aho_next(ex, it):
    a, h, cands = it.src
    rest = cands[it.pos:]
    if not rest:
        return none()
    occ = [S.occurs_at(h, a.needles[p], s, fold=a.insensitive) for (p, s, e) in rest]
    # one n-ary decision: "the first remaining candidate that occurs is k" / "none occurs"
    conds = []
    prev_none = True
    for k, o in enumerate(occ):
        conds.append(b_and(prev_none, o))
        prev_none = b_and(prev_none, b_not(o))
    conds.append(prev_none)
    k = ex.decide(conds)
    if k == len(rest):
        it.pos = len(cands)
        return none()
    it.pos += k + 1
    p, s, e = rest[k]
    ex.uni.stats['aho_yields'] = ex.uni.stats.get('aho_yields', 0) + 1
    return some(Adt('AhoMatch', None, None, [mk_int(p, 'usize'), mk_int(s, 'usize'), mk_int(e, 'usize')]))


ITER_KINDS['aho'] = _aho_next


@model(r'^aho_corasick::Match::pattern$')
def m_match_pattern(ex, callee, args):
    m = deref_all(args[0])
    return Adt('PatternID', None, None, [m.items[0]])


@model(r'^aho_corasick::Match::start$')
def m_match_start(ex, callee, args):
    return deref_all(args[0]).items[1]


@model(r'^aho_corasick::Match::end$')
def m_match_end(ex, callee, args):
    return deref_all(args[0]).items[2]


@model(r'^PatternID::as_u64$|^aho_corasick::PatternID::as_u64$')
def m_pid_u64(ex, callee, args):
    p = deref_all(args[0])
    return mk_int(p.items[0].v, 'u64')


@model(r'^PatternID::as_usize$|^aho_corasick::PatternID::as_usize$')
def m_pid_usize(ex, callee, args):
    p = deref_all(args[0])
    return mk_int(p.items[0].v, 'usize')


@model(r'^HashSet::<PatternID>::with_capacity$')
def m_hs_new(ex, callee, args):
    return Opaque('HashSet', set())


@model(r'^HashSet::<PatternID>::insert$')
def m_hs_insert(ex, callee, args):
    hs = deref_all(args[0])
    k = args[1].items[0].v
    new = k not in hs.data
    hs.data.add(k)
    return new


@model(r'^HashSet::<PatternID>::len$')
def m_hs_len(ex, callee, args):
    return mk_int(len(deref_all(args[0]).data), 'usize')


# ----------------------------------------------------------------------
# documents

def record_find(ex, doc, key):
    ex.run.events.append(('find', doc.path, key))


@model(r'^<dyn Document as Document>::find$')
def m_doc_find(ex, callee, args):
    r = args[0]
    t = r.get() if isinstance(r, Ref) else r
    key = as_str(args[1])
    if isinstance(t, (SymDoc, ConcDoc)):
        if not isinstance(key, bytes):
            raise Unsupported('Document::find with a symbolic key')
        record_find(ex, t, key)
        if getattr(t, 'as_object', False):
            f = ex.prog.trait_default('Object', 'find')
            return ex.call_mir(f, [r, args[1]])
        return t.find_value(key)
    if isinstance(t, Adt):
        f = ex.prog.find_impl('Document', t.name, 'find')
        if f is None:
            raise Unsupported('no Document impl for %s' % t.name)
        return ex.call_mir(f, [r, args[1]])
    if isinstance(t, Ref):
        # &dyn Object used as a Document (impl at document.rs: `impl Document for &dyn Object`)
        f = ex.prog.find_impl('Document', '&dyn Object', 'find')
        if f is None:
            raise Unsupported('no Document impl for &dyn Object')
        return ex.call_mir(f, [r, args[1]])
    raise Unsupported('Document::find on %r' % (t,))


@model(r'^<dyn Object as Object>::find$|^<.* as Object>::find$|^value::Object::find$')
def m_obj_find(ex, callee, args):
    f = ex.prog.trait_default('Object', 'find')
    if f is None:
        raise Unsupported('no MIR for Object::find default method')
    return ex.call_mir(f, args)


@model(r'^<.* as (value::)?Object>::get$')
def m_obj_get(ex, callee, args):
    t = deref_all(args[0])
    key = as_str(args[1])
    if isinstance(t, ConcDoc):
        return t.find_value(key)
    if isinstance(t, SymDoc):
        if isinstance(key, bytes):
            ex.run.events.append(('get', t.path, key))
            return t.find_value(key)
        h = getattr(t, 'get_symbolic', None)
        if h is not None:
            return h(ex, key)
        raise Unsupported('Object::get with a symbolic key')
    h = getattr(t, 'object_get', None)
    if h is not None:
        return h(ex, key)
    f = ex.prog.resolve_call(callee)
    if f is not None:
        return ex.call_mir(f, args)
    raise Unsupported('Object::get on %r' % (t,))


@model(r'^<V as (value::)?AsValue>::as_value$|^<.* as (value::)?AsValue>::as_value$')
def m_generic_as_value(ex, callee, args):
    from .doc import CellRef
    v = deref_all(args[0])
    if isinstance(v, CellRef):
        return v.cell.value()
    f = ex.prog.resolve_call(callee)
    if f is not None:
        return ex.call_mir(f, args)
    raise Unsupported('as_value() on %r' % (v,))


@model(r'^<dyn (value::)?Object as (value::)?Object>::len$|^<.* as (value::)?Object>::len$')
def m_obj_len(ex, callee, args):
    t = deref_all(args[0])
    if isinstance(t, SymDoc):
        return BV(t.length(), 'usize')
    if isinstance(t, ConcDoc):
        return mk_int(len(t.fields), 'usize') if hasattr(t, 'fields') else mk_int(len(t.items), 'usize')
    f = ex.prog.resolve_call(callee)
    if f is not None:
        return ex.call_mir(f, args)
    raise Unsupported('Object::len on %r' % (t,))


@model(r'^<dyn (value::)?Array as (value::)?Array>::iter$')
def m_arr_iter(ex, callee, args):
    a = deref_all(args[0])
    if isinstance(a, SymArray):
        return BoxV([IterV('symarray', a, 0)])
    h = getattr(a, 'array_iter', None)
    if h is not None:
        return h(ex)
    raise Unsupported('Array::iter on %r' % (a,))


@model(r'^<dyn (value::)?Array as (value::)?Array>::len$')
def m_arr_len(ex, callee, args):
    a = deref_all(args[0])
    if isinstance(a, SymArray):
        return BV(a.length, 'usize')
    raise Unsupported('Array::len on %r' % (a,))


def _symarray_next(ex, it):
    a = it.src
    if it.pos >= a.cap:
        return none()
    i = it.pos
    if ex.branch(z3.UGT(a.length, z3.BitVecVal(i, 64))):
        it.pos += 1
        return some(a.elems[i].value())
    it.pos = a.cap
    return none()


ITER_KINDS['symarray'] = _symarray_next


# ----------------------------------------------------------------------
# tree import (bridge JSON -> values).  The variant order comes from the
# program's enum tables (i.e. from /repo's current source).

class TreeImporter:
    def __init__(self, prog):
        self.prog = prog

    def enum(self, ty, vname, items):
        idx = self.prog.variant_index(ty, vname)
        if idx is None:
            raise Unsupported('enum %s has no variant %s in the current source' % (ty, vname))
        return Adt(ty, idx, vname, items)

    def boolsym(self, s):
        names = {'&&': 'And', '==': 'Equal', '>': 'GreaterThan', '>=': 'GreaterThanOrEqual',
                 '<': 'LessThan', '<=': 'LessThanOrEqual', '||': 'Or'}
        return self.enum('BoolSym', names.get(s, s), [])

    def modsym(self, s):
        return self.enum('ModSym', {'flt': 'Flt', 'int': 'Int', 'not': 'Not', 'str': 'Str'}.get(s, s), [])

    def matchtype(self, j):
        return self.enum('MatchType', j['t'], [StrV(bytes(j['v']))])

    def search(self, j):
        t = j['t']
        if t == 'Any':
            return self.enum('Search', 'Any', [])
        if t in ('Contains', 'EndsWith', 'Exact', 'StartsWith'):
            return self.enum('Search', t, [StrV(bytes(j['v']))])
        if t == 'Regex':
            return self.enum('Search', 'Regex', [RegexV(bytes(j['p']), j['i']), j['i']])
        if t == 'RegexSet':
            return self.enum('Search', 'RegexSet', [RegexSetV([bytes(p) for p in j['ps']], j['i']), j['i']])
        if t == 'AhoCorasick':
            ctx = [self.matchtype(m) for m in j['m']]
            needles = [bytes(m['v']) for m in j['m']]
            if j['i']:
                needles = [n for n in needles]
            return self.enum('Search', 'AhoCorasick', [BoxV([AhoV(needles, j['i'])]), VecV(ctx), j['i']])
        raise Unsupported('search kind %s' % t)

    def expr(self, j):
        t = j['t']
        E = lambda v, items: self.enum('Expression', v, items)
        if t == 'BooleanGroup':
            return E(t, [self.boolsym(j['op']), VecV([self.expr(x) for x in j['g']])])
        if t == 'BooleanExpression':
            return E(t, [BoxV([self.expr(j['l'])]), self.boolsym(j['op']), BoxV([self.expr(j['r'])])])
        if t == 'Boolean':
            return E(t, [bool(j['v'])])
        if t == 'Cast':
            return E(t, [StrV(bytes(j['f'])), self.modsym(j['m'])])
        if t == 'Field':
            return E(t, [StrV(bytes(j['f']))])
        if t == 'Float':
            import struct
            return E(t, [FP(struct.unpack('<d', struct.pack('<Q', j['bits']))[0])])
        if t == 'Identifier':
            return E(t, [StrV(bytes(j['f']))])
        if t == 'Integer':
            return E(t, [mk_int(j['v'], 'i64')])
        if t == 'Match':
            if j['m'] == 'All':
                m = self.enum('Match', 'All', [])
            else:
                m = self.enum('Match', 'Of', [mk_int(j['m'], 'u64')])
            return E(t, [m, BoxV([self.expr(j['e'])])])
        if t == 'Matrix':
            cols = VecV([StrV(bytes(c)) for c in j['c']])
            rows = VecV([VecV([Adt('Option', 0, 'None', []) if c is None else Adt('Option', 1, 'Some', [self.expr(c)])
                               for c in row]) for row in j['r']])
            return E(t, [cols, rows])
        if t == 'Negate':
            return E(t, [BoxV([self.expr(j['e'])])])
        if t == 'Nested':
            return E(t, [StrV(bytes(j['f'])), BoxV([self.expr(j['e'])])])
        if t == 'Null':
            return E(t, [])
        if t == 'Search':
            return E(t, [self.search(j['s']), StrV(bytes(j['f'])), bool(j['c'])])
        raise Unsupported('expression kind %s' % t)

    def identifiers(self, j):
        return MapV({bytes(k): self.expr(v) for k, v in j})
