"""Bounded symbolic byte strings.

A string is either python `bytes` (concrete) or an SStr: a list of `cap`
byte terms (python int or z3 BitVec(8)) and a length (python int or z3
BitVec(64)) with length <= cap.  Bytes at positions >= length are unconstrained
and never observed.  All relations are finite formulas over bytes and the
length, so z3 decides them by bit-blasting (no string theory).

Rust's `==`, `contains`, `starts_with`, `ends_with` on `str` with `str`
patterns are byte-wise, so byte strings are exact for them.
"""
import z3
from .vals import b_and, b_or, b_not, b_ite, is_sym

_cnt = [0]


class SStr:
    __slots__ = ('bytes', 'length', 'name')

    def __init__(self, bs, length, name=None):
        self.bytes = bs
        self.length = length
        self.name = name

    @property
    def cap(self):
        return len(self.bytes)

    def __repr__(self):
        return 'SStr<%s cap=%d>' % (self.name, len(self.bytes))


def fresh(name, cap, axioms, ascii_only=True, min_len=0):
    """a fresh symbolic string of length <= cap; range axioms appended"""
    _cnt[0] += 1
    n = '%s#%d' % (name, _cnt[0])
    bs = [z3.BitVec('%s.b%d' % (n, i), 8) for i in range(cap)]
    ln = z3.BitVec('%s.len' % n, 64)
    axioms.append(z3.ULE(ln, cap))
    if min_len:
        axioms.append(z3.UGE(ln, min_len))
    if ascii_only:
        for b in bs:
            axioms.append(z3.ULT(b, 0x80))
    return SStr(bs, ln, n)


def parts(s):
    """-> (list of byte terms, length term, cap)"""
    if isinstance(s, (bytes, bytearray)):
        return list(s), len(s), len(s)
    return s.bytes, s.length, len(s.bytes)


def is_concrete(s):
    return isinstance(s, (bytes, bytearray))


def _eqb(a, b, fold=False):
    if fold:
        a = lower_byte(a)
        b = lower_byte(b)
    if isinstance(a, int) and isinstance(b, int):
        return a == b
    if isinstance(a, int):
        a = z3.BitVecVal(a, 8)
    if isinstance(b, int):
        b = z3.BitVecVal(b, 8)
    return a == b


def lower_byte(b):
    if isinstance(b, int):
        return b + 32 if 0x41 <= b <= 0x5a else b
    return z3.If(z3.And(z3.UGE(b, 0x41), z3.ULE(b, 0x5a)), b + 32, b)


def _len_eq(l, n):
    if isinstance(l, int):
        return l == n
    return l == z3.BitVecVal(n, 64)


def _len_ge(l, n):
    if isinstance(l, int):
        return l >= n
    if n == 0:
        return True
    return z3.UGE(l, z3.BitVecVal(n, 64))


def s_len(s):
    """python int or z3 BV64"""
    return parts(s)[1]


def _lens(la, ca):
    """possible concrete lengths of a string with length term la, cap ca"""
    if isinstance(la, int):
        return [la]
    return list(range(ca + 1))


def s_eq(a, b, fold=False):
    ba, la, ca = parts(a)
    bb, lb, cb = parts(b)
    if isinstance(la, int) and isinstance(lb, int):
        if la != lb:
            return False
        return b_and(*[_eqb(ba[i], bb[i], fold) for i in range(la)])
    opts = []
    for n in _lens(la, ca):
        if n > cb or (isinstance(lb, int) and lb != n):
            continue
        opts.append(b_and(_len_eq(la, n), _len_eq(lb, n),
                          *[_eqb(ba[i], bb[i], fold) for i in range(n)]))
    return b_or(*opts)


def occurs_at(h, n, start, fold=False):
    """needle n occurs in h at byte offset `start` (python int)"""
    bh, lh, ch = parts(h)
    bn, ln, cn = parts(n)
    opts = []
    for k in _lens(ln, cn):
        if start + k > ch:
            continue
        opts.append(b_and(_len_eq(ln, k), _len_ge(lh, start + k),
                          *[_eqb(bh[start + i], bn[i], fold) for i in range(k)]))
    return b_or(*opts)


def s_prefix(h, n, fold=False):
    return occurs_at(h, n, 0, fold)


def s_contains(h, n, fold=False):
    ch = parts(h)[2]
    return b_or(*[occurs_at(h, n, s, fold) for s in range(ch + 1)])


def s_suffix(h, n, fold=False):
    bh, lh, ch = parts(h)
    bn, ln, cn = parts(n)
    opts = []
    for L in _lens(lh, ch):
        for k in _lens(ln, cn):
            if k > L:
                continue
            opts.append(b_and(_len_eq(lh, L), _len_eq(ln, k),
                              *[_eqb(bh[L - k + i], bn[i], fold) for i in range(k)]))
    return b_or(*opts)


def occurs_ending_at_len(h, n, start, fold=False):
    """n occurs at `start` and ends exactly at len(h)"""
    bh, lh, ch = parts(h)
    bn, ln, cn = parts(n)
    opts = []
    for k in _lens(ln, cn):
        if start + k > ch:
            continue
        opts.append(b_and(_len_eq(ln, k), _len_eq(lh, start + k),
                          *[_eqb(bh[start + i], bn[i], fold) for i in range(k)]))
    return b_or(*opts)


def s_ite(c, a, b, axioms=None):
    """string-valued if-then-else"""
    if c is True:
        return a
    if c is False:
        return b
    ba, la, ca = parts(a)
    bb, lb, cb = parts(b)
    cap = max(ca, cb)
    bs = []
    for i in range(cap):
        x = ba[i] if i < ca else 0
        y = bb[i] if i < cb else 0
        if isinstance(x, int) and isinstance(y, int) and x == y:
            bs.append(x)
        else:
            bs.append(z3.If(c, _bv8(x), _bv8(y)))
    ln = z3.If(c, _bv64(la), _bv64(lb))
    return SStr(bs, ln, 'ite')


def _bv8(x):
    return z3.BitVecVal(x, 8) if isinstance(x, int) else x


def _bv64(x):
    return z3.BitVecVal(x, 64) if isinstance(x, int) else x


def to_lower_ascii(s):
    if is_concrete(s):
        return bytes(lower_byte(b) for b in s)
    return SStr([lower_byte(b) for b in s.bytes], s.length, (s.name or '') + '.lower')


def model_bytes(model, s):
    """concrete bytes of s under a z3 model"""
    if is_concrete(s):
        return bytes(s)
    ln = s.length
    if not isinstance(ln, int):
        ln = model.eval(ln, model_completion=True).as_long()
    out = []
    for i in range(ln):
        b = s.bytes[i]
        if not isinstance(b, int):
            b = model.eval(b, model_completion=True).as_long()
        out.append(b)
    return bytes(out)


def skey(s):
    """structural identity of a string value (stable across paths, unlike id())"""
    if isinstance(s, (bytes, bytearray)):
        return bytes(s)
    bs = tuple(b if isinstance(b, int) else ('z', b.get_id()) for b in s.bytes)
    ln = s.length if isinstance(s.length, int) else ('z', s.length.get_id())
    return (bs, ln)
