"""Parser for rustc's `-Zunpretty=mir` text dump.

Only syntax; no semantics.  The dump is regenerated from /repo on every run
(see artifacts.py); nothing in here is specific to a function of tau-engine.

Data model
----------
Function: name, args [(local, type)], ret type, locals {n: type}, blocks {n: Block}
Block:    stmts [Stmt], term Term
Stmt:     ('assign', place, rvalue) | ('setdisc', place, idx) | ('nop',)
Term:     ('goto', bb) | ('switch', operand, [(val, bb)], otherwise_bb)
          | ('return',) | ('unreachable',) | ('resume',)
          | ('drop', place, bb) | ('assert', operand, expected(bool), msg, bb)
          | ('call', dest_place|None, callee(str), [operand], bb|None)
Place:    (local:int, [proj])   proj: ('deref',) | ('field', i, type) |
          ('downcast', name) | ('index', local) | ('constindex', i, from_end)
Operand:  ('copy', place) | ('move', place) | ('const', text, type_or_None)
Rvalue:   ('use', operand) | ('ref', mut(bool), place) | ('rawptr', place)
          | ('binop', op, a, b) | ('unop', op, a) | ('disc', place)
          | ('cast', operand, type, kind) | ('agg', kind, operands...)
          | ('len', place) | ('repeat', operand, n)
"""
import re

BINOPS = {
    'Eq', 'Ne', 'Lt', 'Le', 'Gt', 'Ge', 'BitAnd', 'BitOr', 'BitXor', 'Add', 'Sub',
    'Mul', 'Div', 'Rem', 'Shl', 'Shr', 'AddWithOverflow', 'SubWithOverflow',
    'MulWithOverflow', 'Offset', 'Cmp', 'AddUnchecked', 'SubUnchecked',
    'MulUnchecked', 'ShlUnchecked', 'ShrUnchecked',
}
UNOPS = {'Not', 'Neg', 'PtrMetadata'}


class MirSyntaxError(Exception):
    pass


class Function:
    __slots__ = ('name', 'args', 'ret', 'locals', 'blocks', 'kind', 'src', 'literal')

    def __init__(self, name, kind):
        self.name = name
        self.kind = kind          # 'fn' | 'const' | 'static'
        self.args = []
        self.ret = None
        self.locals = {}
        self.blocks = {}
        self.src = None
        self.literal = None

    def __repr__(self):
        return '<mir %s %s (%d blocks)>' % (self.kind, self.name, len(self.blocks))


# --------------------------------------------------------------------------
# balanced scanning helpers

OPEN = '([{<'
CLOSE = ')]}>'


def _skip_string(s, i):
    """s[i] is an opening quote (") ; return index after the closing quote."""
    assert s[i] == '"'
    i += 1
    n = len(s)
    while i < n:
        c = s[i]
        if c == '\\':
            i += 2
            continue
        if c == '"':
            return i + 1
        i += 1
    raise MirSyntaxError('unterminated string in %r' % s[:80])


def split_top(s, sep=','):
    """split s on sep at nesting depth 0 (parens, brackets, braces, angle
    brackets outside of '->' arrows; string literals skipped)."""
    out = []
    depth = 0
    start = 0
    i = 0
    n = len(s)
    while i < n:
        c = s[i]
        if c == '"':
            i = _skip_string(s, i)
            continue
        if c == "'" and i + 2 < n:
            # char literal 'x' or '\x' (lifetimes 'a have no closing quote)
            if s[i + 1] == '\\':
                j = s.find("'", i + 2)
                if j != -1 and j - i <= 12:
                    i = j + 1
                    continue
            elif s[i + 2] == "'":
                i += 3
                continue
        if c in '([{':
            depth += 1
        elif c in ')]}':
            depth -= 1
        elif c == '<':
            depth += 1
        elif c == '>':
            if i > 0 and s[i - 1] in '-=':
                pass
            else:
                depth -= 1
        elif c == sep and depth == 0:
            out.append(s[start:i].strip())
            start = i + 1
        i += 1
    tail = s[start:].strip()
    if tail:
        out.append(tail)
    return out


def _match_close(s, i):
    """s[i] is '(' or '['; return index of matching close (parens/brackets
    only; quotes skipped)."""
    op = s[i]
    cl = {'(': ')', '[': ']', '{': '}'}[op]
    depth = 0
    n = len(s)
    while i < n:
        c = s[i]
        if c == '"':
            i = _skip_string(s, i)
            continue
        if c == "'" and i + 2 < n:
            if s[i + 1] == '\\':
                j = s.find("'", i + 2)
                if j != -1 and j - i <= 12:
                    i = j + 1
                    continue
            elif s[i + 2] == "'":
                i += 3
                continue
        if c == op:
            depth += 1
        elif c == cl:
            depth -= 1
            if depth == 0:
                return i
        i += 1
    raise MirSyntaxError('unbalanced %r' % s[:120])


# --------------------------------------------------------------------------
# places

_local_re = re.compile(r'_(\d+)')


def parse_place(s):
    s = s.strip()
    pl, rest = _parse_place_prefix(s)
    if rest.strip():
        raise MirSyntaxError('trailing text after place: %r in %r' % (rest, s))
    return pl


def _parse_place_prefix(s):
    """parse a place at the start of s, return (place, remaining)."""
    s = s.lstrip()
    if s.startswith('('):
        j = _match_close(s, 0)
        inner = s[1:j]
        rest = s[j + 1:]
        if inner.startswith('*'):
            base, r = _parse_place_prefix(inner[1:])
            if r.strip():
                raise MirSyntaxError('bad deref %r' % s)
            pl = (base[0], base[1] + [('deref',)])
        else:
            base, r = _parse_place_prefix(inner)
            r = r.lstrip()
            if r.startswith('as '):
                vname = r[3:].strip()
                pl = (base[0], base[1] + [('downcast', vname)])
            elif r.startswith('.'):
                m = re.match(r'\.(\d+)\s*:\s*(.*)$', r, re.S)
                if not m:
                    raise MirSyntaxError('bad field proj %r' % s)
                pl = (base[0], base[1] + [('field', int(m.group(1)), m.group(2).strip())])
            else:
                raise MirSyntaxError('bad paren place %r' % s)
    else:
        m = _local_re.match(s)
        if not m:
            raise MirSyntaxError('bad place %r' % s)
        pl = (int(m.group(1)), [])
        rest = s[m.end():]
    # postfix index projections
    while rest.startswith('['):
        j = _match_close(rest, 0)
        idx = rest[1:j].strip()
        m = _local_re.fullmatch(idx)
        if m:
            pl = (pl[0], pl[1] + [('index', int(m.group(1)))])
        else:
            m = re.fullmatch(r'(-?)(\d+) of (\d+)', idx)
            if m:
                pl = (pl[0], pl[1] + [('constindex', int(m.group(2)), m.group(1) == '-')])
            else:
                m = re.fullmatch(r'(\d+):(-?)(\d*)', idx)
                if m:
                    pl = (pl[0], pl[1] + [('subslice', int(m.group(1)), m.group(2) == '-',
                                           int(m.group(3)) if m.group(3) else None)])
                else:
                    raise MirSyntaxError('bad index %r' % rest)
        rest = rest[j + 1:]
    return pl, rest


# --------------------------------------------------------------------------
# operands / rvalues

def parse_operand(s):
    s = s.strip()
    if s.startswith('no_retag '):
        s = s[len('no_retag '):].strip()
    if s.startswith('copy '):
        return ('copy', parse_place(s[5:]))
    if s.startswith('move '):
        return ('move', parse_place(s[5:]))
    if s.startswith('const '):
        return ('const', s[6:].strip())
    if s and (s[0].isalpha() or s[0] in '<_{'):
        return ('const', s)          # fn item / closure passed by value
    raise MirSyntaxError('bad operand %r' % s)


_cast_re = re.compile(r'^(.*) as (.*) \((\w+(?:\((?:[^()]|\([^()]*\))*\))?)\)$', re.S)


def parse_rvalue(s):
    s = s.strip()
    if s.startswith('no_retag '):
        s = s[len('no_retag '):].strip()
    if s.startswith('&raw const ') or s.startswith('&raw mut '):
        k = s.index(' ', 5)
        rest = s[k:].strip()
        if rest.startswith('(fake) '):
            # the fake raw borrow rustc takes of an indexed slice before its bounds check (only PtrMetadata reads it)
            rest = rest[len('(fake) '):]
        return ('rawptr', parse_place(rest))
    if s.startswith('&mut '):
        return ('ref', True, parse_place(s[5:]))
    if s.startswith('&'):
        t = s[1:].strip()
        # `&'a _x` never appears in the dump; borrow kinds like `&fake shallow`
        if t.startswith('fake '):
            t = t.split(' ', 2)[2]
        return ('ref', False, parse_place(t))
    if s.startswith('discriminant('):
        j = _match_close(s, len('discriminant'))
        return ('disc', parse_place(s[len('discriminant('):j]))
    if s.startswith('Len('):
        return ('len', parse_place(s[4:-1]))
    if s.startswith('CopyForDeref('):
        return ('use', ('copy', parse_place(s[len('CopyForDeref('):-1])))
    m = re.match(r'^(\w+)\(', s)
    if m and (m.group(1) in BINOPS or m.group(1) in UNOPS):
        j = _match_close(s, m.end() - 1)
        if j == len(s) - 1:
            args = split_top(s[m.end():j])
            if m.group(1) in BINOPS and len(args) == 2:
                return ('binop', m.group(1), parse_operand(args[0]), parse_operand(args[1]))
            if m.group(1) in UNOPS and len(args) == 1:
                return ('unop', m.group(1), parse_operand(args[0]))
    if s.startswith('copy ') or s.startswith('move ') or s.startswith('const '):
        m = _cast_re.match(s)
        if m and _balanced(m.group(1)):
            return ('cast', parse_operand(m.group(1)), m.group(2).strip(), m.group(3))
        return ('use', parse_operand(s))
    m = _cast_re.match(s)
    if m and m.group(3).startswith('PointerCoercion(ReifyFnPointer') and _balanced(m.group(1)):
        # `path::to::function as fn(..) -> .. (PointerCoercion(ReifyFnPointer(Safe), Implicit))`: a fn item as a value
        return ('cast', parse_operand('const ' + m.group(1).strip()), m.group(2).strip(), m.group(3))
    # aggregates
    if s.startswith('('):
        j = _match_close(s, 0)
        if j == len(s) - 1:
            return ('agg', 'tuple', [parse_operand(a) for a in split_top(s[1:j])])
    if s.startswith('['):
        j = _match_close(s, 0)
        if j == len(s) - 1:
            inner = s[1:j]
            parts = split_top(inner, ';')
            if len(parts) == 2:
                return ('repeat', parse_operand(parts[0]), parts[1])
            return ('agg', 'array', [parse_operand(a) for a in split_top(inner)])
    if s.startswith('{closure@') or s.startswith('{coroutine@'):
        j = _match_close(s, 0)
        rest = s[j + 1:].strip()
        ops = []
        if rest.startswith('('):
            ops = [parse_operand(a) for a in split_top(rest[1:_match_close(rest, 0)])]
        elif rest.startswith('{'):
            # captured variables, printed by name in capture order
            for a in split_top(rest[1:_match_close(rest, 0)]):
                m = re.match(r'^(\w+)\s*:\s*(.*)$', a, re.S)
                ops.append(parse_operand(m.group(2) if m else a))
        return ('agg', 'closure', s[:j + 1], ops)
    # Adt: Path::Variant(a, b) | Path { f: a } | Path::Unit
    if s.endswith(')'):
        # find the '(' that matches the final ')'
        k = _find_open_for_last(s, '(', ')')
        if k is not None and k > 0:
            head = s[:k].strip()
            return ('agg', 'adt', head, [parse_operand(a) for a in split_top(s[k + 1:-1])])
    if s.endswith('}'):
        k = _find_open_for_last(s, '{', '}')
        if k is not None and k > 0:
            head = s[:k].strip()
            fields = []
            for a in split_top(s[k + 1:-1]):
                m = re.match(r'^(\w+)\s*:\s*(.*)$', a, re.S)
                if not m:
                    raise MirSyntaxError('bad struct field %r in %r' % (a, s))
                fields.append((m.group(1), parse_operand(m.group(2))))
            return ('agg', 'struct', head, fields)
    if re.match(r'^[A-Za-z_<]', s) and ' = ' not in s:
        return ('agg', 'adt', s, [])
    raise MirSyntaxError('bad rvalue %r' % s)


def _balanced(s):
    d = 0
    for c in s:
        if c in '([{':
            d += 1
        elif c in ')]}':
            d -= 1
            if d < 0:
                return False
    return d == 0


def _find_open_for_last(s, op, cl):
    depth = 0
    i = len(s) - 1
    # naive reverse scan; string literals inside aggregates are always operands
    # `const "..."` and may contain brackets - handle by forward scan instead
    stack = []
    j = 0
    n = len(s)
    last_open = None
    while j < n:
        c = s[j]
        if c == '"':
            j = _skip_string(s, j)
            continue
        if c == "'" and j + 2 < n:
            if s[j + 1] == '\\':
                q = s.find("'", j + 2)
                if q != -1 and q - j <= 12:
                    j = q + 1
                    continue
            elif s[j + 2] == "'":
                j += 3
                continue
        if c in '([{':
            stack.append((c, j))
        elif c in ')]}':
            if not stack:
                return None
            o, pos = stack.pop()
            if j == n - 1:
                return pos if o == op else None
        j += 1
    return None


# --------------------------------------------------------------------------
# statements / terminators

_targets_re = re.compile(r'->\s*(\[.*\]|unwind\s+\w+|bb\d+)\s*$', re.S)


def _parse_targets(t):
    """'[return: bb3, unwind continue]' -> dict"""
    t = t.strip()
    d = {}
    if t.startswith('['):
        for part in split_top(t[1:-1]):
            if ':' in part:
                k, v = part.split(':', 1)
                d[k.strip()] = v.strip()
            else:
                k, v = part.split(None, 1)
                d[k.strip()] = v.strip()
    elif t.startswith('unwind'):
        d['unwind'] = t.split(None, 1)[1]
    else:
        d['return'] = t
    return d


def _bb(s):
    if s is None:
        return None
    m = re.fullmatch(r'bb(\d+)', s.strip())
    return int(m.group(1)) if m else None


def parse_statement(line):
    """returns ('stmt', Stmt) or ('term', Term)"""
    s = line.strip()
    if s.endswith(';'):
        s = s[:-1].rstrip()
    if s == 'return':
        return 'term', ('return',)
    if s == 'unreachable':
        return 'term', ('unreachable',)
    if s in ('resume', 'abort', 'terminate(cleanup)', 'terminate(abi)') or s.startswith('terminate'):
        return 'term', ('resume',)
    if s == 'nop' or s.startswith('StorageLive(') or s.startswith('StorageDead(') \
            or s.startswith('FakeRead(') or s.startswith('Retag(') or s.startswith('PlaceMention(') \
            or s.startswith('AscribeUserType(') or s.startswith('Coverage::') or s.startswith('ConstEvalCounter') \
            or s.startswith('Deinit(') or s.startswith('BackwardIncompatibleDropHint('):
        return 'stmt', ('nop',)
    if s.startswith('goto -> '):
        return 'term', ('goto', _bb(s[8:]))
    if s.startswith('switchInt('):
        j = _match_close(s, len('switchInt'))
        op = parse_operand(s[len('switchInt('):j])
        m = re.match(r'\s*->\s*\[(.*)\]$', s[j + 1:], re.S)
        cases = []
        otherwise = None
        for part in split_top(m.group(1)):
            k, v = part.rsplit(':', 1)
            k = k.strip()
            if k == 'otherwise':
                otherwise = _bb(v)
            else:
                cases.append((int(k), _bb(v)))
        return 'term', ('switch', op, cases, otherwise)
    if s.startswith('drop('):
        j = _match_close(s, 4)
        pl = parse_place(s[5:j])
        tg = _parse_targets(s[j + 1:].strip()[2:])
        return 'term', ('drop', pl, _bb(tg.get('return')))
    if s.startswith('assert('):
        j = _match_close(s, 6)
        args = split_top(s[7:j])
        c = args[0]
        expected = True
        if c.startswith('!'):
            expected = False
            c = c[1:]
        tg = _parse_targets(s[j + 1:].strip()[2:])
        return 'term', ('assert', parse_operand(c), expected, args[1] if len(args) > 1 else '', _bb(tg.get('success')))
    if s.startswith('discriminant('):
        j = _match_close(s, len('discriminant'))
        rest = s[j + 1:].strip()
        if rest.startswith('='):
            return 'stmt', ('setdisc', parse_place(s[len('discriminant('):j]), int(rest[1:].strip()))
    # assignment or call
    eq = _find_assign_eq(s)
    if eq is None:
        # call without destination?  e.g. `_0 = ...` always has one; diverging
        raise MirSyntaxError('unrecognised statement %r' % s)
    lhs = s[:eq].strip()
    rhs = s[eq + 1:].strip()
    m = _targets_re.search(rhs)
    if m and _looks_like_call(rhs[:m.start()].rstrip()):
        callpart = rhs[:m.start()].rstrip()
        k = _find_open_for_last(callpart, '(', ')')
        callee = callpart[:k].strip()
        args = [parse_operand(a) for a in split_top(callpart[k + 1:-1])]
        tg = _parse_targets(m.group(1))
        return 'term', ('call', parse_place(lhs), callee, args, _bb(tg.get('return')))
    return 'stmt', ('assign', parse_place(lhs), parse_rvalue(rhs))


def _looks_like_call(s):
    return s.endswith(')') and _find_open_for_last(s, '(', ')') not in (None, 0)


def _find_assign_eq(s):
    depth = 0
    i = 0
    n = len(s)
    while i < n:
        c = s[i]
        if c in '([{':
            depth += 1
        elif c in ')]}':
            depth -= 1
        elif c == '=' and depth == 0:
            if s[i - 1] == ' ' and i + 1 < n and s[i + 1] == ' ':
                return i
        elif c == '"':
            return None
        i += 1
    return None


# --------------------------------------------------------------------------
# whole file

_fn_head = re.compile(r'^fn (.+?)\((.*)\)(?: -> (.+?))? \{$')
_const_head = re.compile(r'^(?:const|static|static mut) (.+?): (.+?) = \{$')
_promoted_head = re.compile(r'^const (.+::promoted\[\d+\]): (.+?) = \{$')
_let_re = re.compile(r'^\s*let (?:mut )?_(\d+): (.+);$')
_bb_head = re.compile(r'^\s*bb(\d+)(?: \(cleanup\))?: \{$')


def parse_file(path):
    """returns list of Function"""
    fns = []
    cur = None
    curbb = None
    pending = None   # multi-line statement accumulator
    with open(path, encoding='utf-8', errors='replace') as fh:
        for raw in fh:
            line = raw.rstrip('\n')
            if cur is None:
                if line.startswith('fn '):
                    m = _fn_head.match(line)
                    if not m:
                        raise MirSyntaxError('bad fn header %r' % line[:200])
                    cur = Function(m.group(1), 'fn')
                    for a in split_top(m.group(2)):
                        am = re.match(r'^_(\d+): (.*)$', a, re.S)
                        if am:
                            cur.args.append((int(am.group(1)), am.group(2)))
                            cur.locals[int(am.group(1))] = am.group(2)
                    cur.ret = m.group(3) or '()'
                    continue
                am = re.match(r'^(alloc\d+) \(static: ([^,]+),', line)
                if am:
                    # `const {alloc7: &T}` refers to this static; its initialiser has a MIR body of its own
                    f = Function('@alloc:' + am.group(1), 'const')
                    f.literal = 'static:' + am.group(2)
                    fns.append(f)
                    continue
                if line.startswith('const ') or line.startswith('static '):
                    m = _promoted_head.match(line) or _const_head.match(line)
                    if m:
                        cur = Function(m.group(1), 'const')
                        cur.ret = m.group(2)
                        continue
                    # `const WIDTH: usize = const 256_usize;` - a literal constant is printed on one line
                    m = re.match(r'^(?:const|static) (.+?): (.+?) = const (.+);$', line)
                    if m:
                        f = Function(m.group(1), 'const')
                        f.ret = m.group(2)
                        f.literal = m.group(3)
                        fns.append(f)
                    continue
                continue
            # inside an item
            if line == '}':
                fns.append(cur)
                cur = None
                curbb = None
                continue
            if curbb is None:
                m = _let_re.match(line)
                if m:
                    cur.locals[int(m.group(1))] = m.group(2)
                    continue
                m = _bb_head.match(line)
                if m:
                    curbb = int(m.group(1))
                    cur.blocks[curbb] = {'stmts': [], 'term': None, 'cleanup': '(cleanup)' in line}
                continue
            st = line.strip()
            if st == '}' and pending is None:
                curbb = None
                continue
            if not st:
                continue
            if pending is not None:
                pending += ' ' + st
            else:
                pending = st
            if not pending.endswith(';'):
                continue
            text, pending = pending, None
            blk = cur.blocks[curbb]
            if blk['cleanup']:
                continue          # never entered: a panic ends the path
            try:
                kind, val = parse_statement(text)
            except MirSyntaxError as e:
                # keep the damage local: executing this statement is Unsupported, everything else still works
                if _targets_re.search(text.rstrip(';')) or text.startswith(('goto', 'switchInt', 'return', 'unreachable', 'resume')):
                    kind, val = 'term', ('unparsed', text, str(e))
                else:
                    kind, val = 'stmt', ('unparsed', text, str(e))
            if kind == 'stmt':
                if val[0] != 'nop':
                    blk['stmts'].append(val)
            else:
                blk['term'] = val
    return fns
