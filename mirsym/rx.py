"""A small regular-expression semantics for the template patterns, so that
`Regex::is_match` on a *simple* pattern is an interpreted predicate (needed to
decide what the optimiser's `rewrite` pass does to a pattern).  Anything outside
the subset stays an uninterpreted predicate.

Subset: literals, escaped literals, `.`, `*` `+` `?` (and their lazy forms,
which accept the same language), `|`, `( )`, `(?: )`, `^`, `$`.
Semantics: unanchored search (regex crate `is_match`), `.` = any byte but
\\n, case-insensitive = ASCII folding (haystacks are ASCII-bounded).
The model is validated against the real regex crate through the bridge
(`regex` command) on all short strings by the checks that rely on it.
"""
import z3
from .vals import b_and, b_or, b_not
from . import strings as S


class RxUnsupported(Exception):
    pass


# ---- parser -> AST -------------------------------------------------------
# ('lit', byte) ('any',) ('cat', [..]) ('alt', [..]) ('star', x) ('plus', x) ('opt', x) ('bol',) ('eol',) ('empty',)

def parse(pat):
    if isinstance(pat, str):
        pat = pat.encode()
    if any(b >= 0x80 for b in pat):
        raise RxUnsupported('non-ASCII pattern')
    pos = [0]

    def peek():
        return pat[pos[0]] if pos[0] < len(pat) else None

    def alt():
        branches = [cat()]
        while peek() == ord('|'):
            pos[0] += 1
            branches.append(cat())
        return branches[0] if len(branches) == 1 else ('alt', branches)

    def cat():
        items = []
        while peek() is not None and peek() not in (ord('|'), ord(')')):
            items.append(rep())
        if not items:
            return ('empty',)
        return items[0] if len(items) == 1 else ('cat', items)

    def rep():
        a = atom()
        while peek() in (ord('*'), ord('+'), ord('?')):
            c = peek()
            pos[0] += 1
            if peek() == ord('?'):
                pos[0] += 1          # lazy: same language
            if a[0] in ('bol', 'eol'):
                raise RxUnsupported('quantified anchor')
            a = ({ord('*'): 'star', ord('+'): 'plus', ord('?'): 'opt'}[c], a)
        if peek() == ord('{'):
            raise RxUnsupported('counted repetition')
        return a

    def atom():
        c = peek()
        pos[0] += 1
        if c == ord('('):
            if pat[pos[0]:pos[0] + 2] == b'?:':
                pos[0] += 2
            elif peek() == ord('?'):
                raise RxUnsupported('group flags')
            a = alt()
            if peek() != ord(')'):
                raise RxUnsupported('unbalanced group')
            pos[0] += 1
            return a
        if c == ord('.'):
            return ('any',)
        if c == ord('^'):
            return ('bol',)
        if c == ord('$'):
            return ('eol',)
        if c == ord('\\'):
            d = peek()
            pos[0] += 1
            if d == ord('d'):
                return ('set', frozenset(range(0x30, 0x3a)))
            if d is None or chr(d).isalnum():
                raise RxUnsupported('escape class')
            return ('lit', d)
        if c == ord('['):
            items = set()
            if peek() == ord('^'):
                raise RxUnsupported('negated class')
            while peek() is not None and peek() != ord(']'):
                a = peek()
                pos[0] += 1
                if a == ord('\\'):
                    a = peek()
                    pos[0] += 1
                if peek() == ord('-') and pos[0] + 1 < len(pat) and pat[pos[0] + 1] != ord(']'):
                    pos[0] += 1
                    b = peek()
                    pos[0] += 1
                    items.update(range(a, b + 1))
                else:
                    items.add(a)
            if peek() != ord(']'):
                raise RxUnsupported('unterminated class')
            pos[0] += 1
            return ('set', frozenset(items))
        if c in (ord('['), ord('{'), ord('}'), ord(']'), ord('*'), ord('+'), ord('?'), ord(')')) or c is None:
            raise RxUnsupported('syntax %r' % (chr(c) if c else None))
        return ('lit', c)

    a = alt()
    if pos[0] != len(pat):
        raise RxUnsupported('trailing %r' % pat[pos[0]:])
    return a


# ---- Thompson NFA -----------------------------------------------------------

class NFA:
    def __init__(self):
        self.eps = {}       # state -> [(kind, target)]  kind: None | 'bol' | 'eol'
        self.step = {}      # state -> [(byte or None(any), target)]
        self.n = 0

    def new(self):
        self.n += 1
        return self.n - 1

    def add_eps(self, a, b, kind=None):
        self.eps.setdefault(a, []).append((kind, b))

    def add_step(self, a, byte, b):
        self.step.setdefault(a, []).append((byte, b))


def build(ast, nfa):
    t = ast[0]
    s, e = nfa.new(), nfa.new()
    if t == 'lit':
        nfa.add_step(s, ast[1], e)
    elif t == 'set':
        nfa.add_step(s, ast[1], e)
    elif t == 'any':
        nfa.add_step(s, None, e)
    elif t == 'empty':
        nfa.add_eps(s, e)
    elif t in ('bol', 'eol'):
        nfa.add_eps(s, e, t)
    elif t == 'cat':
        cur = s
        for x in ast[1]:
            xs, xe = build(x, nfa)
            nfa.add_eps(cur, xs)
            cur = xe
        nfa.add_eps(cur, e)
    elif t == 'alt':
        for x in ast[1]:
            xs, xe = build(x, nfa)
            nfa.add_eps(s, xs)
            nfa.add_eps(xe, e)
    elif t in ('star', 'plus', 'opt'):
        xs, xe = build(ast[1], nfa)
        nfa.add_eps(s, xs)
        nfa.add_eps(xe, e)
        if t in ('star', 'opt'):
            nfa.add_eps(s, e)
        if t in ('star', 'plus'):
            nfa.add_eps(xe, xs)
    else:
        raise RxUnsupported(t)
    return s, e


def compile_rx(pat):
    nfa = NFA()
    s, e = build(parse(pat), nfa)
    return nfa, s, e


def is_match(pat, insensitive, hay):
    """symbolic `Regex::is_match` -> python bool / z3 Bool"""
    nfa, start, final = compile_rx(pat)
    bs, ln, cap = S.parts(hay)

    def at_len(p):
        if isinstance(ln, int):
            return ln == p
        return ln == z3.BitVecVal(p, 64)

    def lt_len(p):
        if isinstance(ln, int):
            return p < ln
        return z3.UGT(ln, z3.BitVecVal(p, 64))

    def le_len(p):
        if isinstance(ln, int):
            return p <= ln
        return z3.UGE(ln, z3.BitVecVal(p, 64))

    def closure(active, p):
        """epsilon closure at position p; assertions met on the way become
        conditions (`^`: p == 0, `$`: p == len)"""
        out = {}
        for st, c in active.items():
            seen = set()
            stack = [(st, False)]
            while stack:
                x, need_eol = stack.pop()
                if (x, need_eol) in seen:
                    continue
                seen.add((x, need_eol))
                cond = b_and(c, at_len(p)) if need_eol else c
                if cond is not False:
                    out[x] = b_or(out.get(x, False), cond)
                for kind, t in nfa.eps.get(x, []):
                    if kind == 'bol' and p != 0:
                        continue
                    stack.append((t, need_eol or kind == 'eol'))
        return out

    def char_ok(byte, b):
        if byte is None:
            return b_not(S._eqb(b, 0x0a))
        if isinstance(byte, frozenset):
            return b_or(*[S._eqb(b, x, fold=insensitive) for x in sorted(byte)])
        return S._eqb(b, byte, fold=insensitive)

    matched = False
    active = {}
    for p in range(cap + 1):
        # unanchored search: a match may start at any position <= len
        active[start] = b_or(active.get(start, False), le_len(p))
        active = closure(active, p)
        matched = b_or(matched, b_and(active.get(final, False), le_len(p)))
        if p == cap:
            break
        nxt = {}
        for st, c in active.items():
            for byte, t in nfa.step.get(st, []):
                c2 = b_and(c, lt_len(p), char_ok(byte, bs[p]))
                if c2 is not False:
                    nxt[t] = b_or(nxt.get(t, False), c2)
        active = nxt
    return matched


def _same(a, b):
    if isinstance(a, bool) or isinstance(b, bool):
        return a is b
    return a.eq(b)


def match_concrete(pat, insensitive, hay):
    r = is_match(pat, insensitive, bytes(hay))
    if isinstance(r, bool):
        return r
    r = z3.simplify(r)
    return z3.is_true(r)
