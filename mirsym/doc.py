"""The symbolic document (DESIGN 2.4).

A document is a map from the keys the engine asks for to symbolic cells.  A
cell is {present, kind, b, f, i, u, s, arr, obj}; arrays have a symbolic
length <= A and A element cells; objects are documents themselves (lazily
keyed).  Every symbolic variable gets a stable name derived from its path in
the document so that a z3 model can be rendered back into JSON for replay.
"""
import z3
from .vals import *
from . import strings as S

VALUE_VARIANTS = ['Null', 'Bool', 'Float', 'Int', 'UInt', 'String', 'Array', 'Object']
K_NULL, K_BOOL, K_FLOAT, K_INT, K_UINT, K_STRING, K_ARRAY, K_OBJECT = range(8)


class Bounds:
    def __init__(self, str_cap=4, arr_cap=2, depth=2, ascii_only=True, kinds=None, names=None, as_object=False, utf8=0):
        self.names = names
        self.as_object = as_object
        self.str_cap = str_cap
        self.arr_cap = arr_cap
        self.depth = depth
        self.ascii_only = ascii_only
        self.utf8 = utf8        # > 0: string cells are well-formed UTF-8 with characters of up to that many bytes
        self.kinds = kinds      # None = all eight


class Cell:
    """one symbolic Value (without presence)"""
    persistent = True

    def __init__(self, uni, path, bounds, depth):
        self.uni = uni
        self.path = path
        self.bounds = bounds
        self.depth = depth
        self.oid = next_oid()
        n = path
        self.kind = z3.BitVec(n + '.kind', 64)
        kinds = list(range(8)) if bounds.kinds is None else list(bounds.kinds)
        if depth <= 0:
            kinds = [k for k in kinds if k not in (K_ARRAY, K_OBJECT)]
        self.kinds = kinds
        uni.axioms.append(z3.Or(*[self.kind == k for k in kinds]))
        self.b = z3.Bool(n + '.b')
        self.f = z3.FP(n + '.f', z3.Float64())
        self.i = z3.BitVec(n + '.i', 64)
        self.u = z3.BitVec(n + '.u', 64)
        self._s = None
        self._arr = None
        self._obj = None
        self._value = None

    @property
    def s(self):
        if self._s is None:
            if getattr(self.bounds, 'utf8', 0):
                from .models_chars import fresh_utf8
                self._s = fresh_utf8(self.path + '.s', self.bounds.str_cap, self.uni, max_width=self.bounds.utf8)
            else:
                self._s = S.fresh(self.path + '.s', self.bounds.str_cap, self.uni.axioms,
                                  ascii_only=self.bounds.ascii_only)
        return self._s

    @property
    def arr(self):
        if self._arr is None:
            self._arr = SymArray(self.uni, self.path + '.a', self.bounds, self.depth - 1)
        return self._arr

    @property
    def obj(self):
        if self._obj is None:
            self._obj = SymDoc(self.uni, self.path + '.o', self.bounds, self.depth - 1)
        return self._obj

    def value(self):
        """the tau_engine::Value this cell denotes, as a SymEnum"""
        if self._value is None:
            payload = {
                K_BOOL: PCont([self.b]),
                K_FLOAT: PCont([FP(self.f)]),
                K_INT: PCont([BV(self.i, 'i64')]),
                K_UINT: PCont([BV(self.u, 'u64')]),
            }
            if K_STRING in self.kinds:
                payload[K_STRING] = PCont([Adt('Cow', 0, 'Borrowed', [StrV(self.s)])])
            if K_ARRAY in self.kinds:
                payload[K_ARRAY] = PCont([Ref(PCont([self.arr]), 0)])
            if K_OBJECT in self.kinds:
                payload[K_OBJECT] = PCont([Ref(PCont([self.obj]), 0)])
            v = SymEnum('Value', self.kind, payload)
            self._value = v
        return self._value

    # rendering --------------------------------------------------------
    def render(self, model):
        k = model.eval(self.kind, model_completion=True).as_long()
        if k == K_NULL:
            return None
        if k == K_BOOL:
            return z3.is_true(model.eval(self.b, model_completion=True))
        if k == K_FLOAT:
            return {'$f64': fp_bits(model, self.f)}
        if k == K_INT:
            return {'$i64': norm_int(model.eval(self.i, model_completion=True).as_long(), 'i64')}
        if k == K_UINT:
            return {'$u64': model.eval(self.u, model_completion=True).as_long()}
        if k == K_STRING:
            return {'$str': list(S.model_bytes(model, self.s))}
        if k == K_ARRAY:
            return self.arr.render(model)
        if k == K_OBJECT:
            return self.obj.render(model)
        raise ValueError(k)


def fp_bits(model, f):
    fv = model.eval(f, model_completion=True)
    try:
        if fv.isNaN():
            return 0x7ff8000000000000      # fpToIEEEBV leaves the bit pattern of NaN unspecified
    except AttributeError:
        pass
    v = model.eval(z3.fpToIEEEBV(f), model_completion=True)
    return v.as_long()


class CellRef:
    """a `V: AsValue` stored in a user container: as_value() gives the cell's Value"""
    persistent = True

    def __init__(self, cell):
        self.cell = cell
        self.oid = next_oid()


class SymArray:
    persistent = True

    def __init__(self, uni, path, bounds, depth):
        self.uni = uni
        self.path = path
        self.oid = next_oid()
        self.length = z3.BitVec(path + '.len', 64)
        self.cap = bounds.arr_cap
        uni.axioms.append(z3.ULE(self.length, self.cap))
        self.elems = [Cell(uni, '%s[%d]' % (path, i), bounds, depth) for i in range(self.cap)]

    def render(self, model):
        n = model.eval(self.length, model_completion=True).as_long()
        return [self.elems[i].render(model) for i in range(n)]


class SymDoc:
    """user document / nested object: `find(key)` is a cell per distinct key"""
    persistent = True

    def __init__(self, uni, path, bounds, depth=None):
        self.uni = uni
        self.path = path
        self.bounds = bounds
        self.depth = bounds.depth if depth is None else depth
        self.oid = next_oid()
        self.cells = {}     # key(bytes) -> (present Bool, Cell)
        self.requests = []
        if bounds.names is not None:
            self.names = list(bounds.names)
        self.as_object = bounds.as_object

    def lookup(self, key):
        ent = self.cells.get(key)
        if ent is None:
            kname = key.decode('utf-8', 'replace')
            p = '%s/%s' % (self.path, kname)
            present = z3.Bool(p + '.present')
            cell = Cell(self.uni, p, self.bounds, self.depth)
            ent = (present, cell)
            self.cells[key] = ent
            if getattr(self, '_len', None) is not None:
                self.uni.axioms.append(z3.Implies(present, self._len != 0))
        return ent

    def length(self):
        """Object::len(): the number of keys, of which the addressed ones are only some: an unknown count that is
        non-zero when an addressed key is present (witnesses are padded with unaddressed keys up to it)"""
        if getattr(self, '_len', None) is None:
            self._len = z3.BitVec(self.path + '.nkeys', 64)
            self.uni.axioms.append(z3.ULE(self._len, 4))
            for present, _cell in self.cells.values():
                self.uni.axioms.append(z3.Implies(present, self._len != 0))
        return self._len

    def find_value(self, key):
        """Option<Value> as a SymEnum"""
        present, cell = self.lookup(key)
        opt = self.uni.memo.get(('opt', id(cell)))
        if opt is None:
            pl = PCont([cell.value()])
            opt = SymEnum('Option', z3.If(present, z3.BitVecVal(1, 64), z3.BitVecVal(0, 64)), {1: pl})
            self.uni.memo[('opt', id(cell))] = opt
        return opt

    def hashmap_get(self, ex, key):
        """the document seen as a std HashMap<String, V> (V: AsValue): get(key) -> Option<&V>"""
        if not isinstance(key, (bytes, bytearray)):
            raise ValueError('symbolic key')
        present, cell = self.lookup(bytes(key))
        ex.run.events.append(('get', self.path, bytes(key)))
        if ex.branch(present):
            return Adt('Option', 1, 'Some', [Ref(PCont([CellRef(cell)]), 0)])
        return Adt('Option', 0, 'None', [])

    def get_symbolic(self, ex, key):
        """Object::get with a symbolic key: the object has the field names in
        `self.names` (each present or absent); any other key is absent"""
        from . import strings as S
        names = getattr(self, 'names', None)
        if names is None:
            raise ValueError('symbolic key lookup on a document without a name universe')
        conds = [S.s_eq(key, n) for n in names]
        conds.append(b_not(b_or(*conds)))
        k = ex.decide(conds)
        if k == len(names):
            return Adt('Option', 0, 'None', [])
        ex.run.events.append(('get', self.path, names[k]))
        return self.find_value(names[k])

    def render(self, model):
        out = []
        for key, (present, cell) in self.cells.items():
            if z3.is_true(model.eval(present, model_completion=True)):
                out.append([list(key), cell.render(model)])
        if getattr(self, '_len', None) is not None:
            n = model.eval(self._len, model_completion=True).as_long()
            i = 0
            while len(out) < n:
                out.append([list(b'~unaddressed%d' % i), None])
                i += 1
        return {'$obj': out}


class ConcArray:
    """concrete array of a replay / example document"""
    persistent = True

    def __init__(self, items):
        self.items = items
        self.oid = next_oid()

    def array_iter(self, ex):
        from .models_std import IterV
        return BoxV([IterV('owned', VecV([conc_value(x) for x in self.items]))])


class ConcDoc:
    """concrete document (bridge JSON encoding); implements Object: `get` is an exact name lookup, dotted / indexed
    keys go through the real Object::find MIR"""
    persistent = True
    as_object = True

    def __init__(self, fields, path='doc'):
        self.fields = {bytes(k): v for k, v in fields}
        self.path = path
        self.oid = next_oid()

    def find_value(self, key):
        v = self.fields.get(bytes(key))
        if v is None and bytes(key) not in self.fields:
            return Adt('Option', 0, 'None', [])
        return Adt('Option', 1, 'Some', [conc_value(v, self.path + '/' + bytes(key).decode('utf-8', 'replace'))])

    def lookup(self, key):
        raise ValueError('concrete document')


def conc_value(j, path='v'):
    import struct
    V = lambda name, items: Adt('Value', VALUE_VARIANTS.index(name), name, items)
    if j is None:
        return V('Null', [])
    if isinstance(j, bool):
        return V('Bool', [j])
    if isinstance(j, list):
        return V('Array', [Ref(PCont([ConcArray(j)]), 0)])
    if isinstance(j, dict):
        if '$f64' in j:
            return V('Float', [FP(struct.unpack('<d', struct.pack('<Q', j['$f64']))[0])])
        if '$i64' in j:
            return V('Int', [mk_int(j['$i64'], 'i64')])
        if '$u64' in j:
            return V('UInt', [mk_int(j['$u64'], 'u64')])
        if '$str' in j:
            return V('String', [Adt('Cow', 0, 'Borrowed', [StrV(bytes(j['$str']))])])
        if '$obj' in j:
            return V('Object', [Ref(PCont([ConcDoc(j['$obj'], path + '.o')]), 0)])
    raise ValueError('bad value %r' % (j,))
