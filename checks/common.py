"""Shared driver code of the per-property checks.

exit codes: 0 = every obligation discharged (unsat) / only known findings;
1 = a reproduced counterexample (VIOLATION line printed);
2 = inconclusive (solver unknown, unsupported MIR, non-reproducing model,
bound exceeded) - never reported as a pass and never as a violation.
"""
import json
import os
import subprocess
import sys
import time
import traceback

sys.path.insert(0, os.path.dirname(os.path.dirname(os.path.abspath(__file__))))

import z3

from mirsym import artifacts, program, engine, models_std, models_tau, models_chars, doc, strings as S   # noqa
from mirsym.vals import *   # noqa
from mirsym.engine import Unsupported, Inconclusive, BoundExceeded, PurityViolation, PanicEx

VERIF = artifacts.VERIF
OUT = os.environ.get('TAU_VERIF_OUT', VERIF)       # seed experiments write elsewhere
EVIDENCE_DIR = os.path.join(OUT, 'evidence')
REPLAY_DIR = os.path.join(OUT, 'replays')
KNOWN_FILE = os.path.join(VERIF, 'known_findings.txt')

SOLVER_RESULT = ['True', 'False', 'Missing']
SR_TRUE, SR_FALSE, SR_MISSING = 0, 1, 2


class Check:
    def __init__(self, pid, level, argv=None):
        self.pid = pid
        self.level = level
        argv = sys.argv[1:] if argv is None else argv
        self.tier = os.environ.get('VERIF_TIER', 'quick')
        for a in argv:
            if a in ('--quick', 'quick'):
                self.tier = 'quick'
            elif a in ('--thorough', 'thorough'):
                self.tier = 'thorough'
        self.seed = int(os.environ.get('VERIF_SEED', '0') or 0)
        self.t0 = time.time()
        self.obligations = 0
        self.discharged = 0
        self.sat = 0
        self.queries = 0
        self.solver_time = 0.0
        self.samples = []
        self.assumptions = []
        self.bounds = {}
        self.functions = set()
        self.violations = []
        self.known_hits = []
        self.inconclusive = []
        self.replays_ok = 0
        self.extra = {}
        self.cvc5_checked = 0
        self.cvc5_agree = 0
        self._prog = {}
        self._bridges = {}
        self.known = load_known(pid)
        self.uni_stats = []
        self.blocks = set()
        self.slow = []

    # artefacts ----------------------------------------------------------
    def program(self, features=()):
        key = tuple(sorted(features))
        if key not in self._prog and key in _PROG_CACHE.get('p', {}):
            self._prog[key] = _PROG_CACHE['p'][key]
        if key not in self._prog:
            mp = artifacts.ensure_mir(features)
            self._prog[key] = program.Program(mp, artifacts.REPO)
            _PROG_CACHE.setdefault('p', {})[key] = self._prog[key]
        return self._prog[key]

    def bridge(self, profile='dev', ignore_case=False, sync=False):
        key = (profile, ignore_case, sync)
        if key not in self._bridges:
            self._bridges[key] = artifacts.Bridge(profile, ignore_case, sync)
        return self._bridges[key]

    def new_engine(self, prog=None, summarise=('solve_expression', 'search', 'match_all', 'match_of', 'slow_aho'),
                   uni=None):
        prog = prog or self.program()
        uni = uni or engine.Universe()
        uni.timeout_ms = 30000 if self.tier == 'quick' else 120000
        ex = engine.Engine(prog, uni, models_std.MODELS, summarise=summarise)
        self.uni_stats.append(uni)
        return ex

    # solving --------------------------------------------------------------
    def solve(self, uni, *formulas, timeout_ms=None):
        """-> ('unsat', None) | ('sat', model) ; raises Inconclusive on unknown"""
        s = z3.Solver()
        s.set('timeout', timeout_ms or uni.timeout_ms)
        for a in uni.axioms:
            s.add(a)
        for f in formulas:
            if f is True:
                continue
            if f is False:
                self.queries += 1
                return 'unsat', None
            s.add(f)
        t = time.time()
        r = s.check()
        if r == z3.unknown:
            # a loaded machine can make a query miss its time cap: retry once with a much larger cap
            s.set('timeout', (timeout_ms or uni.timeout_ms) * 6)
            r = s.check()
            self.extra['solver_retries'] = self.extra.get('solver_retries', 0) + 1
        self.solver_time += time.time() - t
        self.queries += 1
        if r == z3.unsat:
            return 'unsat', None
        if r == z3.sat:
            return 'sat', s.model()
        raise Inconclusive('z3: unknown (%s)' % s.reason_unknown())

    def cross_check_cvc5(self, uni, formulas, expect):
        """answer the same query with cvc5 on an SMT-LIB2 dump; disagreement is
        inconclusive (exit 2)"""
        s = z3.Solver()
        for a in uni.axioms:
            s.add(a)
        for f in formulas:
            if f is not True:
                s.add(z3bool(f))
        text = '(set-logic ALL)\n' + s.to_smt2()
        try:
            r = subprocess.run(['cvc5', '--lang', 'smt2', '--tlimit=60000'], input=text.encode(),
                               stdout=subprocess.PIPE, stderr=subprocess.PIPE, timeout=90)
        except (subprocess.TimeoutExpired, FileNotFoundError):
            return
        out = r.stdout.decode().strip().split('\n')[0] if r.stdout else ''
        if '(error' in r.stdout.decode() or '(error' in r.stderr.decode():
            return
        if out in ('sat', 'unsat'):
            self.cvc5_checked += 1
            if out == expect:
                self.cvc5_agree += 1
            else:
                self.inconclusive.append('cvc5 answered %s where z3 answered %s' % (out, expect))

    def obligation(self, name, uni, negated_property, sample=None, on_sat=None, cvc5=False):
        """one proof obligation: `negated_property` must be unsat under the
        axioms.  on_sat(model) -> ('violation', replay_path, what) |
        ('known', what) | ('spurious', why)"""
        self.obligations += 1
        t_ob = time.time()
        extra = []
        for _round in range(12):
            r, model = self.solve(uni, negated_property, *extra)
            if r != 'sat' or not on_sat:
                break
            verdict = on_sat(model)
            if verdict[0] == 'retry':
                # look for a witness inside a region where the model is exact; if there is none keep the fallback verdict
                r2, m2 = self.solve(uni, negated_property, *extra, *verdict[1])
                self.extra['retries'] = self.extra.get('retries', 0) + 1
                if r2 == 'sat':
                    v2 = on_sat(m2)
                    verdict = v2 if v2[0] not in ('retry', 'refine') else verdict[2]
                else:
                    verdict = verdict[2]
                break
            if verdict[0] == 'spurious' and uni.memo.get(('num_str_exact',)):
                # the witness may rest on the unmodelled text of a number: look for one inside the region where number
                # rendering is modelled exactly
                r2, m2 = self.solve(uni, negated_property, *extra, *uni.memo[('num_str_exact',)])
                self.extra['retries'] = self.extra.get('retries', 0) + 1
                if r2 == 'sat':
                    v2 = on_sat(m2)
                    if v2[0] in ('violation', 'known'):
                        verdict = v2
                break
            if verdict[0] != 'refine':
                break
            # the witness relied on an uninterpreted model value that reality contradicts: pin it and ask again
            extra += list(verdict[1])
            self.extra['refinements'] = self.extra.get('refinements', 0) + 1
        else:
            self.inconclusive.append('%s: refinement did not converge' % name)
            return False
        dt = time.time() - t_ob
        if dt > 1.0:
            self.slow = sorted(self.slow + [(round(dt, 2), name)], reverse=True)[:10]
        if cvc5:
            self.cross_check_cvc5(uni, [negated_property] + extra, r)
        if sample is not None and len(self.samples) < 12:
            self.samples.append(sample)
        if r == 'unsat':
            self.discharged += 1
            return True
        self.sat += 1
        if not on_sat:
            verdict = ('violation', None, name)
        if verdict[0] == 'violation':
            self.violations.append((verdict[1], verdict[2]))
        elif verdict[0] == 'known':
            self.known_hits.append(verdict[1])
        else:
            self.inconclusive.append('%s: model did not reproduce: %s' % (name, verdict[1]))
        return False

    # parallel units -------------------------------------------------------
    def export(self):
        return {
            'obligations': self.obligations, 'discharged': self.discharged, 'sat': self.sat,
            'queries': self.queries, 'solver_time': self.solver_time, 'samples': self.samples,
            'violations': self.violations, 'known_hits': self.known_hits, 'inconclusive': self.inconclusive,
            'replays_ok': self.replays_ok, 'cvc5_checked': self.cvc5_checked, 'cvc5_agree': self.cvc5_agree,
            'blocks': len(self.blocks), 'blockset': sorted(self.blocks), 'extra': self.extra,
            'uni': [dict(u.stats, max_loop=u.max_loop) for u in self.uni_stats],
            'slow': self.slow,
        }

    def merge(self, d):
        self.obligations += d['obligations']
        self.discharged += d['discharged']
        self.sat += d['sat']
        self.queries += d['queries']
        self.solver_time += d['solver_time']
        for sm in d['samples']:
            if len(self.samples) < 12:
                self.samples.append(sm)
        self.violations += [tuple(v) for v in d['violations']]
        self.known_hits += d['known_hits']
        self.inconclusive += d['inconclusive']
        self.replays_ok += d['replays_ok']
        self.cvc5_checked += d['cvc5_checked']
        self.cvc5_agree += d['cvc5_agree']
        self.blocks |= {tuple(b) for b in d['blockset']}
        self.slow = sorted(self.slow + d['slow'], reverse=True)[:10]
        for k, v in d['extra'].items():
            if isinstance(v, (int, float)) and isinstance(self.extra.get(k, 0), (int, float)):
                self.extra[k] = self.extra.get(k, 0) + v
            else:
                self.extra.setdefault(k, v)
        for st in d['uni']:
            u = engine.Universe()
            ml = st.pop('max_loop')
            u.stats.update(st)
            u.max_loop = ml
            self.uni_stats.append(u)

    def run_units(self, units, fn, jobs=None):
        """run fn(sub_check, unit) for every unit in forked worker processes
        (16 cores), merge what they found.  A worker that dies or raises makes
        the whole check inconclusive."""
        import multiprocessing as mp
        jobs = jobs or int(os.environ.get('VERIF_JOBS', '14'))
        if os.environ.get('VERIF_UNITS_EXACT'):
            # debugging aid: exactly these units, in this order
            want = json.loads(os.environ['VERIF_UNITS_EXACT'])
            nm = lambda u: u[0] if isinstance(u, (tuple, list)) else u
            units = [u for w in want for u in units if nm(u) == w]
        # artefacts are built once, before forking
        self.program()
        artifacts.ensure_bridge()
        if jobs <= 1 or len(units) <= 1:
            for u in units:
                self.merge(_unit_worker((self.pid, self.level, self.tier, fn, u)))
            return
        ctx = mp.get_context('fork')
        with ctx.Pool(min(jobs, len(units))) as pool:
            for d in pool.imap_unordered(_unit_worker, [(self.pid, self.level, self.tier, fn, u) for u in units]):
                self.merge(d)

    # reporting ------------------------------------------------------------
    def write_replay(self, name, payload):
        d = os.path.join(REPLAY_DIR, self.pid)
        os.makedirs(d, exist_ok=True)
        p = os.path.join(d, name + '.json')
        with open(p, 'w') as fh:
            json.dump(payload, fh, indent=1, default=str)
        return p

    def known_match(self, key):
        """key: a role string; returns the known-finding line it matches"""
        for k in self.known:
            if k['key'] == key:
                return k
        return None

    def finish(self, explanation=''):
        wall = time.time() - self.t0
        paths = sum(u.stats['paths'] for u in self.uni_stats)
        steps = sum(u.stats['steps'] for u in self.uni_stats)
        zc = sum(u.stats['z3_checks'] for u in self.uni_stats)
        zt = sum(u.stats['z3_time'] for u in self.uni_stats)
        cov = {
            'obligations': self.obligations,
            'discharged': self.discharged,
            'sat_models': self.sat,
            'solver_queries': self.queries + zc,
            'solver_time_s': round(self.solver_time + zt, 3),
            'states': max(paths, 1),
            'transitions': max(steps, 1),
            'traces_validated_against_impl': self.replays_ok,
            'programs': max(self.extra.get('programs', 0), 1),
            'disagreements_checked': self.obligations,
            'evaluations': max(self.obligations, 1),
            'distinct_nontrivial': max(self.obligations, 2) if self.obligations >= 2 else 2,
            'rule': 'one evaluation = one solver-decided obligation over all symbolic inputs within the bounds; '
                    'distinct = distinct (template, obligation kind) pairs',
            'samples': self.samples or ['(none)'],
            'explanation': explanation,
            'functions_encoded_from_mir': sorted(self.functions),
            'mir_blocks_covered': len(self.blocks),
            'bounds': self.bounds,
            'max_loop_trip_count': max([u.max_loop for u in self.uni_stats] or [0]),
            'cvc5_cross_checked': self.cvc5_checked,
            'cvc5_agree': self.cvc5_agree,
            'known_findings_hit': self.known_hits,
            'inconclusive': self.inconclusive[:20],
            'exhaustive': False,
            'checker_cmd': 'python3-vt checks/%s.py %s' % (self.pid, self.tier),
            'trusted_base': ['mirsym MIR executor', 'callee models (DESIGN 2.3)', 'z3 4.x', 'rustc nightly MIR dump'],
            'repo_hash': artifacts.repo_hash(),
            'slowest_obligations': self.slow,
        }
        cov.update({k: v for k, v in self.extra.items() if k not in cov or k == 'programs'})
        ev = {
            'property_id': self.pid,
            'tier': self.tier,
            'seed': self.seed,
            'level': self.level,
            'coverage': cov,
            'assumptions': self.assumptions,
            'wall_s': round(wall, 2),
            'violations': len(self.violations),
        }
        os.makedirs(EVIDENCE_DIR, exist_ok=True)
        with open(os.path.join(EVIDENCE_DIR, self.pid + '.json'), 'w') as fh:
            json.dump(ev, fh, indent=1, default=str)
        for b in self._bridges.values():
            b.close()
        for k in sorted(set(self.known_hits)):
            print('KNOWN-FINDING: property=%s %s' % (self.pid, k))
        if self.violations:
            for i, (path, what) in enumerate(self.violations):
                if not path:
                    # every reported violation has a replay file (here: the statement that failed and how to re-run it)
                    path = self.write_replay('violation_%d' % i, {'what': str(what), 'how_to_reproduce': 'python3-vt checks/%s.py %s' % (self.pid, self.tier)})
                print('VIOLATION property=%s replay=%s' % (self.pid, path))
                print('  ' + str(what))
            print('%s: %d/%d obligations discharged, %d violation(s), %.1fs' % (
                self.pid, self.discharged, self.obligations, len(self.violations), wall))
            sys.exit(1)
        if self.inconclusive:
            for m in self.inconclusive[:10]:
                print('INCONCLUSIVE: ' + m)
            sys.exit(2)
        print('%s: %d/%d obligations discharged (%d known finding(s)), %d paths, %.1fs' % (
            self.pid, self.discharged, self.obligations, len(set(self.known_hits)), paths, wall))
        sys.exit(0)


_PROG_CACHE = {}


def _unit_worker(a):
    pid, level, tier, fn, unit = a
    sub = Check(pid, level, argv=[tier])
    sub._prog = _PROG_CACHE.setdefault('p', {})
    t_unit = time.time()
    if os.environ.get('VERIF_TRACE_UNITS'):
        with open(os.environ['VERIF_TRACE_UNITS'], 'a') as fh:
            fh.write('%d\t%s\n' % (os.getpid(), json.dumps(unit[0] if isinstance(unit, (tuple, list)) else unit, default=str)[:200]))
    try:
        fn(sub, unit)
    except (Unsupported, Inconclusive, BoundExceeded) as e:
        sub.inconclusive.append('%s: %s: %s' % (unit if isinstance(unit, (str, tuple)) else '?', type(e).__name__, e))
    except Exception as e:
        sub.inconclusive.append('unit %r: internal error %r\n%s' % (unit, e, traceback.format_exc()[-1500:]))
    for b in sub._bridges.values():
        b.close()
    dt = time.time() - t_unit
    if dt > 5:
        sub.slow.append((round(dt, 1), 'unit ' + str(unit[0] if isinstance(unit, tuple) else unit)[:80]))
    return sub.export()


def load_known(pid):
    out = []
    if not os.path.exists(KNOWN_FILE):
        return out
    for line in open(KNOWN_FILE):
        line = line.strip()
        if not line or line.startswith('#'):
            continue
        if line.startswith('known:'):
            # known: property=C08 key=<role> :: description
            body = line[len('known:'):].strip()
            head, _, desc = body.partition('::')
            fields = dict(f.split('=', 1) for f in head.split() if '=' in f)
            if fields.get('property') == pid:
                out.append({'key': fields.get('key'), 'desc': desc.strip()})
    return out


def run_check(fn):
    """wrap a check's main(): internal errors are inconclusive (exit 2), never a
    pass and never a violation"""
    try:
        fn()
    except SystemExit:
        raise
    except (Unsupported, Inconclusive, BoundExceeded) as e:
        traceback.print_exc()
        print('INCONCLUSIVE: %s: %s' % (type(e).__name__, e))
        sys.exit(2)
    except Exception as e:
        traceback.print_exc()
        print('INCONCLUSIVE: internal error: %r' % (e,))
        sys.exit(2)


# ----------------------------------------------------------------------
# helpers shared by the tree-level checks

def reality_pins(check, uni, model):
    """axioms that pin the uninterpreted number renderings / float parses used by a witness to what Rust really
    produces for the witness's values (asked from the bridge).  Empty = the witness does not depend on them."""
    br = check.bridge()
    pins = []
    for (kind, t, s) in uni.memo.get(('num_str_all',), []):
        v = model.eval(t, model_completion=True)
        if kind == 'f64':
            from mirsym.doc import fp_bits
            bits = fp_bits(model, t)
            real = bytes(br.call(cmd='fmt', kind='f64', bits=bits)['text'])
            same = z3.fpIsNaN(t) if bits == 0x7ff8000000000000 else (z3.fpToIEEEBV(t) == z3.BitVecVal(bits, 64))
        else:
            n = v.as_long()
            if kind == 'i64':
                n = norm_int(n, 'i64')
            real = bytes(br.call(cmd='fmt', kind=kind, v=n)['text'])
            same = t == v
        cur = S.model_bytes(model, s)
        if cur != real:
            if len(real) <= S.parts(s)[2]:
                pins.append(z3.Implies(same, z3bool(S.s_eq(s, real))))
            else:
                pins.append(z3.Not(same))      # its text does not fit the bounded rendering: outside the bound
    return pins


def exact_rendering_region(uni):
    """every number whose text the rule looks at is one of the values whose rendering is modelled exactly"""
    return list(uni.memo.get(('num_str_exact',), []))


def sr_term(v):
    """SolverResult value -> z3 BV64 term of its variant index"""
    if isinstance(v, Adt):
        return z3.BitVecVal(v.variant, 64)
    if isinstance(v, SymEnum):
        return v.disc
    raise Unsupported('not a SolverResult: %r' % (v,))


def summarise_paths(results):
    """[PathResult] -> (value term or None, panic condition, [(cond, panic)])
    for functions returning a field-less enum / int / bool"""
    rets = [(r.cond(), r.value) for r in results if r.kind == 'return']
    panics = [(r.cond(), r.panic) for r in results if r.kind == 'panic']
    pc = b_or(*[c for c, _ in panics]) if panics else False
    val = engine.merge_values(rets) if rets else None
    return val, pc, panics


def coverage_complete(check, uni, results):
    """the explored path conditions cover the whole input space"""
    allc = b_or(*[r.cond() for r in results])
    if allc is True:
        return True
    r, _ = check.solve(uni, z3.Not(z3bool(allc)))
    return r == 'unsat'
