"""C07  String predicates are exact for all strings, single or batched.

(a) search() (real MIR) for Exact / Contains / StartsWith / EndsWith / Any with
    a symbolic needle and a symbolic haystack against the documented relation.
(b) search()'s automaton arm and slow_aho() (real MIR) under the aho-corasick
    contract model: 2..3 needles with symbolic bytes, *symbolic member kinds*,
    symbolic haystack, both case flags, three iteration orders of the reported
    occurrences: result <=> some member's own relation holds; popcount = number
    of members whose relation holds.
(c) pattern syntax: into_identifier (real MIR) on symbolic strings against the
    documented table (i prefix, ?re, *x*, x*, *x, *, quotes, numeric prefixes),
    including ASCII lower-casing of case-insensitive needles.
(d) batching: a list on one field vs the disjunction of its members loaded one
    by one (real loader, real solver MIR), all documents incl. arrays.
"""
import itertools
import json
import z3
from common import *
from treelib import *
import templates as T
from mirsym.models_tau import AhoV, RegexV
import oracle as O

TRUE = z3.BitVecVal(0, 64)
KINDS = ['Contains', 'EndsWith', 'Exact', 'StartsWith']


def rel(kind, n, h, fold):
    return {'Contains': S.s_contains, 'EndsWith': S.s_suffix, 'Exact': S.s_eq, 'StartsWith': S.s_prefix}[kind](h, n, fold=fold)


def main():
    ck = Check('C07', 'model_checking')
    quick = ck.tier == 'quick'
    ck.bounds = {'single predicates': 'needle <= %d bytes, haystack <= %d bytes, all byte values' % ((3, 4) if quick else (4, 6)),
                 'automaton': '%s needles of 0..2 bytes (three needles: total <= 3 bytes, haystack <= 3, 2 orders), haystack <= %d bytes, ASCII, member kinds symbolic, 3 occurrence orders; '
                              'two needles also over well-formed UTF-8 haystacks with characters of up to %d bytes' % (
                     '2' if quick else '2..3', 3 if quick else 4, 2 if quick else 3),
                 'pattern syntax': 'strings <= %d bytes' % (5 if quick else 7)}
    ck.assumptions = ['aho-corasick: find_overlapping_iter yields exactly the occurrences (validated against the crate on enumerated inputs in this run)',
                      'regex engine trusted by contract; to_lowercase exact on ASCII (non-ASCII outside the claim)',
                      'str::contains / starts_with / ends_with / == modelled by their documented byte-wise meaning']
    ck.functions |= {'solver::search', 'solver::slow_aho', 'identifier::into_identifier', 'solver::solve_expression (Search arm)',
                     'parser::parse_mapping (native)'}
    units = [('single', k) for k in ['Exact', 'Contains', 'StartsWith', 'EndsWith', 'Any']]
    nn = [2] if quick else [2, 3]
    for n in nn:
        for lens in itertools.product(range(0, 3), repeat=n):
            if n == 3 and sum(lens) > 3:
                continue
            for ins in (False, True):
                for order in (('end', 'pattern', 'rev') if n == 2 else ('end', 'rev')):
                    units.append(('aho', lens, ins, order))
    for lens in itertools.product(range(0, 3), repeat=2):
        for ins in (False, True):
            units.append(('aho', lens, ins, 'end', 'utf8'))
    units.append(('aho-contract',))
    units.append(('syntax', 5 if quick else 7))
    units.append(('fold-utf8', 3 if quick else 4))
    for l in ([['a', 'b'], ['a*', '*b', '*c*'], ['a', 'ia', '?a'], ['ia*', 'i*b'], ['*a*', '', 'b'], ['ab', '*b', 'a*'], ['?a', '?b', 'c'], ['i?a', 'i?b'], ['i?ab', 'i?b', 'ic'], ['ia', 'ib', 'c'],
               # one text under several relations / case flags
               ['a*', '*a'], ['ab*', '*ab*', 'ab'], ['ia*', 'i*a', 'a']] +
              ([] if quick else [['a', 'b', 'c', 'd'], ['*ab*', '*ba*', 'ab'], ['iab', 'Ab', '*B'], ['a*', 'b*', 'ic*', '?d']])):
        units.append(('batch', l))
    ck.run_units(units, run_unit)
    ck.finish('search / slow_aho MIR with symbolic needles, kinds and haystacks; into_identifier MIR vs the pattern table; list vs members')


def run_unit(ck, unit):
    kind = unit[0]
    prog = ck.program()
    quick = ck.tier == 'quick'
    imp = models_tau.TreeImporter(prog)
    if kind == 'single':
        k = unit[1]
        uni = engine.Universe()
        ex = ck.new_engine(prog, uni=uni, summarise=())
        ncap, hcap = (3, 4) if quick else (4, 6)
        n = S.fresh('needle', ncap, uni.axioms, ascii_only=False)
        h = S.fresh('hay', hcap, uni.axioms, ascii_only=False)
        srch = imp.enum('Search', k, [] if k == 'Any' else [StrV(n)])
        res = ex.explore('search', [Ref(Cont([srch]), 0), StrV(h)])
        val, pc, _ = summarise_paths(res)
        want = {'Exact': lambda: S.s_eq(h, n), 'Contains': lambda: S.s_contains(h, n), 'StartsWith': lambda: S.s_prefix(h, n),
                'EndsWith': lambda: S.s_suffix(h, n), 'Any': lambda: True}[k]()
        # the oracle is written with explicit quantification over positions, independently of strings.py's helper used by the model
        want2 = reference_relation(k, n, h)
        ck.obligation('search %s: no panic' % k, uni, pc, sample={'form': 'search(%s)' % k})
        ck.obligation('search %s: exact' % k, uni, (sr_term(val) == TRUE) != z3bool(want2), cvc5=True)
        ck.obligation('search %s: true|false only' % k, uni, sr_term(val) == z3.BitVecVal(2, 64))
        r1, _ = ck.solve(uni, sr_term(val) == TRUE)
        if r1 != 'sat':
            ck.inconclusive.append('search %s: vacuity' % k)
        return
    if kind == 'aho':
        _, lens, ins, order = unit[:4]
        utf8 = len(unit) > 4
        uni = engine.Universe()
        uni.aho_order = order
        ex = ck.new_engine(prog, uni=uni, summarise=())
        hcap = 3 if (quick or len(lens) > 2) else 4
        if utf8:
            # haystacks with multi-byte characters: byte offsets and character counts differ
            from mirsym.models_chars import fresh_utf8
            h = fresh_utf8('hay', hcap, uni, max_width=2 if quick else 3)
        else:
            h = S.fresh('hay', hcap, uni.axioms, ascii_only=True)
        needles = []
        for i, L in enumerate(lens):
            nb = S.fresh('n%d' % i, L, uni.axioms, ascii_only=True)
            needles.append(S.SStr(nb.bytes, L, 'n%d' % i))
            if ins:
                # the loader lower-cases case-insensitive needles
                for b in nb.bytes:
                    uni.axioms.append(z3.Not(z3.And(z3.UGE(b, 0x41), z3.ULE(b, 0x5a))))
        kd = [z3.BitVec('kind%d' % i, 64) for i in range(len(lens))]
        for k_ in kd:
            uni.axioms.append(z3.ULT(k_, 4))
        mts = VecV([SymEnum('MatchType', kd[i], {j: PCont([StrV(needles[i])]) for j in range(4)}) for i in range(len(lens))])
        if prog.enum_variants('MatchType') != KINDS:
            raise Unsupported('MatchType variants changed')
        aho = AhoV(needles, ins)
        srch = imp.enum('Search', 'AhoCorasick', [BoxV([aho]), mts, ins])
        rels = [z3.Or(*[z3.And(kd[i] == j, z3bool(rel(KINDS[j], needles[i], h, ins))) for j in range(4)]) for i in range(len(lens))]
        label = 'aho%s lens=%s %s order=%s' % ('-utf8' if utf8 else '', lens, 'i' if ins else 's', order)
        # search(): any member
        res = ex.explore('search', [Ref(Cont([srch]), 0), StrV(h)])
        for r in res:
            ck.blocks |= r.blocks
        val, pc, _ = summarise_paths(res)
        if not coverage_complete(ck, uni, res):
            ck.inconclusive.append(label + ': coverage')
        ck.obligation(label + ' search:no-panic', uni, pc)
        ck.obligation(label + ' search: some member matches', uni, (sr_term(val) == TRUE) != z3.Or(*rels),
                      sample={'form': label, 'paths': len(res)}, on_sat=lambda m: aho_replay(ck, label, m, needles, kd, h, ins, 'search'))
        ck.obligation(label + ' search: true|false only', uni, sr_term(val) == z3.BitVecVal(2, 64))
        # slow_aho(): number of members
        res2 = ex.explore('slow_aho', [Ref(BoxV([aho]), 0), Ref(Cont([mts]), 0), StrV(h)])
        for r in res2:
            ck.blocks |= r.blocks
        val2, pc2, _ = summarise_paths(res2)
        cnt = z3.Sum(*[z3.If(r, 1, 0) for r in rels])
        got = val2.v if not isinstance(val2.v, int) else z3.BitVecVal(val2.v, 64)
        ck.obligation(label + ' slow_aho:no-panic', uni, pc2)
        ck.obligation(label + ' slow_aho: counts members', uni, z3.BV2Int(got, is_signed=False) != cnt,
                      on_sat=lambda m: aho_replay(ck, label, m, needles, kd, h, ins, 'slow_aho'))
        ck.extra['programs'] = ck.extra.get('programs', 0) + 2
        return
    if kind == 'aho-contract':
        # ground truth for the contract model: the real crate on enumerated inputs
        br = ck.bridge()
        import random
        rnd = random.Random(ck.seed)
        alpha = b'abAB'
        n = 0
        for needles in ([b'a', b'ab'], [b'', b'b'], [b'ab', b'b', b'a'], [b'aa', b'a'], [b'ba', b'ab'], [b'a', b'a']):
            for ins in (False, True):
                for L in range(0, 4):
                    for hay in itertools.product(alpha, repeat=L):
                        hay = bytes(hay)
                        r = br.call(cmd='aho', needles=[list(x) for x in needles], i=ins, hay=list(hay))
                        real = sorted(tuple(x) for x in r['hits'])
                        fold = (lambda x: x.lower()) if ins else (lambda x: x)
                        model = sorted((p, s, s + len(nd)) for p, nd in enumerate(needles) for s in range(0, len(hay) - len(nd) + 1)
                                       if fold(hay[s:s + len(nd)]) == fold(nd))
                        n += 1
                        # non-overlapping contract (find_iter), for needle sets without an empty needle
                        if all(needles):
                            r2 = br.call(cmd='aho', needles=[list(x) for x in needles], i=ins, hay=list(hay), overlapping=False)
                            real2 = [tuple(x) for x in r2['hits']]
                            model2 = []
                            at = 0
                            while True:
                                cs = sorted([c for c in model if c[1] >= at], key=lambda c: (c[2], -(c[2] - c[1]), c[0]))
                                if not cs:
                                    break
                                model2.append(cs[0])
                                at = cs[0][2]
                            if real2 != model2:
                                ck.inconclusive.append('aho find_iter model disagrees with the crate: needles=%r i=%s hay=%r real=%r model=%r' % (
                                    needles, ins, hay, real2, model2))
                                return
                        if real != model:
                            ck.inconclusive.append('aho contract model disagrees with the crate: needles=%r i=%s hay=%r real=%r model=%r' % (
                                needles, ins, hay, real, model))
                            return
        ck.replays_ok += n
        ck.extra['aho_contract_inputs_validated'] = n
        return
    if kind == 'syntax':
        syntax_unit(ck, prog, unit[1])
        return
    if kind == 'fold-utf8':
        fold_utf8_unit(ck, prog, unit[1])
        return
    if kind == 'batch':
        batch_unit(ck, unit[1])
        return
    raise ValueError(unit)


def reference_relation(kind, n, h):
    """the documented relations, spelled out over byte positions"""
    bn, ln, cn = S.parts(n)
    bh, lh, ch = S.parts(h)
    if kind == 'Any':
        return True
    L = lambda x: z3.BitVecVal(x, 64)

    def at(s):
        # n occurs in h at offset s
        return z3.And(z3.ULE(L(s) + ln, lh), *[z3.Implies(z3.UGT(ln, L(j)), bh[s + j] == bn[j]) if s + j < ch else z3.Not(z3.UGT(ln, L(j)))
                                                 for j in range(cn)])
    if kind == 'Exact':
        return z3.And(ln == lh, at(0))
    if kind == 'StartsWith':
        return at(0)
    if kind == 'Contains':
        return z3.Or(*[at(s) for s in range(ch + 1)])
    if kind == 'EndsWith':
        return z3.Or(*[z3.And(at(s), L(s) + ln == lh) for s in range(ch + 1)])
    raise ValueError(kind)


def aho_replay(ck, label, model, needles, kd, h, ins, what):
    """replay through a rule: one list member per needle, spelled with the
    pattern syntax of its kind, evaluated natively; the expectation is computed
    on the concrete strings"""
    hb = S.model_bytes(model, h)
    members, exp = [], []
    for i, n in enumerate(needles):
        nb = S.model_bytes(model, n)
        k = KINDS[model.eval(kd[i], model_completion=True).as_long()]
        txt = nb.decode('latin1')
        pat = {'Contains': '*%s*', 'EndsWith': '*%s', 'Exact': '%s', 'StartsWith': '%s*'}[k] % txt
        members.append(('i' if ins else '') + pat)
        a, b = (hb.lower(), nb.lower()) if ins else (hb, nb)
        exp.append({'Contains': b in a, 'EndsWith': a.endswith(b), 'Exact': a == b, 'StartsWith': a.startswith(b)}[k])
    br = ck.bridge()
    docj = {'$obj': [[[102], {'$str': list(hb)}]]}
    rules = {}
    native = {}
    y = T.render({'idents': {'A': T.M((T.K('f'), T.L(*[T.S(m) for m in members])))}, 'cond': ('id', 'A')})
    rules['any'] = y
    native['any'] = br.call(cmd='eval', yaml=y, opts=None, doc=docj, mode='flat')
    for n in range(1, len(members) + 1):
        y = T.render({'idents': {'A': T.M((T.K('f', ('of', n)), T.L(*[T.S(m) for m in members])))}, 'cond': ('id', 'A')})
        rules['of%d' % n] = y
        native['of%d' % n] = br.call(cmd='eval', yaml=y, opts=None, doc=docj, mode='flat')
    path = ck.write_replay(safe(label + '_' + what), {'members': members, 'hay': list(hb), 'what': what, 'rules': rules, 'doc': docj,
                                                      'native': native, 'expected_members': exp})
    if any('verdict' not in v for v in native.values()):
        if any('panic' in v for v in native.values()):
            return ('violation', path, '%s: native panic' % label)
        return ('spurious', 'the member list does not load natively: %r' % (native,))
    ck.replays_ok += 1
    bad = native['any']['verdict'] != any(exp)
    for n in range(1, len(members) + 1):
        if native['of%d' % n]['verdict'] != (sum(exp) >= n):
            bad = True
    if not bad:
        return ('spurious', 'native evaluation of the member list agrees with the relations (%s)' % path)
    return ('violation', path, '%s %s: members %r on %r: expected %s, native %s' % (
        label, what, members, hb, exp, {k: v['verdict'] for k, v in native.items()}))


def fold_utf8_unit(ck, prog, N):
    """`i<text>` with a symbolic well-formed UTF-8 text (multi-byte characters, no pattern markers): the needle the real
    into_identifier MIR stores must be the text up to *ASCII* case - the engines fold ASCII only, so a needle that was
    changed beyond that can no longer match its own text"""
    uni = engine.Universe()
    ex = ck.new_engine(prog, uni=uni, summarise=())
    models_chars.install(ex)
    body = models_chars.fresh_utf8('body', N, uni, max_width=2, min_len=1)
    for b in body.bytes:
        uni.axioms.append(z3.And(*[b != ord(ch) for ch in '*?><="\'']))
    s = S.SStr([z3.BitVecVal(ord('i'), 8)] + list(body.bytes), body.length + 1, 'ibody')
    fn = [f for f in prog.fns if f.kind == 'fn' and f.name.endswith('::into_identifier')][0]
    results = ex.explore(fn, [StrV(s)])
    br = ck.bridge()
    bad = []
    for r in results:
        ck.blocks |= r.blocks
        if r.kind == 'panic':
            continue            # C04's business
        if r.value.vname != 'Ok':
            bad.append(r.cond())
            continue
        ident = r.value.items[0]
        flag, pat = ident.items[0], ident.items[1]
        okv = False
        if pat.vname == 'Exact' and isinstance(pat.items[0], StrV):
            okv = b_and(z3bool(flag), z3bool(S.s_eq(pat.items[0].s, body, fold=True)))
        bad.append(b_and(r.cond(), z3.Not(z3bool(okv)) if okv is not False else True))

    def on_sat(model):
        # the model's text, then the same text with each non-ASCII character replaced by characters whose Unicode lower-casing differs
        # (the executor's lower-casing is arbitrary above ASCII, so the native run decides)
        import C04
        first = S.model_bytes(model, body)
        cands = [first]
        try:
            txt = first.decode('utf-8')
            for i, chh in enumerate(txt):
                if ord(chh) >= 0x80:
                    for sc in ('\u00c9', '\u00c4', '\u03a9', '\u0416', '\u00e9'):
                        cands.append((txt[:i] + sc + txt[i + 1:]).encode('utf-8'))
        except UnicodeDecodeError:
            pass
        for cand in cands:
            text = b'i' + cand
            n = br.call(cmd='ident', s=list(text))
            if not n.get('ok') or 'panic' in n:
                continue
            got = bytes(n['pattern'].get('v') or [])
            fold = lambda bs: bytes(c + 32 if 0x41 <= c <= 0x5a else c for c in bs)
            yaml = 'detection:\n  A:\n    f: %s\n  condition: A\ntrue_positives: []\ntrue_negatives: []\n' % json.dumps(text.decode('utf-8'), ensure_ascii=False)
            docj = {'$obj': [[list(b'f'), {'$str': list(cand)}]]}
            ev = br.call(cmd='eval', yaml=yaml, opts=None, doc=docj, mode='flat')
            path = ck.write_replay('fold_utf8_' + cand.hex(), {'input': text.decode('utf-8'), 'native_identifier': n, 'rule': yaml, 'doc': docj, 'native_eval': ev,
                                                                'request': {'cmd': 'eval', 'yaml': yaml, 'opts': None, 'doc': docj, 'mode': 'flat'}})
            ck.replays_ok += 1
            if n['pattern'].get('t') != 'Exact' or fold(got) != fold(cand) or ev.get('verdict') is not True:
                return ('violation', path, 'the case-insensitive pattern %r does not match its own text: needle %r, verdict %r' % (text.decode('utf-8'), got, ev.get('verdict', ev)))
        return ('spurious', 'natively the needle is the text up to ASCII case and the pattern matches its own text, on the model and its neighbours')
    ck.obligation('i<utf-8 text>: the needle is the text up to ASCII case', uni, b_or(*bad) if bad else False,
                  sample={'form': 'into_identifier on i + UTF-8 text', 'bytes<=': N, 'paths': len(results)}, on_sat=on_sat)


def syntax_unit(ck, prog, N):
    uni = engine.Universe()
    ex = ck.new_engine(prog, uni=uni, summarise=())
    models_chars.install(ex)
    s = models_chars.fresh_utf8('s', N, uni, max_width=1)
    for b in s.bytes:
        uni.axioms.append(z3.ULT(b, 0x80))
    fn = [f for f in prog.fns if f.kind == 'fn' and f.name.endswith('::into_identifier')][0]
    results = ex.explore(fn, [StrV(s)])
    ck.extra['syntax_paths'] = len(results)
    br = ck.bridge()
    bs, ln, cap = S.parts(s)
    L = lambda x: z3.BitVecVal(x, 64)

    def byte_is(i, c):
        return z3.And(z3.UGT(ln, L(i)), bs[i] == c)
    # the documented table, as constraints on the text
    ins = byte_is(0, ord('i'))
    for r in results:
        if r.kind != 'return' or r.value.vname != 'Ok':
            continue
        ident = r.value.items[0]
        flag, pat = ident.items[0], ident.items[1]
        name = pat.vname
        # (1) the flag is exactly "starts with i"
        ck.obligations += 1
        rr, m = ck.solve(uni, *r.pc, z3bool(flag) != ins)
        if rr == 'unsat':
            ck.discharged += 1
        else:
            report_syntax(ck, br, uni, s, m, 'case flag')
            continue
        # (2) kind and payload by the table: body = text after the optional i
        for off in (0, 1):
            cond_off = ins if off == 1 else z3.Not(ins)
            rr, _ = ck.solve(uni, *r.pc, cond_off)
            if rr != 'sat':
                continue
            body_len = ln - off

            def b(i):
                return bs[off + i]
            first = lambda c: z3.And(z3.UGT(body_len, L(0)), b(0) == c)
            last_is = lambda c: z3.Or(*[z3.And(body_len == L(k + 1), bs[off + k] == c) for k in range(cap - off)]) if cap - off > 0 else z3.BoolVal(False)
            star, q = ord('*'), ord('?')
            is_regex = first(q)
            num = z3.Or(first(ord('>')), first(ord('<')), first(ord('=')))
            is_any = z3.And(body_len == L(1), b(0) == star) if cap - off >= 1 else z3.BoolVal(False)
            both = z3.And(first(star), last_is(star))
            quoted = z3.And(z3.UGE(body_len, L(2)), z3.Or(z3.And(first(ord('"')), last_is(ord('"'))), z3.And(first(ord("'")), last_is(ord("'")))))
            table = [
                ('Regex', is_regex),
                ('NUM', z3.And(z3.Not(is_regex), num)),
                ('Any', z3.And(z3.Not(is_regex), z3.Not(num), is_any)),
                ('Contains', z3.And(z3.Not(is_regex), z3.Not(num), z3.Not(is_any), both)),
                ('EndsWith', z3.And(z3.Not(is_regex), z3.Not(num), z3.Not(is_any), z3.Not(both), first(star))),
                ('StartsWith', z3.And(z3.Not(is_regex), z3.Not(num), z3.Not(is_any), z3.Not(both), z3.Not(first(star)), last_is(star))),
                ('Exact', z3.And(z3.Not(is_regex), z3.Not(num), z3.Not(is_any), z3.Not(first(star)), z3.Not(last_is(star)))),
            ]
            mine = 'NUM' if name in ('Equal', 'GreaterThan', 'GreaterThanOrEqual', 'LessThan', 'LessThanOrEqual', 'FEqual', 'FGreaterThan',
                                     'FGreaterThanOrEqual', 'FLessThan', 'FLessThanOrEqual') else name
            want = dict(table)[mine]
            ck.obligations += 1
            rr, m = ck.solve(uni, *r.pc, cond_off, z3.Not(want))
            if rr == 'unsat':
                ck.discharged += 1
            else:
                report_syntax(ck, br, uni, s, m, 'pattern kind %s' % name)
                continue
            # payload
            if mine == 'Regex' and hasattr(pat.items[0], 'pattern'):
                # the regex source is the text after `?`, byte for byte (case is the builder flag's business, never the text's)
                rv = pat.items[0]
                pb, pl, pc_ = S.parts(rv.pattern)
                elen = body_len - 1
                same = [z3bool(_len_eq(pl, elen)), z3bool(rv.insensitive) == (ins if off == 1 else z3.BoolVal(False))]
                for j in range(len(pb)):
                    if off + 1 + j < cap:
                        same.append(z3.Implies(z3.UGT(elen, L(j)), z3bool(S._eqb(pb[j], bs[off + 1 + j]))))
                ck.obligations += 1
                rr, m = ck.solve(uni, *r.pc, cond_off, z3.Not(z3.And(*same)))
                if rr == 'unsat':
                    ck.discharged += 1
                else:
                    report_syntax(ck, br, uni, s, m, 'regex source / flag')
            if mine in ('Contains', 'EndsWith', 'StartsWith', 'Exact'):
                payload = pat.items[0].s
                lo, hi = {'Contains': (1, 1), 'EndsWith': (1, 0), 'StartsWith': (0, 1)}.get(mine, (0, 0))
                pb, pl, pc_ = S.parts(payload)
                # expected: body[lo .. len-hi] (quotes stripped for a quoted exact), lower-cased when insensitive
                exp_q = z3.And(z3bool(mine == 'Exact'), quoted)
                conds = []
                for strip in ((1, 1), (lo, hi)):
                    is_q = exp_q if strip == (1, 1) and mine == 'Exact' else (z3.Not(exp_q) if mine == 'Exact' else z3.BoolVal(True))
                    if mine != 'Exact' and strip == (1, 1) and (lo, hi) != (1, 1):
                        continue
                    a, z = strip
                    elen = body_len - a - z
                    same = [z3bool(_len_eq(pl, elen))]
                    for j in range(pc_ if isinstance(pc_, int) else cap):
                        if off + a + j < cap and j < len(pb):
                            src = bs[off + a + j]
                            src = S.lower_byte(src) if off == 1 else src
                            same.append(z3.Implies(z3.UGT(elen, L(j)), z3bool(S._eqb(pb[j], src))))
                    conds.append(z3.And(is_q, *same))
                ck.obligations += 1
                rr, m = ck.solve(uni, *r.pc, cond_off, z3.Not(z3.Or(*conds)))
                if rr == 'unsat':
                    ck.discharged += 1
                else:
                    report_syntax(ck, br, uni, s, m, 'payload of %s' % name)
    if len(ck.samples) < 12:
        ck.samples.append({'form': 'into_identifier vs pattern table', 'paths': len(results), 'bytes<=': N})


def _len_eq(pl, elen):
    if isinstance(pl, int):
        return elen == z3.BitVecVal(pl, 64)
    return pl == elen


def report_syntax(ck, br, uni, s, model, what):
    b = S.model_bytes(model, s)
    n = br.call(cmd='ident', s=list(b))
    try:
        kind, payload, ins = O.parse_pattern(b.decode('latin1'))
    except O.NotLoadable:
        kind, payload, ins = 'invalid', None, None
    path = ck.write_replay('syntax_' + b.hex(), {'input': b.decode('latin1'), 'native': n, 'table': [kind, payload, ins], 'what': what,
                                                 'request': {'cmd': 'ident', 's': list(b)}})
    nat = n.get('pattern', {})
    natk = {'Contains': 'contains', 'EndsWith': 'suffix', 'StartsWith': 'prefix', 'Exact': 'exact', 'Any': 'any', 'Regex': 'regex'}.get(nat.get('t'), 'num')
    refk = 'num' if kind in ('inum', 'fnum') else kind
    natp = bytes(nat.get('v', [])).decode('latin1') if 'v' in nat else None
    if refk == 'regex' and nat.get('t') == 'Regex' and 'p' in nat:
        natp = bytes(nat['p']).decode('latin1')
    agree = n.get('ok') and natk == refk and n.get('ignore_case') == ins and (natp == payload or refk in ('num', 'any'))
    if agree:
        ck.inconclusive.append('pattern syntax: model for %r did not reproduce natively (%s)' % (b, what))
    else:
        ck.violations.append((path, 'pattern %r: %s: native %r vs table %r' % (b.decode('latin1'), what, n, (kind, payload, ins))))


def batch_unit(ck, members):
    quick = ck.tier == 'quick'
    br = ck.bridge()
    tr = TreeRunner(ck, Bounds(str_cap=3 if quick else 4, arr_cap=2, depth=1))
    tr.uni.numstr_cap = 2
    singles = []
    for m in members:
        y = T.render({'idents': {'A': T.M((T.K('f'), T.S(m)))}, 'cond': ('id', 'A')})
        r = br.call(cmd='load', yaml=y, opts=None)
        singles.append((y, tr.evaluate(r)))
    y = T.render({'idents': {'A': T.M((T.K('f'), T.L(*[T.S(m) for m in members])))}, 'cond': ('id', 'A')})
    r = br.call(cmd='load', yaml=y, opts=None)
    v = tr.evaluate(r)
    label = 'batch ' + ','.join(members)
    unconfirmed, confirmed = set(), 0
    for docj, what in probe_docs(r):
        ck.obligations += 1
        nq = br.call(cmd='eval', yaml=y, opts=None, doc=docj, mode='flat')
        ns = [br.call(cmd='eval', yaml=s_[0], opts=None, doc=docj, mode='flat') for s_ in singles]
        path = ck.write_replay(safe(label) + '_engine', {'rule': y, 'doc': docj, 'what': what, 'native_list': nq,
                                                         'member_rules': [s_[0] for s_ in singles], 'native_members': ns})
        if nq.get('verdict') != any(x.get('verdict') for x in ns):
            confirmed += 1
            if confirmed == 1:
                ck.violations.append((path, '%s: %s; list=%s members=%s on %s' % (label, what, nq.get('verdict'), [x.get('verdict') for x in ns], json.dumps(docj))))
        else:
            unconfirmed.add('%s: %s (the model of this tree is not valid)' % (label, what))
    if unconfirmed and not confirmed:
        ck.inconclusive.append(sorted(unconfirmed)[0])

    def on_sat(model):
        docj = tr.render_doc(model)
        nq = br.call(cmd='eval', yaml=y, opts=None, doc=docj, mode='flat')
        ns = [br.call(cmd='eval', yaml=s[0], opts=None, doc=docj, mode='flat') for s in singles]
        path = ck.write_replay(safe(label), {'rule': y, 'doc': docj, 'native_list': nq, 'member_rules': [s[0] for s in singles], 'native_members': ns})
        if nq.get('verdict') == any(x.get('verdict') for x in ns):
            return ('spurious', 'native run agrees')
        return ('violation', path, '%s: list=%s members=%s on %s' % (label, nq.get('verdict'), [x.get('verdict') for x in ns], json.dumps(docj)))
    ck.obligation(label, tr.uni, (v['res'] == TRUE) != z3.Or(*[s[1]['res'] == TRUE for s in singles]),
                  sample={'list': members, 'tree': r['display'][:120]}, on_sat=on_sat)
    ck.extra['programs'] = ck.extra.get('programs', 0) + 1 + len(members)


if __name__ == '__main__':
    run_check(main)
