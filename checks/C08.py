"""C08  List quantifiers count the members the author wrote.

Each quantified form -- plain list, all(k), of(k, n) on a key, and all(X) /
of(X, n) over the entries of an identifier -- is loaded with the real loader,
and so is every member on its own as a one-member rule.  All trees are executed
as real solver MIR against one shared symbolic document (scalar fields, per the
statement) and z3 decides

    quantified rule is true   <=>   (count of members that are true) satisfies the quantifier

for all documents within the bounds.
"""
import itertools
import z3
from common import *
from treelib import *
import templates as T

TRUE = z3.BitVecVal(0, 64)


def member_lists(tier):
    S = T.S
    lists = [
        ('str1', [S('a')]), ('contains1', [S('*a*')]), ('istr1', [S('ia')]), ('re1', [S('?a')]),
        ('int1', [('i', 1)]), ('bool1', [('b', True)]), ('cmp1', [S('>1')]),
        ('str2', [S('a'), S('b')]), ('mixed-kinds2', [S('a*'), S('*b')]), ('contains2', [S('*a*'), S('*b*')]),
        ('overlap2', [S('*ab*'), S('*b*')]), ('dup2', [S('*a*'), S('*a*')]), ('case2', [S('ia'), S('a')]),
        ('icase2', [S('ia*'), S('i*b')]), ('re2', [S('?a'), S('?b')]), ('ire2', [S('i?a'), S('i?b')]),
        ('re+str', [S('?a'), S('b')]),
        ('int2', [('i', 1), ('i', 2)]), ('cmp2', [S('>1'), S('<5')]), ('cmp2-incl', [S('>=1'), S('<=5')]), ('cmp2-float', [S('>=0.5'), S('<=1.5')]), ('bool2', [('b', True), ('b', False)]),
        ('flt2', [('f', 1.5), S('>2.5')]), ('empty+a', [S(''), S('a')]), ('any+a', [S('*'), S('a')]),
        ('str3', [S('a*'), S('*b'), S('*c*')]), ('mix3', [S('a'), S('ib'), S('?c')]), ('int3', [('i', 1), ('i', 2), S('>=3')]),
        ('map1', [T.M((T.K('g'), S('a')))]), ('map2', [T.M((T.K('g'), S('a'))), T.M((T.K('g'), S('b*')))]),
        ('map2h', [T.M((T.K('g'), S('a'))), T.M((T.K('h'), S('b')))]),
        ('batches3', [S('a*'), S('*b'), S('ic')]), ('batches-re', [S('a*'), S('*b'), S('?c')]), ('batches4', [S('ia'), S('ib'), S('c'), S('d')]),
    ]
    if tier != 'quick':
        lists += [
            ('str4', [S('a'), S('b*'), S('*c'), S('*d*')]), ('str5', [S('a'), S('b'), S('c'), S('d'), S('e')]),
            ('contains4', [S('*a*'), S('*b*'), S('*ab*'), S('*ba*')]), ('re3', [S('?a'), S('?b'), S('?ab')]),
            ('int4', [('i', 1), ('i', 2), ('i', 3), S('<0')]), ('bool3', [('b', True), ('b', False), ('b', True)]),
            ('map3', [T.M((T.K('g'), S('a'))), T.M((T.K('g'), S('b'))), T.M((T.K('g'), S('*c*')))]),
            ('icase4', [S('ia'), S('iA*'), S('i*a'), S('i*A*')]), ('sufpre', [S('ab*'), S('*ab')]),
        ]
    return lists


def main():
    ck = Check('C08', 'translation_validation')
    quick = ck.tier == 'quick'
    ck.bounds = {'list length': '1..%d' % (3 if quick else 5), 'thresholds': '0..len+1', 'doc strings': '<= %d ASCII bytes' % (3 if quick else 4),
                 'document fields': 'scalar kinds (null, bool, float, int, uint, string); nested-mapping members: objects of scalars'}
    ck.assumptions = ['callee models of DESIGN 2.3 (aho-corasick contract, regex interpreted for the simple subset)',
                      'the one-member rule is the meaning of "the member matches"',
                      'of(.., 0) follows C06: true iff no member is true and at least one is false (all members missing = missing)']
    ck.functions |= {'solver::solve_expression', 'solver::match_all', 'solver::match_of', 'solver::search', 'solver::slow_aho',
                     'parser::parse_identifier / parse_mapping (native, through the bridge)'}
    units = []
    for nm, members in member_lists(ck.tier):
        units.append(('key', nm, members))
    # identifier forms
    S = T.S
    ents = [
        ('seq3', 'seq', [[(T.K('f'), S('a'))], [(T.K('g'), S('b'))], [(T.K('h'), S('c'))]]),
        ('seq2-samefield', 'seq', [[(T.K('f'), S('a*'))], [(T.K('f'), S('*b'))]]),
        ('seq3-samefield', 'seq', [[(T.K('f'), S('a*'))], [(T.K('f'), S('*b'))], [(T.K('g'), S('c'))]]),
        ('seq1', 'seq', [[(T.K('f'), S('a'))]]),
        ('seq2-lists', 'seq', [[(T.K('f'), T.L(S('a'), S('b')))], [(T.K('g'), T.L(S('c*'), S('*d')))]]),
        ('map3', 'map', [[(T.K('f'), S('a'))], [(T.K('g'), S('b'))], [(T.K('h'), ('i', 1))]]),
        ('map1', 'map', [[(T.K('f'), S('a'))]]),
        ('map1-list', 'map', [[(T.K('f'), T.L(S('a*'), S('*b'), S('*c*')))]]),
        ('map2-nested', 'map', [[(T.K('n'), T.M((T.K('f'), S('a'))))], [(T.K('g'), S('b'))]]),
    ]
    for nm, kind, entries in ents:
        units.append(('ident', nm, kind, entries))
    units.append(('wide',))
    ck.run_units(units, run_unit)
    ck.finish('quantified rule vs per-member rules on real solver MIR over one symbolic document; z3 decides '
              'truth(quantified) <=> quantifier(count of true members)')


def quantifier(kind, n, rs):
    """is the quantified form true, given the three-valued results rs of its
    members (C06's tables applied to the members as written)"""
    ts = [r == TRUE for r in rs]
    fs = [r == z3.BitVecVal(1, 64) for r in rs]
    cnt = z3.Sum(*[z3.If(t, 1, 0) for t in ts]) if len(ts) > 1 else z3.If(ts[0], 1, 0)
    if kind == 'any':
        return z3.Or(*ts)
    if kind == 'all':
        return z3.And(*ts)
    if n == 0:
        # none-of: no member is true and at least one is false (all members missing = missing, not a match)
        return z3.And(z3.Not(z3.Or(*ts)), z3.Or(*fs))
    return cnt >= n


def wide_unit(ck):
    """*concrete* (labelled): lists far beyond the symbolic bound (65 / 70 / 130 members of one kind, where an engine may
    split its automaton): all(k) / of(k, n) / the plain list against the count of members that match, on documents whose
    hits fall at different positions of the list, for three rotations of the member order"""
    br = ck.bridge()
    n_rules = 0
    for size in (65, 70, 130):
        needles = ['n%03d' % i for i in range(size)]
        for case in ('', 'i'):
            for rot in (0, 1, size // 2):
                order = needles[rot:] + needles[:rot]
                members = ''.join("    - '%s*%s*'\n" % (case, x) for x in order)
                hits_sets = [(0, 1), (0, size - 1), (62, 63), (63, 64), (1, 64), (size - 2, size - 1), (5,), (64,), tuple(range(size)), tuple(range(size - 1)), tuple(range(1, size)), ()]
                for key, want_of in (('all(f)', lambda k: k == size), ('of(f, 2)', lambda k: k >= 2), ('of(f, 0)', lambda k: k == 0), ('f', lambda k: k >= 1),
                                     ('of(f, %d)' % size, lambda k: k >= size)):
                    yaml = 'detection:\n  A:\n    %s:\n%s  condition: A\ntrue_positives: []\ntrue_negatives: []\n' % (key, members)
                    n_rules += 1
                    for opts in (None, [True, True, True, True]):
                        for hs in hits_sets:
                            text = ' '.join(needles[i] for i in hs) or 'zzz'
                            if case:
                                text = text.upper()
                            docj = {'$obj': [[list(b'f'), {'$str': list(text.encode())}]]}
                            r = br.call(cmd='eval', yaml=yaml, opts=opts, doc=docj, mode='flat')
                            ck.obligations += 1
                            want = want_of(len(hs))
                            if 'verdict' in r and r['verdict'] == want:
                                ck.discharged += 1
                                continue
                            path = ck.write_replay('wide_%s_%d_%s_rot%d' % (key.replace('(', '_').replace(')', '').replace(', ', '_'), size, case or 's', rot),
                                                   {'rule': yaml, 'opts': opts, 'doc': docj, 'native': r, 'members_matching': len(hs), 'expected': want,
                                                    'request': {'cmd': 'eval', 'yaml': yaml, 'opts': opts, 'doc': docj, 'mode': 'flat'}})
                            ck.replays_ok += 1
                            ck.violations.append((path, 'wide list: %s over %d %smembers (rotation %d, opts %s): %d members match, engine says %r' % (
                                key, size, 'case-insensitive ' if case else '', rot, opts, len(hs), r.get('verdict', r))))
                            return
    ck.extra['wide_list_rules'] = n_rules


def run_unit(ck, unit):
    if unit == ('wide',):
        wide_unit(ck)
        return
    quick = ck.tier == 'quick'
    br = ck.bridge()
    bounds = Bounds(str_cap=3 if quick else 4, arr_cap=1, depth=1, kinds=[0, 1, 2, 3, 4, 5])
    if unit[0] == 'key':
        _, nm, members = unit
        if any(m[0] == 'map' for m in members):
            bounds = Bounds(str_cap=3 if quick else 4, arr_cap=1, depth=1, kinds=[0, 1, 2, 3, 4, 5, 7])
        tr = TreeRunner(ck, bounds)
        tr.uni.numstr_cap = 2
        singles = []
        for i, m in enumerate(members):
            y = T.render({'idents': {'A': T.M((T.K('f'), m))}, 'cond': ('id', 'A')})
            r = br.call(cmd='load', yaml=y, opts=None)
            if not r.get('ok'):
                ck.inconclusive.append('%s: one-member rule %d does not load: %r' % (nm, i, r))
                return
            singles.append((y, r, tr.evaluate(r)))
        ts = [s[2]['res'] for s in singles]
        forms = [('any', None)] if len(members) > 1 else []
        forms += [('all', None)] + [('of', n) for n in range(0, len(members) + 2)]
        for kind, n in forms:
            mod = None if kind == 'any' else ('all' if kind == 'all' else ('of', n))
            y = T.render({'idents': {'A': T.M((T.K('f', mod), T.L(*members)))}, 'cond': ('id', 'A')})
            compare(ck, tr, br, '%s %s%s' % (nm, kind, '' if n is None else n), y, kind, n, ts, singles, members)
    else:
        _, nm, skind, entries = unit
        bounds = Bounds(str_cap=3 if quick else 4, arr_cap=1, depth=1, kinds=[0, 1, 2, 3, 4, 5, 7])
        tr = TreeRunner(ck, bounds)
        tr.uni.numstr_cap = 2
        singles = []
        for i, e in enumerate(entries):
            y = T.render({'idents': {'A': T.M(*e)}, 'cond': ('id', 'A')})
            r = br.call(cmd='load', yaml=y, opts=None)
            if not r.get('ok'):
                ck.inconclusive.append('%s: one-entry rule %d does not load: %r' % (nm, i, r))
                return
            singles.append((y, r, tr.evaluate(r)))
        ts = [s[2]['res'] for s in singles]
        if skind == 'seq':
            X = ('seq', [T.M(*e) for e in entries])
        else:
            X = T.M(*[p for e in entries for p in e])
        for kind, n in [('all', None)] + [('of', n) for n in range(0, len(entries) + 2)]:
            cond = ('all', 'X') if kind == 'all' else ('of', 'X', n)
            y = T.render({'idents': {'X': X}, 'cond': cond})
            compare(ck, tr, br, 'ident %s %s%s' % (nm, kind, '' if n is None else n), y, kind, n, ts, singles, entries)


def compare(ck, tr, br, label, yaml, kind, n, ts, singles, members):
    r = br.call(cmd='load', yaml=yaml, opts=None)
    ck.extra['programs'] = ck.extra.get('programs', 0) + 1
    if 'panic' in r:
        p = ck.write_replay(safe(label) + '_load_panic', {'rule': yaml, 'native': r})
        ck.obligations += 1
        ck.violations.append((p, '%s: loading panics' % label))
        return
    if not r.get('ok'):
        # the loader may refuse a quantifier over members of different kinds; that is not a miscount
        ck.extra['rejected'] = ck.extra.get('rejected', 0) + 1
        return
    v = tr.evaluate(r)
    want = quantifier(kind, n, ts)

    def on_sat(model):
        docj = tr.render_doc(model)
        nq = br.call(cmd='eval', yaml=yaml, opts=None, doc=docj, mode='flat')
        ns = [br.call(cmd='eval', yaml=s[0], opts=None, doc=docj, mode='flat') for s in singles]
        path = ck.write_replay(safe(label), {'rule': yaml, 'doc': docj, 'native_quantified': nq, 'member_rules': [s[0] for s in singles],
                                             'native_members': ns, 'tree': r['display']})
        if 'verdict' not in nq or any('verdict' not in x for x in ns):
            if 'panic' in nq:
                return ('violation', path, '%s: matches() panics' % label)
            return ('spurious', 'native evaluation failed')
        cnt = sum(1 for x in ns if x['verdict'])
        exp = {'any': cnt >= 1, 'all': cnt == len(ns)}.get(kind)
        if exp is None:
            # none-of: natively only "is true" is visible; take the solver's word for false-vs-missing
            exp = z3.is_true(model.eval(want, model_completion=True)) if n == 0 else (cnt >= n)
        ck.replays_ok += 1
        if nq['verdict'] == exp:
            return ('spurious', 'native run agrees with the count (%s)' % path)
        key = role(kind, n, members, r)
        kf = ck.known_match(key)
        if kf:
            excused.append(key)
            return ('known', '%s :: %s' % (key, kf['desc']))
        return ('violation', path, '%s: %d of %d members match, rule says %s [%s] doc=%s' % (
            label, cnt, len(ns), nq['verdict'], key, json.dumps(docj)))
    excused = []
    ck.obligation(label, tr.uni, (v['res'] == TRUE) != want, sample={'rule': yaml.split('\n')[2:6], 'quantifier': [kind, n]}, on_sat=on_sat)
    if excused:
        # the recorded finding must not hide anything else: where the engine leaves the member count it has to be on the
        # count of *batches* (the recorded defect, as a semantics): a batch is true iff one of its members is
        import oracle as O
        parts = O.batch_partition(members)
        bs = [O.t_or([ts[i] for i in b]) if len(b) > 1 else ts[b[0]] for b in parts]
        want_b = quantifier(kind, n, bs)

        def on_sat_b(model):
            docj = tr.render_doc(model)
            nq = br.call(cmd='eval', yaml=yaml, opts=None, doc=docj, mode='flat')
            wv, wb = z3.is_true(model.eval(want, model_completion=True)), z3.is_true(model.eval(want_b, model_completion=True))
            path = ck.write_replay(safe(label) + '_beyond_known', {'rule': yaml, 'doc': docj, 'native_quantified': nq, 'by_member_count': wv,
                                                                   'by_batch_count': wb, 'batches': parts, 'tree': r['display'], 'excused_elsewhere_as': excused[0]})
            if 'verdict' not in nq:
                return ('spurious', 'native evaluation failed')
            ck.replays_ok += 1
            if nq['verdict'] in (wv, wb):
                return ('spurious', 'native run agrees with a count (%s)' % path)
            return ('violation', path, '%s: rule says %s, member count says %s, batch count says %s: not explained by %s; doc=%s' % (
                label, nq['verdict'], wv, wb, excused[0], json.dumps(docj)))
        ck.obligation(label + ':beyond-known-findings', tr.uni, z3.And((v['res'] == TRUE) != want, (v['res'] == TRUE) != want_b), on_sat=on_sat_b)


def role(kind, n, members, r):
    import C02
    if C02.several_batches(None, r):
        return 'quantifier:list-split-into-several-batches'
    k = len(members)
    kinds = {m[0] if not isinstance(m, list) else 'entry' for m in members}
    return 'quantifier:%s%s-over-%s-%s' % (kind, '' if n is None else ('0' if n == 0 else 'n'), 'one' if k == 1 else 'many', '+'.join(sorted(kinds)))


if __name__ == '__main__':
    run_check(main)
