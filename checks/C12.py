"""C12  Loading, optimising and matching are deterministic and pure.

(a) Order independence, by solver: the optimiser's HashMap iteration order is
    environment randomness.  For every template x switch combination the real
    optimiser is run repeatedly (in two bridge processes, i.e. with different
    hash seeds); every distinct tree it produces is executed as real solver MIR
    against one symbolic document and z3 decides that all of them give the same
    verdict for all documents within the bounds.
(b) Purity, over all explored paths: the executor refuses (PurityViolation) any
    write to an object that existed before solve_expression was entered (the
    rule tree, the identifier map, the document); every path of every tree of
    this check runs under that guard.  No shared mutable state => a sequence or
    an interleaving of matches() calls equals the calls run one by one.
(c) "Prints the same every time": the repeated optimise calls must produce one
    Display text per switch combination.  This sub-claim is decided by the
    concrete repeated runs (labelled so in the evidence); it is the only
    non-solver verdict of the suite.
(d) History independence: no static / thread-local besides tracing's call-site
    metadata is referenced anywhere in the crate's MIR (syntactic, all paths);
    plus concrete runs of the same (rule, switches, document) triples after
    different histories in fresh processes (labelled concrete).
Thread interleavings are not explored (Kani does not handle concurrency); the
claim for schedules rests on (b).
"""
import z3
from common import *
from treelib import *
import templates

TRUE = z3.BitVecVal(0, 64)


def main():
    ck = Check('C12', 'other')
    quick = ck.tier == 'quick'
    ck.bounds = {'optimise repetitions per switch combination': '%d in each of 2 processes' % (8 if quick else 24),
                 'doc strings': '<= 3 ASCII bytes', 'arrays': '<= 1 element' if quick else '<= 2 elements'}
    ck.assumptions = ['hash-order variants are collected by repetition (not enumerated): a variant never produced is not examined',
                      'thread schedules are not explored; purity (no write to rule/identifiers/document on any explored path) is what the schedule claim rests on']
    ck.functions |= {'solver::solve_expression and callees (write guard on pre-existing objects)', 'optimiser::{coalesce,shake,rewrite,matrix} (native)'}
    tpl = [t for t in templates.select(ck.tier, ck.seed) if t[0] in (
        'mapping', 'sequence', 'nested', 'condition', 'matrix', 'shake', 'quant-ident', 'list', 'list-mixed', 'regex-rewrite', 'modifier')]
    tpl += more_templates()
    if quick:
        import random
        rnd = random.Random(ck.seed + 12)
        quota = {'list': 4, 'list-mixed': 3, 'quant-ident': 6, 'regex-rewrite': 3, 'modifier': 4, 'condition': 6}
        tpl = templates.thin(tpl, quota, rnd)
    ck.extra['templates'] = len(tpl)
    ck.run_units([('@statics', None), ('@history', None), ('@wide', None)] + [(name, templates.render(rule)) for _, name, rule in tpl], run_unit)
    ck.finish('(a) z3: all optimiser outputs of one (rule, switches) agree on every document; (b) write guard on every explored '
              'path; (c) repeated concrete optimise calls print one text [concrete, not solver-decided]')


def more_templates():
    S, M, K, L = templates.S, templates.M, templates.K, templates.L
    out = []
    # two or more distinct merged fields: the case where HashMap order shows
    A = M((K('n'), M((K('f'), S('a')))))
    B = M((K('m'), M((K('g'), S('b')))))
    C = M((K('k'), M((K('h'), S('c')))))
    out.append(('c12', 'A and B and C nested', {'idents': {'A': A, 'B': B, 'C': C}, 'cond': ('and', ('and', ('id', 'A'), ('id', 'B')), ('id', 'C'))}))
    out.append(('c12', 'not (A and B) nested', {'idents': {'A': A, 'B': B}, 'cond': ('not', ('and', ('id', 'A'), ('id', 'B')))}))
    out.append(('c12', 'A or B or C nested', {'idents': {'A': A, 'B': B, 'C': C}, 'cond': ('or', ('or', ('id', 'A'), ('id', 'B')), ('id', 'C'))}))
    two = ('seq', [M((K('f'), S('a*'))), M((K('g'), S('b*'))), M((K('f'), S('*c'))), M((K('g'), S('*d'))), M((K('h'), S('?e'))), M((K('k'), S('?f')))])
    out.append(('c12', 'or over two merged fields', {'idents': {'A': two}, 'cond': ('id', 'A')}))
    out.append(('c12', 'not or over two merged fields', {'idents': {'A': two}, 'cond': ('not', ('id', 'A'))}))
    m = ('seq', [M((K('f'), S('a')), (K('g'), S('b'))), M((K('f'), S('c')), (K('g'), S('d'))), M((K('h'), S('e')), (K('k'), S('f'))),
                 M((K('h'), S('g')), (K('k'), S('h')))])
    out.append(('c12', 'matrix equal counts', {'idents': {'A': m}, 'cond': ('id', 'A')}))
    out.append(('c12', 'not matrix equal counts', {'idents': {'A': m}, 'cond': ('not', ('id', 'A'))}))
    return out


def statics_scan(ck):
    """(b') no shared mutable state at all: the MIR dump of the crate may reference no static / thread-local other
    than tracing's call-site metadata (a syntactic check over every function body, i.e. over all paths)"""
    import re
    path = artifacts.ensure_mir()
    bad = []
    cur = None
    for line in open(path, encoding='utf-8', errors='replace'):
        if line.startswith(('fn ', 'const ', 'static ')):
            cur = line.strip()[:160]
            # immutable tables are harmless; shared *mutable* state is what breaks purity
            if line.startswith('static ') and '__CALLSITE' not in line and (
                    line.startswith('static mut') or re.search(r'Mutex|RwLock|Once|Lazy|Cell|Atomic|Condvar|Barrier|mpsc|HashMap|HashSet|Vec<', line)):
                bad.append((cur, 'static item with interior mutability / growable state'))
        if '/*tls*/' in line:
            bad.append((cur, line.strip()[:200]))
        for m in re.finditer(r'\{alloc\d+: &([^}]*)\}', line):
            ty = m.group(1)
            if re.match(r"^(DefaultCallsite|tracing::Metadata<'_>)$", ty):
                continue
            if re.search(r'Mutex|RwLock|Once|Lazy|Cell|Atomic|Condvar|LocalKey|thread', ty):
                bad.append((cur, line.strip()[:200]))
    ck.obligations += 1
    ck.samples.append({'form': 'statics / thread-locals referenced by the crate', 'found': len(bad)})
    if not bad:
        ck.discharged += 1
        return
    p = ck.write_replay('statics', {'references': bad[:20]})
    # a demonstration is attempted by the history unit; the reference itself breaks "pure function of (rule, switches, document)"
    ck.violations.append((p, 'shared state in the crate: %s references %s' % bad[0]))


def history_unit(ck):
    """verdicts must not depend on what was loaded / optimised / matched before in the same process: a list of
    (rule, switches, document) triples is evaluated natively in one bridge process in forward order and in another in
    reverse order (documents: solver-derived matching and non-matching witnesses of each rule) [concrete runs of two
    histories; the general claim rests on the statics scan and the write guard]"""
    S_, M, K, L = templates.S, templates.M, templates.K, templates.L
    rules = []
    for pats in (['?a'], ['i?a'], ['?ab', '?b'], ['i?ab', 'i?b'], ['a*', '*b'], ['ia*', 'i*b'], ['*a*'], ['i*a*']):
        rules.append(templates.render({'idents': {'A': M((K('f'), L(*[S_(p) for p in pats]) if len(pats) > 1 else S_(pats[0])))}, 'cond': ('id', 'A')}))
    docs = [b'a', b'A', b'ab', b'AB', b'b', b'B', b'xay', b'XAY', b'']
    big = ['*x%02d*' % i for i in range(70)]
    rule_all = templates.render({'idents': {'A': M((K('f', 'all'), L(*[S_(p) for p in big])))}, 'cond': ('id', 'A')})
    rule_of = templates.render({'idents': {'A': M((K('f', ('of', 66)), L(*[S_(p) for p in big])))}, 'cond': ('id', 'A')})
    full = ''.join('x%02d' % i for i in range(70)).encode()
    part = ''.join('x%02d' % i for i in range(64)).encode()
    triples = []
    for y in rules:
        for opts in (None, [True, True, True, True]):
            for d in docs:
                triples.append((y, opts, d))
    for y in (rule_all, rule_of):
        for d in (full, part, full[:12], part):
            triples.append((y, None, d))

    def run(order):
        br = artifacts.Bridge()
        out = {}
        try:
            for i in order:
                y, opts, d = triples[i]
                r = br.call(cmd='eval', yaml=y, opts=opts, doc={'$obj': [[[102], {'$str': list(d)}]]}, mode='flat')
                out.setdefault(i, []).append(r.get('verdict', r.get('panic')))
        finally:
            br.close()
        return out
    n = len(triples)
    a = run(list(range(n)))
    b = run(list(range(n - 1, -1, -1)))
    c = run([i for i in range(0, n, 2)] + [i for i in range(1, n, 2)] + list(range(n)))
    ck.obligations += 1
    diff = [i for i in range(n) if len({str(v) for v in a[i] + b[i] + c[i]}) > 1]
    ck.extra['history_evaluations'] = 4 * n
    ck.replays_ok += 4 * n
    if not diff:
        ck.discharged += 1
    else:
        i = diff[0]
        p = ck.write_replay('history', {'rule': triples[i][0], 'opts': triples[i][1], 'doc': triples[i][2].decode('latin1'),
                                        'verdict_forward': a[i], 'verdict_reverse': b[i], 'verdict_interleaved': c[i],
                                        'how': 'the same (rule, switches, document) evaluated after different histories in fresh bridge processes'})
        ck.violations.append((p, 'a verdict depends on what was loaded or matched before: %s vs %s vs %s for doc %r' % (a[i], b[i], c[i], triples[i][2])))
    ck.samples.append({'form': 'history independence (concrete)', 'triples': n, 'orders': 3})


def wide_unit(ck):
    """rules far wider than the templates (26-entry mappings, 26 or-ed / and-ed identifiers, a 30-member list): the
    optimiser must print one text and give one verdict however often it is asked [concrete runs: a pass that treats
    wide groups differently - chunking, parallel workers - is out of the templates' reach]"""
    import string
    letters = string.ascii_lowercase
    rules = {}
    rules['mapping of 26 fields under not'] = 'detection:\n  A:\n' + ''.join("    f%s: 'x%s'\n" % (c, c) for c in letters) + \
        '  condition: not A\ntrue_positives: []\ntrue_negatives: []\n'
    ids = ''.join("  I%d:\n    g%s: 'v%s'\n" % (i, c, c) for i, c in enumerate(letters))
    rules['26 identifiers or-ed'] = 'detection:\n' + ids + '  condition: ' + ' or '.join('I%d' % i for i in range(26)) + '\ntrue_positives: []\ntrue_negatives: []\n'
    rules['26 identifiers and-ed under not'] = 'detection:\n' + ids + '  condition: not (' + ' and '.join('I%d' % i for i in range(26)) + ')\ntrue_positives: []\ntrue_negatives: []\n'
    kinds = ['%s*', '*%s', '*%s*', 'i%s', '?%s', '%s']
    rules['list of 30 mixed members'] = 'detection:\n  A:\n    f:\n' + ''.join("    - '%s'\n" % (kinds[i % 6] % ('m%02d' % i)) for i in range(30)) + \
        '  condition: A\ntrue_positives: []\ntrue_negatives: []\n'

    def doc(fields):
        return {'$obj': [[list(k.encode()), {'$str': list(v.encode())}] for k, v in fields.items()]}
    docs = [doc({('f' + c): ('x' + c) for c in letters}), doc({('f' + c): ('x' + c) for c in letters if c != 'c'} | {'fq': 'no'}),
            doc({('g' + c): ('v' + c) for c in letters if c not in 'dk'} | {'gp': 'no'}), doc({'f': 'm07zz'}), doc({'f': 'zzm13'}), doc({})]
    br1, br2 = ck.bridge(), artifacts.Bridge()
    try:
        for nm, y in rules.items():
            base = br1.call(cmd='load', yaml=y, opts=None)
            if not base.get('ok'):
                ck.inconclusive.append('wide rule %r does not load: %r' % (nm, base))
                continue
            for opts in ([True, True, True, True], [False, False, True, False], [False, True, True, False], [True, False, True, True]):
                ck.obligations += 1
                shows, verdicts = set(), {}
                for rep in range(6):
                    for br in (br1, br2):
                        r = br.call(cmd='load', yaml=y, opts=opts)
                        shows.add(r.get('display') or str(r.get('panic')))
                        for di, d in enumerate(docs):
                            v = br.call(cmd='eval', yaml=y, opts=opts, doc=d, mode='flat')
                            verdicts.setdefault(di, set()).add(str(v.get('verdict', v.get('panic'))))
                ck.replays_ok += 12 * (1 + len(docs))
                split = [di for di, vs in verdicts.items() if len(vs) > 1]
                if len(shows) == 1 and not split:
                    ck.discharged += 1
                    continue
                p = ck.write_replay('wide_' + safe(nm) + '_' + opts_label(opts), {'rule': y, 'opts': opts, 'distinct_displays': sorted(shows)[:4],
                                                                                 'documents_with_several_verdicts': [docs[di] for di in split][:2]})
                what = ('%d different printed expressions' % len(shows)) if len(shows) > 1 else 'different verdicts for one document'
                ck.violations.append((p, 'wide rule %r, switches %s: repeated optimise() gives %s' % (nm, opts_label(opts), what)))
    finally:
        br2.close()
    ck.samples.append({'form': 'wide rules, repeated optimise (concrete)', 'rules': len(rules)})


def run_unit(ck, unit):
    name, yaml = unit
    if name == '@statics':
        statics_scan(ck)
        return
    if name == '@wide':
        wide_unit(ck)
        return
    if name == '@history':
        history_unit(ck)
        return
    quick = ck.tier == 'quick'
    reps = 8 if quick else 24
    br1 = ck.bridge()
    br2 = artifacts.Bridge()
    try:
        base, variants, displays = collect_variants(ck, br1, yaml, reps)
        if 'panic' in base or not base.get('ok'):
            return
        _, v2, d2 = collect_variants(ck, br2, yaml, reps)
    finally:
        br2.close()
    for k, v in v2.items():
        variants.setdefault(k, v)
    for k, v in d2.items():
        displays.setdefault(k, set()).update(v)
    # (c) one printed form per switch combination  [concrete]
    for opts, ds in sorted(displays.items()):
        ck.obligations += 1
        label = '%s opts=%s' % (name, opts_label(opts))
        if len(ds) == 1:
            ck.discharged += 1
        else:
            p = ck.write_replay(safe(label) + '_display', {'rule': yaml, 'opts': list(opts), 'distinct_displays': sorted(ds)})
            key = 'display-order:hashmap-iteration'
            kf = ck.known_match(key)
            if kf:
                ck.known_hits.append('%s :: %s' % (key, kf['desc']))
            else:
                ck.violations.append((p, '%s: optimise() printed %d different expressions over %d calls' % (label, len(ds), 2 * reps)))
    # (a) all variants of one switch combination agree, (b) under the write guard
    by_opts = {}
    for txt, (opts, rj) in variants.items():
        by_opts.setdefault(tuple(opts), []).append(rj)
    # variants are keyed by the first switch combination that produced them; group by tree family instead:
    groups = {}
    for opts, ds in displays.items():
        pass
    wide = name.split('/')[0] in ('nested', 'shake', 'matrix', 'c12')
    tr = TreeRunner(ck, Bounds(str_cap=3, arr_cap=2 if (wide or not quick) else 1, depth=2))
    tr.uni.numstr_cap = 2
    evald = {}
    try:
        for txt, (opts, rj) in variants.items():
            evald[txt] = (opts, rj, tr.evaluate(rj))
            ck.extra['programs'] = ck.extra.get('programs', 0) + 1
    except PurityViolation as e:
        ck.obligations += 1
        p = ck.write_replay(safe(name) + '_purity', {'rule': yaml, 'error': str(e)})
        ck.violations.append((p, '%s: matching writes to the rule / identifiers / document: %s' % (name, e)))
        return
    ck.extra['paths_under_write_guard'] = ck.extra.get('paths_under_write_guard', 0) + sum(x[2]['paths'] for x in evald.values())
    # which variants belong to the same switch combination?  re-derive from displays: a variant's display text
    by_display = {}
    for txt, (opts, rj, v) in evald.items():
        by_display[rj['display'] + ' | ' + json.dumps(rj['idents'], sort_keys=True)] = (rj, v)
    for opts, ds in sorted(displays.items()):
        ds = sorted(ds)
        if len(ds) < 2:
            continue
        first = by_display.get(ds[0])
        for other in ds[1:]:
            o = by_display.get(other)
            if first is None or o is None:
                continue
            label = '%s opts=%s order-variant' % (name, opts_label(opts))

            def on_sat(model, a=first, b=o, label=label, opts=opts):
                docj = tr.render_doc(model)
                n0 = br1.call(cmd='eval_tree', expr=a[0]['expr'], idents=a[0]['idents'], doc=docj, mode='flat')
                n1 = br1.call(cmd='eval_tree', expr=b[0]['expr'], idents=b[0]['idents'], doc=docj, mode='flat')
                path = ck.write_replay(safe(label), {'rule': yaml, 'opts': list(opts), 'doc': docj, 'tree_a': a[0]['display'], 'tree_b': b[0]['display'],
                                                     'native_a': n0, 'native_b': n1})
                if 'verdict' not in n0 or 'verdict' not in n1:
                    return ('spurious', 'native failure')
                ck.replays_ok += 1
                if n0['verdict'] == n1['verdict']:
                    return ('spurious', 'native verdicts agree')
                key = 'verdict-order:hashmap-iteration-under-negation'
                kf = ck.known_match(key)
                if kf:
                    return ('known', '%s :: %s' % (key, kf['desc']))
                return ('violation', path, '%s: two optimise() outputs of the same rule and switches disagree on %s' % (label, json.dumps(docj)))
            ck.obligation(label, tr.uni, (first[1]['res'] == TRUE) != (o[1]['res'] == TRUE),
                          sample={'rule': name, 'a': ds[0][:120], 'b': other[:120]}, on_sat=on_sat)


if __name__ == '__main__':
    run_check(main)
