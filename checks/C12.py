"""C12  Loading, optimising and matching are deterministic and pure.

(a) Order independence, by solver: the optimiser's HashMap iteration order is
    environment randomness.  For every template x switch combination the real
    optimiser is run repeatedly (in two bridge processes, i.e. with different
    hash seeds); every distinct tree it produces is executed as real solver MIR
    against one symbolic document and z3 decides that all of them give the same
    verdict for all documents within the bounds.
(b) Purity, over all explored paths: the executor refuses (PurityViolation) any
    write to an object that existed before solve_expression was entered (the
    rule tree, the identifier map, the document); every path of every tree of
    this check runs under that guard.  No shared mutable state => a sequence or
    an interleaving of matches() calls equals the calls run one by one.
(c) "Prints the same every time": the repeated optimise calls must produce one
    Display text per switch combination.  This sub-claim is decided by the
    concrete repeated runs (labelled so in the evidence); it is the only
    non-solver verdict of the suite.
Thread interleavings are not explored (Kani does not handle concurrency); the
claim for schedules rests on (b).
"""
import z3
from common import *
from treelib import *
import templates

TRUE = z3.BitVecVal(0, 64)


def main():
    ck = Check('C12', 'other')
    quick = ck.tier == 'quick'
    ck.bounds = {'optimise repetitions per switch combination': '%d in each of 2 processes' % (8 if quick else 24),
                 'doc strings': '<= 3 ASCII bytes', 'arrays': '<= 1 element' if quick else '<= 2 elements'}
    ck.assumptions = ['hash-order variants are collected by repetition (not enumerated): a variant never produced is not examined',
                      'thread schedules are not explored; purity (no write to rule/identifiers/document on any explored path) is what the schedule claim rests on']
    ck.functions |= {'solver::solve_expression and callees (write guard on pre-existing objects)', 'optimiser::{coalesce,shake,rewrite,matrix} (native)'}
    tpl = [t for t in templates.select(ck.tier, ck.seed) if t[0] in (
        'mapping', 'sequence', 'nested', 'condition', 'matrix', 'shake', 'quant-ident', 'list', 'list-mixed', 'regex-rewrite', 'modifier')]
    tpl += more_templates()
    if quick:
        import random
        rnd = random.Random(ck.seed + 12)
        quota = {'list': 4, 'list-mixed': 3, 'quant-ident': 6, 'regex-rewrite': 3, 'modifier': 4, 'condition': 6}
        tpl = templates.thin(tpl, quota, rnd)
    ck.extra['templates'] = len(tpl)
    ck.run_units([(name, templates.render(rule)) for _, name, rule in tpl], run_unit)
    ck.finish('(a) z3: all optimiser outputs of one (rule, switches) agree on every document; (b) write guard on every explored '
              'path; (c) repeated concrete optimise calls print one text [concrete, not solver-decided]')


def more_templates():
    S, M, K, L = templates.S, templates.M, templates.K, templates.L
    out = []
    # two or more distinct merged fields: the case where HashMap order shows
    A = M((K('n'), M((K('f'), S('a')))))
    B = M((K('m'), M((K('g'), S('b')))))
    C = M((K('k'), M((K('h'), S('c')))))
    out.append(('c12', 'A and B and C nested', {'idents': {'A': A, 'B': B, 'C': C}, 'cond': ('and', ('and', ('id', 'A'), ('id', 'B')), ('id', 'C'))}))
    out.append(('c12', 'not (A and B) nested', {'idents': {'A': A, 'B': B}, 'cond': ('not', ('and', ('id', 'A'), ('id', 'B')))}))
    out.append(('c12', 'A or B or C nested', {'idents': {'A': A, 'B': B, 'C': C}, 'cond': ('or', ('or', ('id', 'A'), ('id', 'B')), ('id', 'C'))}))
    two = ('seq', [M((K('f'), S('a*'))), M((K('g'), S('b*'))), M((K('f'), S('*c'))), M((K('g'), S('*d'))), M((K('h'), S('?e'))), M((K('k'), S('?f')))])
    out.append(('c12', 'or over two merged fields', {'idents': {'A': two}, 'cond': ('id', 'A')}))
    out.append(('c12', 'not or over two merged fields', {'idents': {'A': two}, 'cond': ('not', ('id', 'A'))}))
    m = ('seq', [M((K('f'), S('a')), (K('g'), S('b'))), M((K('f'), S('c')), (K('g'), S('d'))), M((K('h'), S('e')), (K('k'), S('f'))),
                 M((K('h'), S('g')), (K('k'), S('h')))])
    out.append(('c12', 'matrix equal counts', {'idents': {'A': m}, 'cond': ('id', 'A')}))
    out.append(('c12', 'not matrix equal counts', {'idents': {'A': m}, 'cond': ('not', ('id', 'A'))}))
    return out


def run_unit(ck, unit):
    name, yaml = unit
    quick = ck.tier == 'quick'
    reps = 8 if quick else 24
    br1 = ck.bridge()
    br2 = artifacts.Bridge()
    try:
        base, variants, displays = collect_variants(ck, br1, yaml, reps)
        if 'panic' in base or not base.get('ok'):
            return
        _, v2, d2 = collect_variants(ck, br2, yaml, reps)
    finally:
        br2.close()
    for k, v in v2.items():
        variants.setdefault(k, v)
    for k, v in d2.items():
        displays.setdefault(k, set()).update(v)
    # (c) one printed form per switch combination  [concrete]
    for opts, ds in sorted(displays.items()):
        ck.obligations += 1
        label = '%s opts=%s' % (name, opts_label(opts))
        if len(ds) == 1:
            ck.discharged += 1
        else:
            p = ck.write_replay(safe(label) + '_display', {'rule': yaml, 'opts': list(opts), 'distinct_displays': sorted(ds)})
            key = 'display-order:hashmap-iteration'
            kf = ck.known_match(key)
            if kf:
                ck.known_hits.append('%s :: %s' % (key, kf['desc']))
            else:
                ck.violations.append((p, '%s: optimise() printed %d different expressions over %d calls' % (label, len(ds), 2 * reps)))
    # (a) all variants of one switch combination agree, (b) under the write guard
    by_opts = {}
    for txt, (opts, rj) in variants.items():
        by_opts.setdefault(tuple(opts), []).append(rj)
    # variants are keyed by the first switch combination that produced them; group by tree family instead:
    groups = {}
    for opts, ds in displays.items():
        pass
    tr = TreeRunner(ck, Bounds(str_cap=3, arr_cap=1 if quick else 2, depth=2))
    tr.uni.numstr_cap = 2
    evald = {}
    try:
        for txt, (opts, rj) in variants.items():
            evald[txt] = (opts, rj, tr.evaluate(rj))
            ck.extra['programs'] = ck.extra.get('programs', 0) + 1
    except PurityViolation as e:
        ck.obligations += 1
        p = ck.write_replay(safe(name) + '_purity', {'rule': yaml, 'error': str(e)})
        ck.violations.append((p, '%s: matching writes to the rule / identifiers / document: %s' % (name, e)))
        return
    ck.extra['paths_under_write_guard'] = ck.extra.get('paths_under_write_guard', 0) + sum(x[2]['paths'] for x in evald.values())
    # which variants belong to the same switch combination?  re-derive from displays: a variant's display text
    by_display = {}
    for txt, (opts, rj, v) in evald.items():
        by_display[rj['display'] + ' | ' + json.dumps(rj['idents'], sort_keys=True)] = (rj, v)
    for opts, ds in sorted(displays.items()):
        ds = sorted(ds)
        if len(ds) < 2:
            continue
        first = by_display.get(ds[0])
        for other in ds[1:]:
            o = by_display.get(other)
            if first is None or o is None:
                continue
            label = '%s opts=%s order-variant' % (name, opts_label(opts))

            def on_sat(model, a=first, b=o, label=label, opts=opts):
                docj = tr.render_doc(model)
                n0 = br1.call(cmd='eval_tree', expr=a[0]['expr'], idents=a[0]['idents'], doc=docj, mode='flat')
                n1 = br1.call(cmd='eval_tree', expr=b[0]['expr'], idents=b[0]['idents'], doc=docj, mode='flat')
                path = ck.write_replay(safe(label), {'rule': yaml, 'opts': list(opts), 'doc': docj, 'tree_a': a[0]['display'], 'tree_b': b[0]['display'],
                                                     'native_a': n0, 'native_b': n1})
                if 'verdict' not in n0 or 'verdict' not in n1:
                    return ('spurious', 'native failure')
                ck.replays_ok += 1
                if n0['verdict'] == n1['verdict']:
                    return ('spurious', 'native verdicts agree')
                key = 'verdict-order:hashmap-iteration-under-negation'
                kf = ck.known_match(key)
                if kf:
                    return ('known', '%s :: %s' % (key, kf['desc']))
                return ('violation', path, '%s: two optimise() outputs of the same rule and switches disagree on %s' % (label, json.dumps(docj)))
            ck.obligation(label, tr.uni, (first[1]['res'] == TRUE) != (o[1]['res'] == TRUE),
                          sample={'rule': name, 'a': ds[0][:120], 'b': other[:120]}, on_sat=on_sat)


if __name__ == '__main__':
    run_check(main)
