"""Shared code of the template-driven tree checks (C01, C02, C03, C08, C12,
C16, C17): load rules through the native bridge, import the trees, run the real
solver MIR on them against one shared symbolic document."""
import json
import z3
from common import *
from mirsym.doc import SymDoc, Bounds


def rule_yaml(idents, condition, tp=(), tn=()):
    """idents: {name: yaml-block-text (already indented by 4)}"""
    out = ['detection:']
    for k, v in idents.items():
        out.append('  %s:' % k)
        out.append(v)
    out.append('  condition: %s' % condition)
    out.append('true_positives: []')
    out.append('true_negatives: []')
    return '\n'.join(out) + '\n'


def block(text, indent=4):
    pad = ' ' * indent
    return '\n'.join(pad + l for l in text.strip('\n').split('\n'))


class TreeRunner:
    """one symbolic document shared by every tree evaluated through it"""

    def __init__(self, ck, bounds=None, uni=None, as_object=False):
        self.ck = ck
        self.prog = ck.program()
        self.imp = models_tau.TreeImporter(self.prog)
        self.uni = uni or engine.Universe()
        self.bounds = bounds or Bounds()
        self.doc = SymDoc(self.uni, 'doc', self.bounds)
        if as_object:
            self.doc.as_object = True
        self.ex = ck.new_engine(self.prog, uni=self.uni)

    def evaluate(self, rj):
        """rj: bridge 'load' answer -> dict(res, panic, panics, finds, paths)"""
        e = self.imp.expr(rj['expr'])
        ids = self.imp.identifiers(rj['idents'])
        ex = self.ex
        ex.frozen_below = next_oid()
        results = ex.explore('solve_expression', [Ref(Cont([e]), 0), Ref(Cont([ids]), 0), Ref(Cont([self.doc]), 0)])
        for p in results:
            self.ck.blocks |= p.blocks
        val, pc, panics = summarise_paths(results)
        if not coverage_complete(self.ck, self.uni, results):
            raise Inconclusive('paths do not cover the input space')
        finds = []
        for p in results:
            for ev in p.events:
                finds.append((p.cond(), ev))
        return {'res': sr_term(val) if val is not None else None, 'panic': pc, 'panics': panics,
                'finds': finds, 'paths': len(results)}

    def render_doc(self, model):
        return self.doc.render(model)


def flatten_events(finds):
    """[(cond, event)] with nested ('cond', c, ev) -> [(cond, ('find', path, key))]"""
    out = []
    for c, ev in finds:
        while ev[0] == 'cond':
            c = b_and(c, ev[1])
            ev = ev[2]
        out.append((c, ev))
    return out


def tree_text(rj):
    return json.dumps([rj['expr'], rj['idents'], rj.get('engine_probe_mismatches')], sort_keys=True)


def collect_variants(ck, br, yaml, repeats, combos=None, on_panic=None):
    """run the real loader and optimiser: -> (base, {tree_text: (opts, rj)},
    displays {opts tuple: set of Display strings}) ; base is None when the
    rule is rejected"""
    base = br.call(cmd='load', yaml=yaml, opts=None)
    if 'panic' in base or not base.get('ok'):
        return base, {}, {}
    variants = {}
    displays = {}
    for opts in (combos or artifacts.OPT_COMBOS):
        if not any(opts):
            continue
        for _ in range(repeats):
            r = br.call(cmd='load', yaml=yaml, opts=opts)
            if 'panic' in r:
                if on_panic:
                    on_panic(opts, r)
                break
            displays.setdefault(tuple(opts), set()).add(r['display'] + ' | ' + json.dumps(r['idents'], sort_keys=True))
            txt = tree_text(r)
            if txt not in variants:
                variants[txt] = (opts, r)
    return base, variants, displays


def opts_label(opts):
    return ''.join('csrm'[i] if opts[i] else '-' for i in range(4))


def safe(s):
    return ''.join(c if c.isalnum() or c in '-_.' else '_' for c in s)[:100]


def children(j):
    t = j.get('t')
    if t == 'BooleanGroup':
        return j['g']
    if t == 'BooleanExpression':
        return [j['l'], j['r']]
    if t in ('Match', 'Negate', 'Nested'):
        return [j['e']]
    if t == 'Matrix':
        return [c for row in j['r'] for c in row if c is not None]
    return []


def any_node(j, pred):
    if pred(j):
        return True
    return any(any_node(c, pred) for c in children(j))


def probe_docs(rj):
    """documents derived from the bridge's engine-object probes: one string field each"""
    out = []
    for m in rj.get('engine_probe_mismatches', []) or []:
        out.append(({'$obj': [[m['field'], {'$str': m['probe']}]]}, m['what']))
    return out
