"""Shared code of the template-driven tree checks (C01, C02, C03, C08, C12,
C16, C17): load rules through the native bridge, import the trees, run the real
solver MIR on them against one shared symbolic document."""
import json
import z3
from common import *
from mirsym.doc import SymDoc, Bounds


def rule_yaml(idents, condition, tp=(), tn=()):
    """idents: {name: yaml-block-text (already indented by 4)}"""
    out = ['detection:']
    for k, v in idents.items():
        out.append('  %s:' % k)
        out.append(v)
    out.append('  condition: %s' % condition)
    out.append('true_positives: []')
    out.append('true_negatives: []')
    return '\n'.join(out) + '\n'


def block(text, indent=4):
    pad = ' ' * indent
    return '\n'.join(pad + l for l in text.strip('\n').split('\n'))


class TreeRunner:
    """one symbolic document shared by every tree evaluated through it"""

    def __init__(self, ck, bounds=None, uni=None, as_object=False, summarise=None):
        self.ck = ck
        self.prog = ck.program()
        self.imp = models_tau.TreeImporter(self.prog)
        self.uni = uni or engine.Universe()
        self.bounds = bounds or Bounds()
        self.doc = SymDoc(self.uni, 'doc', self.bounds)
        if as_object:
            self.doc.as_object = True
        self.ex = ck.new_engine(self.prog, uni=self.uni) if summarise is None else ck.new_engine(self.prog, uni=self.uni, summarise=summarise)

    def evaluate(self, rj):
        """rj: bridge 'load' answer -> dict(res, panic, panics, finds, paths)"""
        if rj.get('engine_probe_mismatches') and not getattr(self.ck, 'handles_probes', False):
            # the model of a compiled engine (automaton, regex set) is built from its description in the tree; the bridge
            # found that the real object behaves differently, so nothing derived from this tree may count as a pass
            what = sorted({m['what'] for m in rj['engine_probe_mismatches']})[0]
            self.ck.inconclusive.append('a compiled engine inside %s is not the one its description says: %s' % (rj.get('display', '?')[:120], what))
        e = self.imp.expr(rj['expr'])
        ids = self.imp.identifiers(rj['idents'])
        ex = self.ex
        ex.frozen_below = next_oid()
        results = ex.explore('solve_expression', [Ref(Cont([e]), 0), Ref(Cont([ids]), 0), Ref(Cont([self.doc]), 0)])
        for p in results:
            self.ck.blocks |= p.blocks
        val, pc, panics = summarise_paths(results)
        if not coverage_complete(self.ck, self.uni, results):
            raise Inconclusive('paths do not cover the input space')
        finds = []
        for p in results:
            for ev in p.events:
                finds.append((p.cond(), ev))
        return {'res': sr_term(val) if val is not None else None, 'panic': pc, 'panics': panics,
                'finds': finds, 'paths': len(results), 'results': results}

    def render_doc(self, model):
        return self.doc.render(model)


def flatten_events(finds):
    """[(cond, event)] with nested ('cond', c, ev) -> [(cond, ('find', path, key))]"""
    out = []
    for c, ev in finds:
        while ev[0] == 'cond':
            c = b_and(c, ev[1])
            ev = ev[2]
        out.append((c, ev))
    return out


def tree_text(rj):
    return json.dumps([rj['expr'], rj['idents'], rj.get('engine_probe_mismatches')], sort_keys=True)


def collect_variants(ck, br, yaml, repeats, combos=None, on_panic=None):
    """run the real loader and optimiser: -> (base, {tree_text: (opts, rj)},
    displays {opts tuple: set of Display strings}) ; base is None when the
    rule is rejected"""
    base = br.call(cmd='load', yaml=yaml, opts=None)
    if 'panic' in base or not base.get('ok'):
        return base, {}, {}
    variants = {}
    displays = {}
    for opts in (combos or artifacts.OPT_COMBOS):
        if not any(opts):
            continue
        for _ in range(repeats):
            r = br.call(cmd='load', yaml=yaml, opts=opts)
            if 'panic' in r:
                if on_panic:
                    on_panic(opts, r)
                break
            displays.setdefault(tuple(opts), set()).add(r['display'] + ' | ' + json.dumps(r['idents'], sort_keys=True))
            txt = tree_text(r)
            if txt not in variants:
                variants[txt] = (opts, r)
    return base, variants, displays


def opts_label(opts):
    return ''.join('csrm'[i] if opts[i] else '-' for i in range(4))


def safe(s):
    return ''.join(c if c.isalnum() or c in '-_.' else '_' for c in s)[:100]


def children(j):
    t = j.get('t')
    if t == 'BooleanGroup':
        return j['g']
    if t == 'BooleanExpression':
        return [j['l'], j['r']]
    if t in ('Match', 'Negate', 'Nested'):
        return [j['e']]
    if t == 'Matrix':
        return [c for row in j['r'] for c in row if c is not None]
    return []


def any_node(j, pred):
    if pred(j):
        return True
    return any(any_node(c, pred) for c in children(j))


def fold_probe_docs(rj):
    """*concrete* probe documents for trees that hold a regex: the solver's documents are ASCII and the regex model folds
    ASCII case only, while `(?i)` in the regex crate folds Unicode (k ~ U+212A KELVIN SIGN, s ~ U+017F LONG S).  One
    string field each, built from the alphanumeric runs of the pattern with those partners substituted."""
    out, seen = [], set()

    def walk(j):
        if isinstance(j, dict):
            if j.get('t') == 'Search' and isinstance(j.get('s'), dict):
                s = j['s']
                pats = []
                if s.get('t') == 'Regex':
                    pats = [bytes(s['p'])]
                elif s.get('t') == 'RegexSet':
                    pats = [bytes(p) for p in s.get('p', []) if isinstance(p, list)]
                for p in pats:
                    try:
                        txt = p.decode('utf-8')
                    except UnicodeDecodeError:
                        continue
                    run = ''.join(c for c in txt if c.isalnum())
                    if not run or not any(c in 'ksKS' for c in run):
                        continue
                    sub = run.replace('k', '\u212a').replace('K', '\u212a').replace('s', '\u017f').replace('S', '\u017f')
                    for v in (sub, sub + 'x', 'x' + sub, sub.upper(), run.upper(), run):
                        key = (bytes(j['f']), v)
                        if key not in seen:
                            seen.add(key)
                            out.append(({'$obj': [[j['f'], {'$str': list(v.encode('utf-8'))}]]}, 'unicode case folding of %r' % txt))
            for v in j.values():
                walk(v)
        elif isinstance(j, list):
            for v in j:
                walk(v)
    walk(rj.get('expr'))
    walk(rj.get('idents'))
    return out


def probe_docs(rj):
    """documents derived from the bridge's engine-object probes: one string field each"""
    out = []
    for m in rj.get('engine_probe_mismatches', []) or []:
        out.append(({'$obj': [[m['field'], {'$str': m['probe']}]]}, m['what']))
    return out


# ---------------------------------------------------------------------------
# order normal form of an exported tree.  It is the device that keeps a recorded (known) finding from hiding anything
# else: the recorded C01 findings are all "the optimiser evaluates the same predicates in another order / drops a double
# negation", which only shows through missing-vs-false underneath a negation.  Two trees that differ in nothing but that
# have the same normal form semantics, so `orig != opt  and  norm(orig) != norm(opt)` is what the recorded findings do
# not explain.

def _top_fields(j):
    t = j.get('t')
    if t in ('Search', 'Nested', 'Field', 'Cast'):
        return [bytes(j['f'])]
    if t == 'BooleanExpression':
        return _top_fields(j['l']) + _top_fields(j['r'])
    if t == 'BooleanGroup':
        return [f for g in j['g'] for f in _top_fields(g)]
    if t in ('Negate', 'Match'):
        return _top_fields(j['e'])
    if t == 'Matrix':
        return [bytes(c) for c in j['c']]
    if t == 'Identifier':
        return [b'\xff' + bytes(j['f'])]
    return []


def _restore_column(j, idx_bytes, col):
    """a matrix cell addresses its column by a one-character key: put the field name back (not inside nested bodies)"""
    t = j.get('t')
    j = dict(j)
    if t in ('Search', 'Nested', 'Field', 'Cast'):
        if bytes(j['f']) == idx_bytes:
            j['f'] = list(col)
        return j
    if t == 'BooleanExpression':
        j['l'] = _restore_column(j['l'], idx_bytes, col)
        j['r'] = _restore_column(j['r'], idx_bytes, col)
    elif t == 'BooleanGroup':
        j['g'] = [_restore_column(g, idx_bytes, col) for g in j['g']]
    elif t in ('Negate', 'Match'):
        j['e'] = _restore_column(j['e'], idx_bytes, col)
    return j


def normalise_tree(rj, idents_override=None):
    """-> {'expr', 'idents': []}: identifiers inlined, matrices expanded to or-of-ands, and/or chains flattened,
    members of every and/or group ordered by the first field they read (stable), double negations removed.  The
    members of a group that is *counted* (directly under all()/of()) keep their number and order."""
    idents = {bytes(k): v for k, v in rj['idents']}
    if idents_override:
        idents.update(idents_override)

    def key(j):
        fs = sorted(_top_fields(j))
        return fs[0] if fs else b''

    def group(op, members, counted=False):
        flat = []
        for m in members:
            if not counted and m.get('t') == 'BooleanGroup' and m['op'] == op:
                flat.extend(m['g'])
            else:
                flat.append(m)
        if not counted:
            flat = [m for _, _, m in sorted(((key(m), i, m) for i, m in enumerate(flat)), key=lambda x: (x[0], x[1]))]
        if len(flat) == 1 and not counted:
            return flat[0]
        return {'t': 'BooleanGroup', 'op': op, 'g': flat}

    def go(j, depth=0, counted=False):
        if depth > 40:
            raise Inconclusive('identifier cycle while normalising')
        t = j.get('t')
        if t == 'Identifier':
            name = bytes(j['f'])
            if name not in idents:
                return j
            return go(idents[name], depth + 1, counted)
        if t == 'BooleanGroup':
            return group(j['op'], [go(g, depth + 1) for g in j['g']], counted)
        if t == 'BooleanExpression' and j['op'] in ('And', 'Or'):
            return group(j['op'], [go(j['l'], depth + 1), go(j['r'], depth + 1)])
        if t == 'BooleanExpression':
            return j
        if t == 'Negate':
            e = go(j['e'], depth + 1)
            if e.get('t') == 'Negate':
                return e['e']
            return {'t': 'Negate', 'e': e}
        if t == 'Match':
            return {'t': 'Match', 'm': j['m'], 'e': go(j['e'], depth + 1, counted=True)}
        if t == 'Nested':
            return {'t': 'Nested', 'f': j['f'], 'e': go(j['e'], depth + 1)}
        if t == 'Matrix':
            rows = []
            for row in j['r']:
                cells = []
                for i, c in enumerate(row):
                    if c is not None:
                        cells.append(go(_restore_column(c, chr(i).encode('utf-8'), j['c'][i]), depth + 1))
                rows.append(group('And', cells))
            return group('Or', rows, counted)
        return j
    return {'expr': go(rj['expr']), 'idents': []}


def counted_identifiers(rj):
    out = []
    any_node(rj['expr'], lambda j: j.get('t') == 'Match' and j['e'].get('t') == 'Identifier' and out.append(bytes(j['e']['f'])))
    return sorted(set(out))
