"""C02  Verdicts follow the documented rule language.

For each template rule the real loader (Rule::from_str, natively through the
bridge) produces the tree; the real solver MIR is executed on it against a
symbolic document; an independent reference interpreter (checks/oracle.py)
computes the verdict the rule language defines from the *abstract syntax of the
YAML text* over the same symbolic document; z3 decides

        matches(rule, doc)  !=  reference(rule text, doc)

for all documents within the bounds, including wrong value kinds, arrays,
nulls, nested objects and absent fields.
"""
import os
import z3
from common import *
from treelib import *
import templates
import oracle as O

TRUE = z3.BitVecVal(0, 64)


def ambiguous(rule):
    """all(X)/of(X, n) where X is a one-entry mapping whose value is a list:
    the statement does not say whether the entry or the list members are
    counted (excluded, DESIGN C02)"""
    def walk(c):
        if c[0] in ('all', 'of'):
            X = rule['idents'][c[1]]
            if X[0] == 'map' and len(X[1]) == 1 and X[1][0][1][0] == 'list':
                return True
        return any(walk(x) for x in c[1:] if isinstance(x, tuple) and x and isinstance(x[0], str) and x[0] in ('and', 'or', 'not', 'all', 'of'))
    return walk(rule['cond'])


def big_integer_constant(x):
    """the rule text holds a YAML integer above i64::MAX (role of a known finding)"""
    if isinstance(x, tuple) and len(x) == 2 and x[0] == 'i' and isinstance(x[1], int) and not isinstance(x[1], bool):
        return x[1] > (1 << 63) - 1
    if isinstance(x, dict):
        return any(big_integer_constant(v) for v in x.values())
    if isinstance(x, (list, tuple)):
        return any(big_integer_constant(v) for v in x)
    return False


def floatify(x):
    if isinstance(x, tuple) and len(x) == 2 and x[0] == 'i' and isinstance(x[1], int) and not isinstance(x[1], bool) and x[1] > (1 << 63) - 1:
        return ('f', float(x[1]))
    if isinstance(x, dict):
        return {k: floatify(v) for k, v in x.items()}
    if isinstance(x, list):
        return [floatify(v) for v in x]
    if isinstance(x, tuple):
        return tuple(floatify(v) for v in x)
    return x


def several_batches(rule, r):
    """a quantified key list whose members the loader split into more than one
    batch, at least one batch holding several members"""
    idents = {bytes(k): v for k, v in r['idents']}
    hit = []

    def walk(j):
        if j.get('t') == 'Match' and j['e'].get('t') == 'BooleanGroup':
            g = j['e']['g']
            multi = [x for x in g if x.get('t') == 'Search' and ((x['s']['t'] == 'AhoCorasick' and len(x['s']['m']) > 1) or
                                                                 (x['s']['t'] == 'RegexSet' and len(x['s']['ps']) > 1))]
            if multi and len(g) > 1:
                hit.append(1)
        for c in children(j):
            walk(c)
    walk(r['expr'])
    for v in idents.values():
        walk(v)
    return bool(hit)


def main():
    ck = Check('C02', 'translation_validation')
    quick = ck.tier == 'quick'
    ck.bounds = {'doc strings': '<= %d ASCII bytes' % (3 if quick else 4), 'arrays': '<= %d elements' % (1 if quick else 2),
                 'nesting depth': 2, 'value kinds': 'all eight'}
    ck.assumptions = [
        'reference semantics: README / rustdoc / property statements; on corners they leave open (false vs missing for a value of the wrong kind, '
        'saturating int() of huge floats) the reference fixes the behaviour of the pinned tree, written independently from the YAML text',
        'shared trusted models only: regex predicate, number rendering abstraction, str::parse',
        'all(X)/of(X, n) over a one-entry identifier whose value is a list is excluded (statement ambiguous)',
        'all(k)/of(k, n>=1) with string members on an array-valued field is excluded (documentation silent, engine spellings disagree)',
        'the loader is exercised on the templates only (not on all texts); YAML parsing is serde_yaml\'s',
    ]
    ck.functions |= {'solver::solve_expression', 'solver::match_all', 'solver::match_of', 'solver::search', 'solver::slow_aho',
                     'value::Value::*', 'value::Object::find', 'rule::Detection deserialiser + parser::parse_identifier/parse_mapping/parse + '
                     'identifier::into_identifier + tokeniser (native, through the bridge)'}
    tpl = [t for t in templates.select(ck.tier, ck.seed) if t[0] not in ('nonpredicate', 'undefined-ident') and not ambiguous(t[2])]
    if quick:
        import random
        rnd = random.Random(ck.seed + 2)
        quota = {'single': 8, 'regex': 3, 'number': 5, 'list': 8, 'list-all': 6, 'list-of': 10, 'quant-short': 10, 'quant-ident': 10,
                 'cast-cond': 8, 'regex-rewrite': 3}
        tpl = templates.thin(tpl, quota, rnd)
    ck.extra['templates'] = len(tpl)
    self_check(ck)
    validate_on_repo_rules(ck)
    ck.run_units([(name, rule) for _, name, rule in tpl], run_unit)
    ck.finish('real loader + real solver MIR vs independent reference interpreter over one symbolic document; z3 decides inequality')


def validate_on_repo_rules(ck):
    """translator validation (as Serval's authors did): the repository's own test rules and their example documents are
    pushed through the executor with the document made concrete; the verdict of the real solver MIR under the callee
    models must equal the native verdict, for the plain rule and for every switch combination"""
    import glob
    from mirsym.doc import ConcDoc
    br = ck.bridge()
    prog = ck.program()
    imp = models_tau.TreeImporter(prog)
    n = 0
    for path in sorted(glob.glob(os.path.join(artifacts.REPO, 'tests', 'rules', '*.yml'))):
        yaml = open(path).read()
        base = br.call(cmd='examples', yaml=yaml, opts=None)
        if not base.get('ok'):
            continue
        for opts in (None, [True, True, True, True], [False, True, False, True], [True, False, True, False]):
            r = br.call(cmd='load', yaml=yaml, opts=opts)
            if not r.get('ok'):
                continue
            e = imp.expr(r['expr'])
            ids = imp.identifiers(r['idents'])
            for exm in base['examples']:
                uni = engine.Universe()
                ex = ck.new_engine(prog, uni=uni)
                d = ConcDoc(exm['doc']['$obj'])
                ex.frozen_below = next_oid()
                try:
                    res = ex.explore('solve_expression', [Ref(Cont([e]), 0), Ref(Cont([ids]), 0), Ref(Cont([d]), 0)])
                except Unsupported as err:
                    ck.extra.setdefault('repo_rules_skipped', []).append('%s: %s' % (os.path.basename(path), str(err)[:80]))
                    continue
                if len(res) != 1 or res[0].kind != 'return' or not isinstance(res[0].value, Adt):
                    ck.inconclusive.append('translator validation: %s: executor did not produce one concrete result (%d paths)' % (os.path.basename(path), len(res)))
                    continue
                got = res[0].value.vname == 'True'
                nat = br.call(cmd='eval', yaml=yaml, opts=opts, doc=exm['doc'], mode='object').get('verdict')
                n += 1
                if got != nat:
                    ck.inconclusive.append('translator validation: %s opts=%s doc=%s: executor %s, native %s' % (
                        os.path.basename(path), opts, json.dumps(exm['doc'])[:120], got, nat))
    ck.replays_ok += n
    ck.extra['repo_rule_examples_validated'] = n


def self_check(ck):
    """encoding self-check: a deliberately wrong reference (prefix and suffix
    swapped; `and` read as `or`) must be refuted by the solver"""
    S, M, K = templates.S, templates.M, templates.K
    br = ck.bridge()
    for good, bad in (
            ({'idents': {'A': M((K('f'), S('a*')))}, 'cond': ('id', 'A')}, {'idents': {'A': M((K('f'), S('*a')))}, 'cond': ('id', 'A')}),
            ({'idents': {'A': M((K('f'), S('a'))), 'B': M((K('g'), S('b')))}, 'cond': ('and', ('id', 'A'), ('id', 'B'))},
             {'idents': {'A': M((K('f'), S('a'))), 'B': M((K('g'), S('b')))}, 'cond': ('or', ('id', 'A'), ('id', 'B'))})):
        tr = TreeRunner(ck, Bounds(str_cap=3, arr_cap=1, depth=1))
        r = br.call(cmd='load', yaml=templates.render(good), opts=None)
        v = tr.evaluate(r)
        wrong = O.Oracle(tr.uni, tr.doc).rule(bad)
        res, _ = ck.solve(tr.uni, (v['res'] == TRUE) != (wrong == TRUE))
        if res != 'sat':
            ck.inconclusive.append('self-check: a wrong reference was not refuted')


def run_unit(ck, unit):
    name, rule = unit
    quick = ck.tier == 'quick'
    ck.handles_probes = True
    yaml = templates.render(rule)
    br = ck.bridge()
    r = br.call(cmd='load', yaml=yaml, opts=None)
    if 'panic' in r:
        return
    tr = TreeRunner(ck, Bounds(str_cap=3 if quick else 4, arr_cap=1 if quick else 2, depth=3 if 'n.m.f' in name else 2))
    tr.uni.numstr_cap = 2
    orc = O.Oracle(tr.uni, tr.doc)
    try:
        want = orc.rule(rule)
        loadable = True
    except O.NotLoadable as e:
        loadable = False
    if not r.get('ok'):
        ck.extra['rejected'] = ck.extra.get('rejected', 0) + 1
        if loadable:
            ck.extra.setdefault('rejected_but_reference_accepts', []).append(name)
        return
    if not loadable:
        ck.inconclusive.append('%s: loads, but the reference interpreter has no meaning for it' % name)
        return
    v = tr.evaluate(r)
    ck.extra['programs'] = ck.extra.get('programs', 0) + 1
    if v['res'] is None:
        return
    # the compiled engines inside the loaded tree must be the ones their description says
    unconfirmed, confirmed = set(), 0
    for docj, what in probe_docs(r):
        ck.obligations += 1
        fld, val = docj['$obj'][0][0], docj['$obj'][0][1]['$str']
        tr2 = TreeRunner(ck, Bounds(str_cap=max(1, len(val)), arr_cap=1, depth=1))
        w2 = O.Oracle(tr2.uni, tr2.doc).rule(rule)
        pins = []
        for key, (present, cell) in tr2.doc.cells.items():
            if key == bytes(fld):
                pins += [present, cell.kind == 5, z3bool(S.s_eq(cell.s, bytes(val)))]
            else:
                pins.append(z3.Not(present))
        res_, m_ = ck.solve(tr2.uni, *pins)
        n = br.call(cmd='eval', yaml=yaml, opts=None, doc=docj, mode='flat')
        path = ck.write_replay(safe(name) + '_engine', {'rule': yaml, 'doc': docj, 'what': what, 'native': n})
        if res_ == 'sat' and 'verdict' in n:
            wv = m_.eval(w2, model_completion=True).as_long()
            if n['verdict'] != (wv == 0):
                confirmed += 1
                if confirmed == 1:
                    ck.violations.append((path, '%s: %s; engine=%s reference=%s on %s' % (name, what, n['verdict'], SOLVER_RESULT[wv], json.dumps(docj))))
                continue
        unconfirmed.add('%s: %s (the model of this tree is not valid)' % (name, what))
    if unconfirmed and not confirmed:
        ck.inconclusive.append(sorted(unconfirmed)[0])

    def on_sat(model):
        docj = tr.render_doc(model)
        n = br.call(cmd='eval', yaml=yaml, opts=None, doc=docj, mode='flat')
        wv = model.eval(want, model_completion=True).as_long()
        path = ck.write_replay(safe(name), {'rule': yaml, 'doc': docj, 'native': n, 'reference': SOLVER_RESULT[wv], 'tree': r['display']})
        if 'verdict' not in n:
            return ('spurious', 'native failure %r' % (n,))
        ck.replays_ok += 1
        if n['verdict'] == (wv == 0):
            return ('spurious', 'native verdict agrees with the reference (%s)' % path)
        pins = reality_pins(ck, tr.uni, model)
        if pins:
            return ('retry', exact_rendering_region(tr.uni), ('spurious', 'the witness depends on the unmodelled text of a number (%s)' % path))
        key = 'language:' + name.split('/')[0]
        if several_batches(rule, r):
            key = 'quantifier:list-split-into-several-batches'
        if big_integer_constant(rule):
            key = 'constant:integer-above-i64-max-read-as-float'
        kf = ck.known_match(key)
        if kf:
            excused.append(key)
            return ('known', '%s :: %s' % (key, kf['desc']))
        return ('violation', path, '%s: engine=%s reference=%s on %s' % (name, n['verdict'], SOLVER_RESULT[wv], json.dumps(docj)))
    excused = []
    inside = z3.Not(z3.Or(*orc.excluded)) if orc.excluded else True
    ck.obligation(name, tr.uni, z3.And(inside, (v['res'] == TRUE) != (want == TRUE)), sample={'rule': name, 'tree': r['display'][:140]}, on_sat=on_sat,
                  cvc5=name.startswith('scalar'))
    if excused:
        # the recorded finding must not hide anything else in this obligation: wherever the engine leaves the reference
        # it has to be on the *batched* reading of the quantifier (the recorded defect, as a semantics) instead
        orc_b = O.Oracle(tr.uni, tr.doc)
        if excused[0] == 'constant:integer-above-i64-max-read-as-float':
            # the recorded defect as a semantics: such a constant is the double nearest to it
            want_b = orc_b.rule(floatify(rule))
        else:
            orc_b.batched = True
            want_b = orc_b.rule(rule)

        def on_sat_b(model):
            docj = tr.render_doc(model)
            n = br.call(cmd='eval', yaml=yaml, opts=None, doc=docj, mode='flat')
            wv = model.eval(want, model_completion=True).as_long()
            wb = model.eval(want_b, model_completion=True).as_long()
            path = ck.write_replay(safe(name) + '_beyond_known', {'rule': yaml, 'doc': docj, 'native': n, 'reference': SOLVER_RESULT[wv],
                                                                  'reference_batched': SOLVER_RESULT[wb], 'tree': r['display'], 'excused_elsewhere_as': excused[0]})
            if 'verdict' not in n:
                return ('spurious', 'native failure %r' % (n,))
            ck.replays_ok += 1
            if n['verdict'] == (wv == 0) or n['verdict'] == (wb == 0):
                return ('spurious', 'native verdict agrees with a reference (%s)' % path)
            if reality_pins(ck, tr.uni, model):
                return ('retry', exact_rendering_region(tr.uni), ('spurious', 'the witness depends on the unmodelled text of a number (%s)' % path))
            return ('violation', path, '%s: engine=%s reference=%s (batched reading: %s) on %s, which the recorded finding %s does not explain' % (
                name, n['verdict'], SOLVER_RESULT[wv], SOLVER_RESULT[wb], json.dumps(docj), excused[0]))
        ck.obligation(name + ':beyond-known-findings', tr.uni,
                      z3.And(inside, (v['res'] == TRUE) != (want == TRUE), (v['res'] == TRUE) != (want_b == TRUE)), on_sat=on_sat_b)
    # vacuity: the rule can match and can fail to match
    r1, _ = ck.solve(tr.uni, want == TRUE)
    r2, _ = ck.solve(tr.uni, want != TRUE)
    if r2 != 'sat':
        ck.inconclusive.append('%s: reference can never be non-true' % name)
    if r1 != 'sat':
        ck.extra.setdefault('never_true', []).append(name)


if __name__ == '__main__':
    run_check(main)
