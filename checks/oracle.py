"""Reference interpreter of the rule language (C02).

Works from the *abstract syntax of the rule text* (templates.py) and the
symbolic document; it never sees the engine's expression tree.  It is written
from README / rustdoc / the property statements; where those are silent (which
of false/missing a predicate gives on a value of the wrong kind) it fixes the
behaviour once, here, and says so in DESIGN.md.

Results are three-valued z3 terms (BV64: 0 true, 1 false, 2 missing).
It shares with the executor only the *trusted models* of third-party code:
the regex predicate, the number rendering abstraction and str::parse.
"""
import z3
from mirsym.vals import *
from mirsym import strings as S
from mirsym import models_std, models_tau, engine
from mirsym.doc import *

T = z3.BitVecVal(0, 64)
F = z3.BitVecVal(1, 64)
M = z3.BitVecVal(2, 64)


class NotLoadable(Exception):
    pass


def tv(cond):
    """bool -> true/false"""
    if cond is True:
        return T
    if cond is False:
        return F
    return z3.If(cond, T, F)


def t_and(rs):
    e = T
    for r in reversed(rs):
        e = z3.If(r != T, r, e)
    return e


def t_or(rs):
    return z3.If(z3.Or(*[r == T for r in rs]), T, z3.If(z3.Or(*[r == F for r in rs]), F, M))


def t_not(r):
    return z3.If(r == T, F, z3.If(r == F, T, F))


def t_of(rs, n):
    anyT = z3.Or(*[r == T for r in rs])
    anyF = z3.Or(*[r == F for r in rs])
    if n == 0:
        return z3.If(anyT, F, z3.If(anyF, T, M))
    cnt = z3.Sum(*[z3.If(r == T, 1, 0) for r in rs]) if len(rs) > 1 else z3.If(rs[0] == T, 1, 0)
    return z3.If(cnt >= n, T, z3.If(anyF, F, M))


def t_of_single(r, n):
    if n == 0:
        return z3.If(r == T, F, z3.If(r == F, T, M))
    if n == 1:
        return r
    return z3.If(r == T, F, r)


I64_MIN_F = z3.FPVal(-9223372036854775808.0, z3.Float64())
I64_LIM_F = z3.FPVal(9223372036854775808.0, z3.Float64())


def parse_pattern(text, ignore_case_build=False):
    """the documented pattern table -> (kind, payload, insensitive)"""
    s = text
    ins = False
    if ignore_case_build:
        ins = True
    elif s.startswith('i'):
        ins = True
        s = s[1:]
    if s.startswith('?'):
        return ('regex', s[1:], ins)
    for pre, op in (('>=', '>='), ('>', '>'), ('<=', '<='), ('<', '<'), ('=', '==')):
        if s.startswith(pre):
            num = s[len(pre):]
            try:
                if '.' in num:
                    if not _is_float(num):
                        raise ValueError
                    return ('fnum', (op, float(num)), ins)
                if not _is_int(num):
                    raise ValueError
                return ('inum', (op, int(num)), ins)
            except ValueError:
                raise NotLoadable(text)
    if s == '*':
        return ('any', None, ins)
    low = (lambda x: x.lower()) if ins else (lambda x: x)
    if s.startswith('*') and s.endswith('*'):
        return ('contains', low(s[1:-1]), ins)
    if s.startswith('*'):
        return ('suffix', low(s[1:]), ins)
    if s.endswith('*'):
        return ('prefix', low(s[:-1]), ins)
    if len(s) >= 2 and ((s[0] == '"' and s[-1] == '"') or (s[0] == "'" and s[-1] == "'")):
        return ('exact', low(s[1:-1]), ins)
    return ('exact', low(s), ins)


def member_class(m, ignore_case_build=False):
    """batching class of a key-list member, None = not batched"""
    if m[0] != 's':
        return None
    try:
        pk = parse_pattern(m[1], ignore_case_build)
    except NotLoadable:
        return None
    if pk[0] == 'regex':
        return ('re', pk[2])
    if pk[0] in ('exact', 'contains', 'prefix', 'suffix'):
        return ('needle', pk[2])
    return None


def batch_partition(members, ignore_case_build=False):
    """-> index lists: members of one batching class together (at the position of the first), the others alone"""
    out, where = [], {}
    for i, m in enumerate(members):
        c = member_class(m, ignore_case_build)
        if c is None:
            out.append([i])
        elif c in where:
            where[c].append(i)
        else:
            where[c] = [i]
            out.append(where[c])
    return out


def _is_int(t):
    import re
    if not re.fullmatch(r'[+-]?\d+', t):
        return False
    return -(2 ** 63) <= int(t) < 2 ** 63


def _is_float(t):
    import re
    return re.fullmatch(r'[+-]?(\d+\.?\d*|\.\d+)([eE][+-]?\d+)?', t) is not None


class Oracle:
    def __init__(self, uni, doc, ignore_case_build=False):
        self.uni = uni
        self.doc = doc
        self.icb = ignore_case_build
        self.excluded = []      # conditions under which the reference declines to say anything
        # the recorded finding "quantifier:list-split-into-several-batches" as a semantics: when set, all(k)/of(k, n)
        # counts the *batches* the loader split the list into (case-sensitive needles / case-insensitive needles /
        # regexes with the same flag; every other member alone).  Only used to bound what that finding may explain.
        self.batched = False
        # facade giving the trusted models access to the universe
        self.ex = engine.Engine(None, uni, [])

    # ---- strings ---------------------------------------------------------
    def rel(self, kind, needle, ins, hay):
        """relation between a pattern and a string -> z3 Bool / bool"""
        if kind == 'any':
            return True
        if kind == 'regex':
            return models_tau.regex_pred(self.ex, needle.encode(), ins, hay)
        n = needle.encode()
        if kind == 'exact':
            return S.s_eq(hay, n, fold=ins)
        if kind == 'prefix':
            return S.s_prefix(hay, n, fold=ins)
        if kind == 'suffix':
            return S.s_suffix(hay, n, fold=ins)
        if kind == 'contains':
            return S.s_contains(hay, n, fold=ins)
        raise ValueError(kind)

    def text_of(self, cell):
        """{kind: string} for the kinds str() can render"""
        return {
            K_STRING: cell.s,
            K_BOOL: models_std.m_bool_to_string(self.ex, '', [cell.b]).s,
            K_INT: models_std.num_to_string(self.ex, 'i64', BV(cell.i, 'i64')).s,
            K_UINT: models_std.num_to_string(self.ex, 'u64', BV(cell.u, 'u64')).s,
            K_FLOAT: models_std.num_to_string(self.ex, 'f64', FP(cell.f)).s,
        }

    def string_pred(self, doc, field, kind, needle, ins, cast_str):
        present, cell = doc.lookup(field.encode())
        k = cell.kind
        texts = self.text_of(cell) if cast_str else {K_STRING: cell.s}
        res = M
        # arrays
        if K_ARRAY in cell.kinds:
            arr = cell.arr
            hits = []
            for i, el in enumerate(arr.elems):
                inlen = z3.UGT(arr.length, i)
                et = self.text_of(el) if cast_str else {K_STRING: el.s}
                hit = z3.Or(*[z3.And(el.kind == kk, z3bool(self.rel(kind, needle, ins, s))) for kk, s in et.items()])
                hits.append(z3.And(inlen, hit))
            res = z3.If(k == K_ARRAY, tv(z3.Or(*hits) if hits else False), res)
        for kk, s in texts.items():
            res = z3.If(k == kk, tv(z3bool(self.rel(kind, needle, ins, s))), res)
        return z3.If(present, res, M)

    # ---- numbers -----------------------------------------------------------
    def int_value(self, cell):
        """int(field) -> (convertible Bool, BV64)"""
        k = cell.kind
        valid, pv = models_std.parse_int_terms(self.uni, cell.s, 'i64') if K_STRING in cell.kinds else (False, z3.BitVecVal(0, 64))
        rc = engine.float_to_int(FP(z3.fpRoundToIntegral(z3.RNA(), cell.f)), 'i64').v
        # a float converts when its rounded value is an i64 (NaN, the infinities and anything beyond the range do not:
        # the engine answers false there, as it does for a UInt above i64::MAX)
        conv = z3.Or(k == K_BOOL, k == K_INT, z3.And(k == K_UINT, z3.ULE(cell.u, 2 ** 63 - 1)),
                     z3.And(k == K_FLOAT, z3.fpGEQ(cell.f, I64_MIN_F), z3.fpLT(cell.f, I64_LIM_F)),
                     z3.And(k == K_STRING, z3bool(valid)))
        val = z3.If(k == K_BOOL, z3.If(cell.b, z3.BitVecVal(1, 64), z3.BitVecVal(0, 64)),
                    z3.If(k == K_INT, cell.i, z3.If(k == K_UINT, cell.u, z3.If(k == K_FLOAT, rc, pv))))
        return conv, val

    def flt_value(self, cell):
        k = cell.kind
        pk = ('parse_f64', S.skey(cell.s))
        if K_STRING in cell.kinds:
            if pk not in self.uni.memo:
                self.uni.memo[pk] = (z3bool(__import__('mirsym.rx', fromlist=['x']).is_match(models_std.F64_GRAMMAR, True, cell.s)), self.uni.fresh('parse_f64_val', z3.Float64()), cell.s)
            pokay, pval, _ = self.uni.memo[pk]
        else:
            pokay, pval = False, z3.FPVal(0.0, z3.Float64())
        conv = z3.Or(k == K_BOOL, k == K_INT, k == K_UINT, k == K_FLOAT, z3.And(k == K_STRING, z3bool(pokay)))
        val = z3.If(k == K_BOOL, z3.If(cell.b, z3.FPVal(1.0, z3.Float64()), z3.FPVal(0.0, z3.Float64())),
                    z3.If(k == K_INT, z3.fpSignedToFP(z3.RNE(), cell.i, z3.Float64()),
                          z3.If(k == K_UINT, z3.fpUnsignedToFP(z3.RNE(), cell.u, z3.Float64()),
                                z3.If(k == K_FLOAT, cell.f, pval))))
        return conv, val

    @staticmethod
    def cmp_int(op, a65, b65):
        return {'==': a65 == b65, '>': a65 > b65, '>=': a65 >= b65, '<': a65 < b65, '<=': a65 <= b65}[op]

    @staticmethod
    def cmp_fp(op, a, b):
        return {'==': z3.fpEQ(a, b), '>': z3.fpGT(a, b), '>=': z3.fpGEQ(a, b), '<': z3.fpLT(a, b), '<=': z3.fpLEQ(a, b)}[op]

    def number_pred(self, doc, field, op, const, cast):
        """field `op` const, const: int or float"""
        present, cell = doc.lookup(field.encode())
        k = cell.kind
        is_int = isinstance(const, int)
        if cast is None:
            if is_int:
                c65 = z3.BitVecVal(const, 65)
                r = z3.If(k == K_INT, tv(self.cmp_int(op, z3.SignExt(1, cell.i), c65)),
                          z3.If(k == K_UINT, tv(self.cmp_int(op, z3.ZeroExt(1, cell.u), c65)), F))
            else:
                r = z3.If(k == K_FLOAT, tv(self.cmp_fp(op, cell.f, z3.FPVal(const, z3.Float64()))), F)
        elif cast == 'int':
            conv, val = self.int_value(cell)
            if is_int:
                r = z3.If(conv, tv(self.cmp_int(op, z3.SignExt(1, val), z3.BitVecVal(const, 65))), F)
            else:
                r = F
        elif cast == 'flt':
            conv, val = self.flt_value(cell)
            if is_int:
                r = F
            else:
                r = z3.If(conv, tv(self.cmp_fp(op, val, z3.FPVal(const, z3.Float64()))), F)
        else:
            raise NotLoadable('str() with a number pattern')
        return z3.If(present, r, M)

    # ---- values ------------------------------------------------------------
    def pred(self, doc, field, val, cast):
        t = val[0]
        if t == 's':
            kind, payload, ins = parse_pattern(val[1], self.icb)
            if kind in ('inum', 'fnum'):
                if cast == 'str':
                    raise NotLoadable('str() with number')
                return self.number_pred(doc, field, payload[0], payload[1], cast)
            if cast == 'int':
                raise NotLoadable('int() with string pattern')
            if cast == 'flt':
                # flt(f): 'text' builds a string search without cast
                return self.string_pred(doc, field, kind, payload, ins, False)
            return self.string_pred(doc, field, kind, payload, ins, cast == 'str')
        if t == 'i':
            if cast == 'str':
                return self.string_pred(doc, field, 'exact', str(val[1]), False, True)
            return self.number_pred(doc, field, '==', val[1], cast)
        if t == 'f':
            if cast == 'int':
                raise NotLoadable('float under int()')
            if cast == 'str':
                return self.string_pred(doc, field, 'exact', models_std.rust_f64_display(val[1]), False, True)
            return self.number_pred(doc, field, '==', float(val[1]), cast)
        if t == 'b':
            if cast == 'int':
                return self.number_pred(doc, field, '==', 1 if val[1] else 0, 'int')
            if cast == 'str':
                return self.string_pred(doc, field, 'exact', 'true' if val[1] else 'false', False, True)
            present, cell = doc.lookup(field.encode())
            if cast == 'flt':
                conv, _ = self.flt_value(cell)
                return z3.If(present, F, M)
            return z3.If(present, z3.If(cell.kind == K_BOOL, tv(cell.b == z3.BoolVal(val[1])), F), M)
        if t == 'null':
            present, cell = doc.lookup(field.encode())
            if cast in ('int', 'flt', 'str'):
                return z3.If(present, F, M)
            return z3.If(present, tv(cell.kind == K_NULL), M)
        if t == 'map':
            if cast is not None:
                raise NotLoadable('nested mapping under a cast')
            return self.nested(doc, field, val[1])
        if t == 'list':
            members = [self.pred(doc, field, m, cast) for m in val[1]]
            return t_or(members)
        raise ValueError(val)

    def nested(self, doc, field, pairs):
        present, cell = doc.lookup(field.encode())
        k = cell.kind
        res = F
        if K_ARRAY in cell.kinds:
            arr = cell.arr
            hits = []
            for i, el in enumerate(arr.elems):
                if K_OBJECT in el.kinds:
                    hits.append(z3.And(z3.UGT(arr.length, i), el.kind == K_OBJECT, self.mapping(el.obj, pairs) == T))
            res = z3.If(k == K_ARRAY, tv(z3.Or(*hits) if hits else False), res)
        if K_OBJECT in cell.kinds:
            res = z3.If(k == K_OBJECT, self.mapping(cell.obj, pairs), res)
        return z3.If(present, res, M)

    def entry(self, doc, key, val):
        mod, field = key
        if mod is None:
            return self.pred(doc, field, val, None)
        if mod == 'not':
            if val[0] == 'map':
                raise NotLoadable('nested under not()')
            return t_not(self.pred(doc, field, val, None))
        if mod in ('int', 'flt', 'str'):
            if val[0] == 'map' or (val[0] == 'list' and any(m[0] == 'map' for m in val[1])):
                raise NotLoadable('nested under cast')
            return self.pred(doc, field, val, mod)
        # quantifiers on a key
        if val[0] != 'list':
            raise NotLoadable('quantifier on a non-list')
        pats = []
        for m in val[1]:
            if m[0] == 's':
                pk = parse_pattern(m[1], self.icb)
                if pk[0] not in ('inum', 'fnum'):
                    pats.append(pk)
        if self.batched:
            members = [t_or([self.pred(doc, field, val[1][i], None) for i in b]) if len(b) > 1 else self.pred(doc, field, val[1][b[0]], None)
                       for b in batch_partition(val[1], self.icb)]
            if mod == 'all':
                return t_and(members)
            return t_of(members, mod[1]) if len(members) > 1 else t_of_single(members[0], mod[1])
        if pats and len(pats) == len(val[1]) and len(pats) > 1:
            return self.string_quantifier(doc, field, pats, mod)
        members = [self.pred(doc, field, m, None) for m in val[1]]
        if mod == 'all':
            return t_and(members)
        n = mod[1]
        return t_of(members, n) if len(members) > 1 else t_of_single(members[0], n)

    def string_quantifier(self, doc, field, pats, mod):
        """all(k) / of(k, n) over string patterns.  On a string the members are
        counted; on an array *one element* has to satisfy the quantifier (the
        documentation is silent; this is what the pinned tree does for a
        batched list and is fixed here as the reference).  of(k, 0): no member
        matches (on any element)."""
        present, cell = doc.lookup(field.encode())
        k = cell.kind

        def on(hay):
            rels = [z3bool(self.rel(kd, nd, ins, hay)) for kd, nd, ins in pats]
            if mod == 'all':
                return z3.And(*rels), z3.Or(*rels)
            cnt = z3.Sum(*[z3.If(r, 1, 0) for r in rels])
            return cnt >= mod[1], z3.Or(*rels)
        ok_s, any_s = on(cell.s)
        n0 = (mod != 'all' and mod[1] == 0)
        if K_ARRAY in cell.kinds and not n0:
            # all()/of(n>=1) over string members on an *array* field: the documentation is silent and
            # the engine's own spellings disagree (one element satisfying all members vs. each member
            # satisfied by some element, depending on batching) - outside the claim
            self.excluded.append(z3.And(present, k == K_ARRAY))
        res = M
        if K_ARRAY in cell.kinds:
            arr = cell.arr
            oks, anys = [], []
            for i, el in enumerate(arr.elems):
                o, a = on(el.s)
                g = z3.And(z3.UGT(arr.length, i), el.kind == K_STRING)
                oks.append(z3.And(g, o))
                anys.append(z3.And(g, a))
            if n0:
                res = z3.If(k == K_ARRAY, tv(z3.Not(z3.Or(*anys)) if anys else True), res)
            else:
                res = z3.If(k == K_ARRAY, tv(z3.Or(*oks) if oks else False), res)
        if n0:
            res = z3.If(k == K_STRING, tv(z3.Not(any_s)), res)
        else:
            res = z3.If(k == K_STRING, tv(ok_s), res)
        return z3.If(present, res, M)

    def mapping(self, doc, pairs):
        return t_and([self.entry(doc, k, v) for k, v in pairs])

    def ident(self, ident):
        if ident[0] == 'map':
            return self.mapping(self.doc, ident[1])
        return t_or([self.mapping(self.doc, m[1]) for m in ident[1]])

    def entries(self, ident):
        """operands counted by all(X) / of(X, n)"""
        if ident[0] == 'seq':
            return [self.mapping(self.doc, m[1]) for m in ident[1]]
        if len(ident[1]) > 1:
            return [self.entry(self.doc, k, v) for k, v in ident[1]]
        return None      # a single predicate

    def operand(self, o):
        """-> ('int'|'flt'|'str', present, conv, value) or constant"""
        return o

    def cmp(self, op, l, r):
        def side(o):
            if o[0] in ('ci', 'cf'):
                return o
            present, cell = self.doc.lookup(o[1].encode())
            return (o[0], present, cell)
        a, b = side(l), side(r)
        kinds = {a[0], b[0]}
        if 'str' in kinds:
            if a[0] != 'str' or b[0] != 'str' or op != '==':
                raise NotLoadable('str comparison')
            ta, tb = self.text_of(a[2]), self.text_of(b[2])
            text = lambda cell, tx: z3.Or(*[cell.kind == kk for kk in tx])
            eq = z3.Or(*[z3.And(a[2].kind == ka, b[2].kind == kb, z3bool(S.s_eq(sa, sb))) for ka, sa in ta.items() for kb, sb in tb.items()])
            return z3.If(z3.Not(a[1]), M, z3.If(z3.Not(text(a[2], ta)), F, z3.If(z3.Not(b[1]), M, z3.If(z3.Not(text(b[2], tb)), F, tv(eq)))))
        # numeric
        def val(x):
            if x[0] == 'ci':
                return ('i', True, True, z3.BitVecVal(x[1], 64))
            if x[0] == 'cf':
                return ('f', True, True, z3.FPVal(x[1], z3.Float64()))
            if x[0] == 'int':
                conv, v = self.int_value(x[2])
                return ('i', x[1], conv, v)
            conv, v = self.flt_value(x[2])
            return ('f', x[1], conv, v)
        va, vb = val(a), val(b)
        if va[0] != vb[0]:
            raise NotLoadable('mixed numeric comparison')
        if va[0] == 'i':
            rel = self.cmp_int(op, z3.SignExt(1, va[3]), z3.SignExt(1, vb[3]))
        else:
            rel = self.cmp_fp(op, va[3], vb[3])
        pa, ca, pb, cb = z3bool(va[1]), z3bool(va[2]), z3bool(vb[1]), z3bool(vb[2])
        return z3.If(z3.Not(pa), M, z3.If(z3.Not(ca), F, z3.If(z3.Not(pb), M, z3.If(z3.Not(cb), F, tv(rel)))))

    def cond(self, c, idents):
        t = c[0]
        if t == 'id':
            return self.ident(idents[c[1]])
        if t == 'and':
            return t_and([self.cond(c[1], idents), self.cond(c[2], idents)])
        if t == 'or':
            return t_or([self.cond(c[1], idents), self.cond(c[2], idents)])
        if t == 'not':
            return t_not(self.cond(c[1], idents))
        if t in ('all', 'of'):
            ops = self.entries(idents[c[1]])
            if ops is None:
                r = self.ident(idents[c[1]])
                return r if t == 'all' else t_of_single(r, c[2])
            return t_and(ops) if t == 'all' else t_of(ops, c[2])
        if t == 'cmp':
            return self.cmp(c[1], c[2], c[3])
        raise NotLoadable(c)

    def rule(self, rule):
        return self.cond(rule['cond'], rule['idents'])
