"""setup: warm the artefact cache (MIR dump of /repo, native bridge).  Every
check rebuilds these itself when they are missing or /repo changed."""
import sys, os, time
sys.path.insert(0, os.path.dirname(os.path.dirname(os.path.abspath(__file__))))
from mirsym import artifacts
t = time.time()
print('mir:', artifacts.ensure_mir())
print('bridge:', artifacts.ensure_bridge())
b = artifacts.Bridge()
print(b.call(cmd='ping'))
b.close()
print('setup done in %.1fs' % (time.time() - t))
