"""C16  Matching reads only the fields the rule names.

On every template tree and every optimiser output (all 16 switch combinations,
Matrix forms included) the real solver MIR is executed against the symbolic
document, which records every `Document::find` / `Object::get` that reaches the
*user's* document or one of its nested objects together with the path
condition under which it happens.  z3 decides, for each recorded request whose
key is not written in the rule at that nesting level, whether the request is
feasible.  Synthetic one-character keys may only reach the engine's private
Cache / Passthrough documents, whose real `find` MIR is executed.

Independence from unaddressed fields then holds by construction: the verdict
term only mentions the cells of requested keys, so two documents that agree on
the requested cells get the same verdict (stated as an obligation on the free
variables of the verdict term).
"""
import z3
from common import *
from treelib import *
import templates


def written_keys(rj):
    """{nesting chain (tuple of field names): set of keys} from the *loaded,
    unoptimised* tree"""
    out = {}
    idents = {bytes(k): v for k, v in rj['idents']}

    def walk(j, chain):
        t = j['t']
        if t == 'Search':
            out.setdefault(chain, set()).add(bytes(j['f']))
        elif t in ('Field', 'Cast'):
            out.setdefault(chain, set()).add(bytes(j['f']))
        elif t == 'Nested':
            out.setdefault(chain, set()).add(bytes(j['f']))
            walk(j['e'], chain + (bytes(j['f']),))
            return
        for c in children(j):
            walk(c, chain)
    walk(rj['expr'], ())
    for v in idents.values():
        walk(v, ())
    return out


def written_keys_dsl(rule):
    """the same map, from the rule as *written* (the template's abstract syntax, i.e. the YAML text), so that a loader
    that garbles a key is seen asking for something the rule does not write"""
    out = {}

    def val(v, chain):
        if v[0] == 'map':
            for (mod, f), x in v[1]:
                out.setdefault(chain, set()).add(f.encode())
                if x[0] == 'map':
                    val(x, chain + (f.encode(),))
                elif x[0] == 'list':
                    for m in x[1]:
                        if m[0] == 'map':
                            val(m, chain + (f.encode(),))
        elif v[0] == 'seq':
            for m in v[1]:
                val(m, chain)

    def cond(c):
        if not isinstance(c, tuple):
            return
        if c[0] == 'cmp':
            for o in c[2:]:
                if o[0] in ('int', 'flt', 'str'):
                    out.setdefault((), set()).add(o[1].encode())
        elif c[0] in ('and', 'or', 'not'):
            for x in c[1:]:
                cond(x)
    for ident in rule['idents'].values():
        val(ident, ())
    cond(rule['cond'])
    return out


def chain_of(path):
    """SymDoc path 'doc/n.o/m.a[0].o' -> (b'n', b'm')"""
    parts = path.split('/')[1:]
    chain = []
    for p in parts:
        name = p
        for suf in ('.o',):
            if name.endswith(suf):
                name = name[:-len(suf)]
        if '.a[' in name:
            name = name[:name.index('.a[')]
        chain.append(name.encode())
    return tuple(chain)


def main():
    ck = Check('C16', 'other')
    quick = ck.tier == 'quick'
    ck.bounds = {'doc strings': '<= 3 ASCII bytes', 'arrays': '<= %d elements' % (2 if quick else 3), 'nesting depth': 2,
                 'switch combinations': 16}
    ck.assumptions = ['the user document is observed through the executor\'s Document/Object models (every request is recorded with its path condition)',
                      'rules = templates (enumerated)']
    ck.functions |= {'solver::solve_expression', 'solver::match_all', 'solver::match_of', 'solver::Cache::find', 'solver::Passthrough::find',
                     'document::<&dyn Object as Document>::find', 'value::Object::find'}
    tpl = templates.select(ck.tier, ck.seed, fams=None)
    tpl = [t for t in tpl if t[0] not in ('nonpredicate', 'undefined-ident')]
    if quick:
        import random
        rnd = random.Random(ck.seed + 16)
        quota = {'single': 3, 'regex': 2, 'number': 2, 'scalar': 2, 'list': 4, 'list-all': 3, 'list-of': 4, 'list-mixed': 3,
                 'quant-short': 4, 'quant-ident': 5, 'cast-cond': 4, 'regex-rewrite': 2, 'modifier': 5, 'condition': 5}
        tpl = templates.thin(tpl, quota, rnd)
    # the three-conjunct nested templates exist for C01 (merged blocks over arrays); here they are expensive and add no
    # request the two-conjunct ones do not make: thorough tier only
    heavy = lambda n: quick and ('&n.' in n or 'rows n.fg' in n)
    tpl = [t for t in tpl if not heavy(t[1])]
    ck.extra['templates'] = len(tpl)
    dotted = [('@object:' + name, templates.render(rule)) for fam, name, rule in templates.select(ck.tier, ck.seed) if fam in ('dotted', 'nested') and not heavy(name)]
    ck.run_units([('@cache-keys', None)] + dotted + [(name, templates.render(rule), written_keys_dsl(rule) if 'raw' not in repr(rule['cond']) else None)
                                                     for _, name, rule in tpl], run_unit)
    ck.finish('every Document::find / Object::get that reaches the user document on any feasible path is for a key written '
              'in the rule at that nesting level; decided by z3 per recorded request (unsat = request infeasible)')


def cache_keys(ck):
    """the synthetic key of matrix column i is char::from_u32(i) (optimiser); the private Cache document decodes it
    (solver).  For every column index a matrix can have (the optimiser only builds one when a field count is < 256)
    the real Cache::find MIR must read exactly slot i."""
    prog = ck.program()
    uni = engine.Universe()
    ex = ck.new_engine(prog, uni=uni, summarise=())
    f = prog.find_impl('Document', 'Cache', 'find')
    if f is None:
        raise Unsupported('no MIR for Cache::find')
    n = 256
    markers = [Adt('Option', 1, 'Some', [Adt('Value', 3, 'Int', [mk_int(i, 'i64')])]) for i in range(n)]
    vec = VecV(list(markers))
    cache = Adt('Cache', None, None, [Ref(Cont([vec]), 0)])
    bad = []
    for i in range(n):
        key = chr(i).encode('utf-8')
        res = ex.explore(f, [Ref(Cont([cache]), 0), StrV(key)])
        okv = len(res) == 1 and res[0].kind == 'return' and isinstance(res[0].value, Adt) and res[0].value.variant == 1 \
            and res[0].value.items[0].items[0].v == i
        if not okv:
            bad.append((i, str(res[0].panic if res and res[0].kind == 'panic' else (res[0].value if res else None))))
    ck.obligations += 1
    if not bad:
        ck.discharged += 1
    else:
        p = ck.write_replay('cache_keys', {'columns_read_wrongly': bad[:10]})
        ck.violations.append((p, 'Cache::find does not decode the synthetic key of column %d (char::from_u32): %s' % bad[0]))
    ck.samples.append({'form': 'Cache::find(char::from_u32(i)) reads slot i', 'columns': n})


def object_mode_unit(ck, name, yaml):
    """the document implements Object (YAML / JSON / HashMap documents do): paths are resolved by Object::find, whose
    Object::get requests must follow the written path: segment k of a written key is asked of the object reached by
    segments 0..k-1, and nothing else is asked"""
    quick = ck.tier == 'quick'
    br = ck.bridge()
    base, variants, _ = collect_variants(ck, br, yaml, 2 if quick else 6)
    if 'panic' in base or not base.get('ok'):
        return
    variants.setdefault(tree_text(base), (None, base))
    written = written_keys(base)
    allowed = {}
    for chain, keys in written.items():
        for key in keys:
            segs = key.decode().split('.')
            cur = tuple(chain)
            for sgm in segs:
                nm = sgm.split('[')[0]
                allowed.setdefault(cur, set()).add(nm.encode())
                cur = cur + (nm.encode(),)
    tr = TreeRunner(ck, Bounds(str_cap=2, arr_cap=2, depth=3, as_object=True), as_object=True)
    tr.uni.numstr_cap = 2
    for txt, (opts, rj) in variants.items():
        label = '%s opts=%s' % (name, opts_label(opts) if opts else 'none')
        v = tr.evaluate(rj)
        ck.extra['programs'] = ck.extra.get('programs', 0) + 1
        bad = []
        for cond, ev in flatten_events(v['finds']):
            if ev[0] != 'get':
                continue
            chain = chain_of(ev[1])
            if ev[2] not in allowed.get(chain, set()):
                bad.append((cond, ev))

        def on_sat(model, bad=bad, label=label, opts=opts, rj=rj):
            docj = tr.render_doc(model)
            hit = [ev for c, ev in bad if c is True or z3.is_true(model.eval(z3bool(c), model_completion=True))]
            # native confirmation: the verdict must not change when the fields behind the stray requests are removed
            n1 = br.call(cmd='eval', yaml=yaml, opts=opts, doc=docj, mode='object')
            stray = {(chain_of(e[1]), e[2]) for e in hit}
            doc2 = drop_fields(docj, stray)
            n2 = br.call(cmd='eval', yaml=yaml, opts=opts, doc=doc2, mode='object')
            path = ck.write_replay(safe(label), {'rule': yaml, 'opts': opts, 'doc': docj, 'doc_without_unaddressed_fields': doc2, 'native': n1,
                                                 'native_without': n2, 'stray_requests': [[e[1], list(e[2])] for e in hit], 'mode': 'object'})
            if n1.get('verdict') != n2.get('verdict'):
                ck.replays_ok += 1
                return ('violation', path, '%s: the verdict depends on a field the rule does not address (%s): %s vs %s' % (
                    label, [(e[1], e[2]) for e in hit][:2], n1.get('verdict'), n2.get('verdict')))
            return ('violation', path, '%s: Object::get is asked for %r which the written path does not contain' % (label, [(e[1], e[2]) for e in hit][:3]))
        ck.obligation(label + ':requests follow the written paths', tr.uni, b_or(*[c for c, _ in bad]) if bad else False,
                      sample={'rule': name, 'mode': 'object'}, on_sat=on_sat)


def drop_fields(docj, stray):
    def walk(j, chain):
        if isinstance(j, dict) and '$obj' in j:
            out = []
            for k, v in j['$obj']:
                if (chain, bytes(k)) in stray:
                    continue
                out.append([k, walk(v, chain + (bytes(k),))])
            return {'$obj': out}
        if isinstance(j, list):
            return [walk(x, chain) for x in j]
        return j
    return walk(docj, ())


def run_unit(ck, unit):
    name, yaml = unit[0], unit[1]
    written = unit[2] if len(unit) > 2 else None
    if name == '@cache-keys':
        cache_keys(ck)
        return
    if name.startswith('@object:'):
        object_mode_unit(ck, name[len('@object:'):], yaml)
        return
    quick = ck.tier == 'quick'
    br = ck.bridge()
    base, variants, _ = collect_variants(ck, br, yaml, 3 if quick else 8)
    if 'panic' in base or not base.get('ok'):
        return
    variants.setdefault(tree_text(base), (None, base))
    allowed = written_keys(base)
    if written is not None:
        # keys as written in the rule text take precedence over what the loader made of them
        allowed = written
    tr = TreeRunner(ck, Bounds(str_cap=3, arr_cap=2 if quick else 3, depth=3 if 'n.m.f' in name else 2))
    tr.uni.numstr_cap = 2
    for txt, (opts, rj) in variants.items():
        label = '%s opts=%s' % (name, opts_label(opts) if opts else 'none')
        v = tr.evaluate(rj)
        ck.extra['programs'] = ck.extra.get('programs', 0) + 1
        events = flatten_events(v['finds'])
        bad = []
        seen = 0
        for cond, ev in events:
            if ev[0] not in ('find', 'get'):
                continue
            seen += 1
            chain = chain_of(ev[1])
            if ev[2] not in allowed.get(chain, set()):
                bad.append((cond, ev))
        ck.extra['requests_observed'] = ck.extra.get('requests_observed', 0) + seen
        # one obligation per tree: no feasible path requests a key the rule does not write
        neg = b_or(*[c for c, _ in bad]) if bad else False

        def on_sat(model, bad=bad, label=label, opts=opts, rj=rj):
            docj = tr.render_doc(model)
            hit = [ev for c, ev in bad if c is True or z3.is_true(model.eval(z3bool(c), model_completion=True))]
            path = ck.write_replay(safe(label), {'rule': yaml, 'opts': opts, 'doc': docj, 'tree': rj['display'],
                                                 'unwritten_requests': [[e[1], list(e[2])] for e in hit]})
            return ('violation', path, '%s: the engine asks the user document for %r which the rule does not write' % (
                label, [(e[1], e[2]) for e in hit][:3]))
        ck.obligation(label + ':only-written-keys', tr.uni, neg,
                      sample={'rule': name, 'opts': opts, 'requests': sorted({(e[1], e[2].decode('latin1')) for _, e in events if e[0] in ('find', 'get')})[:6]},
                      on_sat=on_sat)
        # vacuity: the document is actually consulted
        if seen == 0 and v['res'] is not None and not any_node(rj['expr'], lambda j: False):
            r, _ = ck.solve(tr.uni, v['res'] == z3.BitVecVal(0, 64))
            if r == 'sat':
                # not a C16 matter (the rule matches without looking at the document); surfaced for C02/C08
                ck.extra.setdefault('matches_without_any_request', []).append(label)
        # independence: the verdict term mentions only variables of requested cells
        if v['res'] is not None:
            names = {x.decl().name() for x in free_vars(v['res'])}
            req = set()
            for _, ev in events:
                if ev[0] in ('find', 'get'):
                    req.add('%s/%s' % (ev[1], ev[2].decode('utf-8', 'replace')))
            # the number of keys of an object (Object::len) is not a field the rule addresses: it changes when an unaddressed
            # field is added or removed
            stray = [n for n in names if (not any(n.startswith(r + '.') or n.startswith(r + '#') for r in req) or n.endswith('.nkeys'))
                     and not n.startswith(('re<', 'parse_f64', 'str('))]
            if not stray:
                ck.obligations += 1
                ck.discharged += 1
            else:
                # the verdict term mentions something the rule does not address: can it change the verdict?  Two documents
                # that agree on everything else (the stray variables are renamed in a second copy of the term and of the
                # range axioms); z3 decides whether their verdicts can differ, the pair is replayed natively
                byname = {x.decl().name(): x for x in free_vars(v['res'])}
                pairs = [(byname[n], z3.Const(n + "'", byname[n].sort())) for n in stray]
                res2 = z3.substitute(v['res'], *pairs)
                ax2 = []
                for a in tr.uni.axioms:
                    a2 = z3.substitute(a, *pairs)
                    if not a2.eq(a):
                        ax2.append(a2)

                def on_sat2(model, pairs=pairs, label=label, opts=opts, rj=rj, stray=stray):
                    d1 = tr.render_doc(model)
                    d2 = tr.render_doc(SubstModel(model, pairs))
                    n1 = br.call(cmd='eval', yaml=yaml, opts=opts, doc=d1, mode='flat')
                    n2 = br.call(cmd='eval', yaml=yaml, opts=opts, doc=d2, mode='flat')
                    path = ck.write_replay(safe(label) + '_unaddressed', {'rule': yaml, 'opts': opts, 'doc_a': d1, 'doc_b': d2, 'native_a': n1, 'native_b': n2,
                                                                         'differ_only_in': stray, 'tree': rj['display']})
                    if 'verdict' not in n1 or 'verdict' not in n2:
                        return ('spurious', 'native evaluation failed')
                    ck.replays_ok += 1
                    if n1['verdict'] == n2['verdict']:
                        return ('spurious', 'native verdicts agree (%s)' % path)
                    return ('violation', path, '%s: two documents that differ only in what the rule does not address (%s) get different verdicts: %s -> %s, %s -> %s' % (
                        label, ', '.join(stray[:3]), json.dumps(d1), n1['verdict'], json.dumps(d2), n2['verdict']))
                ck.obligation(label + ':verdict-ignores-unaddressed', tr.uni, z3.And(*ax2, (v['res'] == z3.BitVecVal(0, 64)) != (res2 == z3.BitVecVal(0, 64))),
                              on_sat=on_sat2)


class SubstModel:
    """a model read through a renaming of variables (the second document of a pair)"""

    def __init__(self, model, pairs):
        self.model, self.pairs = model, pairs

    def eval(self, t, model_completion=False):
        return self.model.eval(z3.substitute(t, *self.pairs), model_completion=model_completion)

    def __getitem__(self, k):
        return self.model[k]


def free_vars(t):
    seen = set()
    out = set()
    stack = [t]
    while stack:
        x = stack.pop()
        if x.get_id() in seen:
            continue
        seen.add(x.get_id())
        if z3.is_const(x) and x.decl().kind() == z3.Z3_OP_UNINTERPRETED:
            out.add(x)
        else:
            stack.extend(x.children())
    return out


if __name__ == '__main__':
    run_check(main)
