"""C11  Verdict is independent of how the document is represented (adapters).

Real MIR of every AsValue adapter of value.rs / yaml.rs / json.rs (MIR dump with
--features json) is executed on symbolic inputs:
  * integer / float / bool / string adapters: value and signedness preserved
    (iN -> Int(sign-extended), uN -> UInt(zero-extended), f32 -> Float(exact));
  * serde_yaml::Value and serde_json::Value: Null / Bool / String map to the same
    Value; both Number adapters are executed against one abstract number
    {non-negative integer | negative integer | float} under serde's documented
    is_*/as_* contract and must yield the same Value, with no reachable
    unreachable!();
  * Option / Vec / HashSet: pass-through by execution;
  * the comparison kernel (C09) gives the same verdict whether a non-negative
    integer arrives as Int or as UInt - the one place representations
    legitimately differ.
  * representations: for rules with dotted / indexed / nested keys one witness
    document per path of the real solver + Object::find MIR (solver-derived) is
    evaluated natively as a hand-written Object, as serde_yaml text and as
    serde_json text: the three verdicts agree with each other and with the path.
Outside the claim: the hash-map / index-map lookups themselves, serde's number
parsing, user-written Document implementations.
"""
import os
import re
import z3
from common import *
from mirsym.models_std import MODELS, some, none, deref_all
from mirsym.doc import *

TRUE = z3.BitVecVal(0, 64)
FEATURES = ('json',)


def crate_enum(crate_glob, relpath, enum):
    """variant order of a dependency's enum, read from the cargo registry"""
    import glob
    lock = open(os.path.join(artifacts.REPO, 'Cargo.lock')).read()
    m = re.search(r'name = "%s"\nversion = "([^"]+)"' % crate_glob, lock)
    if not m:
        return None
    for d in glob.glob(os.path.expanduser('~/.cargo/registry/src/*/%s-%s' % (crate_glob, m.group(1)))):
        text = open(os.path.join(d, relpath)).read()
        text = re.sub(r'//[^\n]*', '', text)
        mm = re.search(r'pub enum %s\s*\{' % enum, text)
        if not mm:
            continue
        depth, j = 0, mm.end() - 1
        while True:
            if text[j] == '{':
                depth += 1
            elif text[j] == '}':
                depth -= 1
                if depth == 0:
                    break
            j += 1
        body = text[mm.end():j]
        vs = []
        for part in mir_split(body):
            part = re.sub(r'#\[[^\]]*\]', '', part).strip()
            vm = re.match(r'^(\w+)', part)
            if vm:
                vs.append(vm.group(1))
        return vs
    return None


def mir_split(s):
    from mirsym import mir
    return mir.split_top(s)


def install_number_models(num):
    def front(pattern):
        def deco(fn):
            MODELS.insert(0, (re.compile(pattern), fn))
            return fn
        return deco
    k, u, i, f = num['kind'], num['u'], num['i'], num['f']
    pos, neg, flt = k == 0, k == 1, k == 2

    @front(r'^serde_(yaml|json)::Number::is_u64$')
    def is_u64(ex, callee, args):
        return pos

    @front(r'^serde_(yaml|json)::Number::is_i64$')
    def is_i64(ex, callee, args):
        return z3.Or(neg, z3.And(pos, z3.ULE(u, 2 ** 63 - 1)))

    @front(r'^serde_(yaml|json)::Number::is_f64$')
    def is_f64(ex, callee, args):
        return flt

    @front(r'^serde_(yaml|json)::Number::as_u64$')
    def as_u64(ex, callee, args):
        return some(BV(u, 'u64')) if ex.branch(pos) else none()

    @front(r'^serde_(yaml|json)::Number::as_i64$')
    def as_i64(ex, callee, args):
        if ex.branch(neg):
            return some(BV(i, 'i64'))
        if ex.branch(z3.And(pos, z3.ULE(u, 2 ** 63 - 1))):
            return some(BV(u, 'i64'))
        return none()

    @front(r'^serde_(yaml|json)::Number::as_f64$')
    def as_f64(ex, callee, args):
        if ex.branch(flt):
            return some(FP(f))
        if ex.branch(pos):
            return some(FP(z3.fpUnsignedToFP(z3.RNE(), u, z3.Float64())))
        return some(FP(z3.fpSignedToFP(z3.RNE(), i, z3.Float64())))


def main():
    ck = Check('C11', 'other')
    ck.bounds = {'integers': 'every width, all values (bit-vectors)', 'floats': 'all f32 / f64 values', 'numbers': 'abstract serde number: u64 | negative i64 | f64',
                 'comparison kernel': 'all ops, symbolic constants, x in 0..=i64::MAX as Int and as UInt'}
    ck.assumptions = ['serde_yaml / serde_json Number::is_*/as_* follow their documented contract (modelled); variant order of the Value enums is read from the '
                      'crate sources in the cargo registry', 'HashMap / IndexMap / Mapping lookups, and user Document implementations, are outside the claim']
    ck.functions |= {'value::<impl AsValue for T>::as_value (all primitive impls)', 'yaml::<impl AsValue for Yaml>::as_value', 'json::<impl AsValue for Json>::as_value',
                     'value::<impl AsValue for Option<V>>::as_value', 'solver::solve_expression (comparison arm)'}
    import templates
    S_, M_, K_, L_ = templates.S, templates.M, templates.K, templates.L
    reps = [(name, templates.render(rule)) for fam, name, rule in templates.select(ck.tier, ck.seed) if fam in ('dotted', 'nested') and '&n.' not in name and 'rows' not in name]
    # path segments that look like numbers, and indices at depth: what a JSON pointer / another resolver would read differently
    for nm, rule in (('f: null', templates.single('f', ('null',))), ('not f>3', {'idents': {'A': M_((K_('f'), S_('>3')))}, 'cond': ('not', ('id', 'A'))}),
                     ('n.f null', templates.single('n.f', ('null',))),
                     ('tags.1', templates.single('tags.1', S_('a'))), ('n.0.f', templates.single('n.0.f', S_('a'))),
                     ('n.f[1]', templates.single('n.f[1]', S_('a'))), ('not n.1', {'idents': {'A': M_((K_('n.1'), S_('a')))}, 'cond': ('not', ('id', 'A'))})):
        reps.append(('numeric-segment/' + nm, templates.render(rule)))
    ck.run_units([('prims',), ('serde',), ('containers',), ('kernel',), ('overrides',), ('delegation',)] + [('representations', nm, y) for nm, y in reps], run_unit, jobs=8)
    ck.finish('every AsValue adapter executed from MIR on symbolic inputs; YAML and JSON number adapters against one abstract number; '
              'comparison kernel Int vs UInt')


def plain(docj):
    """bridge document encoding -> a python value that JSON / YAML text can carry, or raise ValueError"""
    import math, struct
    if docj is None or isinstance(docj, bool):
        return docj
    if isinstance(docj, list):
        return [plain(x) for x in docj]
    if '$obj' in docj:
        return {bytes(k).decode('utf-8'): plain(v) for k, v in docj['$obj']}
    if '$str' in docj:
        return bytes(docj['$str']).decode('utf-8')
    if '$i64' in docj:
        return docj['$i64']
    if '$u64' in docj:
        return docj['$u64']
    if '$f64' in docj:
        f = struct.unpack('<d', struct.pack('<Q', docj['$f64']))[0]
        if math.isnan(f) or math.isinf(f):
            raise ValueError('not expressible in JSON')
        return f
    raise ValueError(docj)


def string_cells(doc, out):
    for present, cell in doc.cells.values():
        cell_strings(cell, out)


def cell_strings(cell, out):
    if cell._s is not None:
        out.append(cell._s)
    if cell._arr is not None:
        for el in cell._arr.elems:
            cell_strings(el, out)
    if cell._obj is not None:
        string_cells(cell._obj, out)


def representations_unit(ck, name, yaml):
    """the same logical document as a hand-written Object, as serde_yaml text and as serde_json text: one witness per
    path of the real solver / Object::find MIR over a symbolic object-mode document (z3 gives the witness), evaluated
    natively in the three representations; every verdict must be the one the path returns"""
    import json as _json
    from treelib import TreeRunner, safe
    br = ck.bridge()
    r = br.call(cmd='load', yaml=yaml, opts=None)
    if not r.get('ok'):
        return
    tr = TreeRunner(ck, Bounds(str_cap=2, arr_cap=2, depth=3, as_object=True), as_object=True)
    tr.uni.numstr_cap = 2
    v = tr.evaluate(r)
    # arrays the paths only looked at from outside get their elements, so that a witness can have something in them
    arrays = []

    def populate(doc, depth=0, under=()):
        for present, cell in list(doc.cells.values()):
            populate_cell(cell, depth, under + (present,))

    def populate_cell(cell, depth, under=()):
        if K_ARRAY in cell.kinds and depth < 2:
            arr = cell.arr
            arrays.append((cell, arr, under))
            for el in arr.elems:
                if K_STRING in el.kinds:
                    el.s
        if cell._obj is not None:
            populate(cell._obj, depth + 1, under + (cell.kind == K_OBJECT,))
    populate(tr.doc)
    strs = []
    string_cells(tr.doc, strs)
    printable = []
    for s_ in strs:
        for b in s_.bytes:
            printable.append(z3.And(z3.UGE(b, 0x20), z3.ULE(b, 0x7e), b != 0x22, b != 0x5c))
    # a second witness per path in which every string of the document is one of the rule's own needles where the path
    # allows it (a resolver that reads another element / another level then finds something that matches)
    needles = []
    from treelib import any_node
    for tree in [r['expr']] + [t for _, t in r['idents']]:
        any_node(tree, lambda j: j.get('t') == 'Search' and 'v' in j['s'] and needles.append(bytes(j['s']['v'])))
    alike = []
    if needles:
        nd = needles[0]
        for s_ in strs:
            if len(s_.bytes) >= len(nd):
                alike.append(z3bool(S.s_eq(s_, nd)))
        for cell, arr, _under in arrays:
            alike.append(arr.length == arr.cap)
            for el in arr.elems:
                if K_STRING in el.kinds:
                    alike.append(el.kind == K_STRING)
    # witnesses: for each value the rule can return, documents of different *shapes* (which cells are present and of
    # which kind; the summarised solver returns one merged term, so the shapes are enumerated by blocking), each once as
    # the solver gives it and once with its strings pulled towards the rule's needle
    shape_vars = []

    def shapes(doc):
        for present, cell in doc.cells.values():
            shape_vars.append(present)
            cell_shape(cell)

    def cell_shape(cell):
        shape_vars.append(cell.kind)
        if cell._arr is not None:
            shape_vars.append(cell._arr.length)
            for el in cell._arr.elems:
                cell_shape(el)
        if cell._obj is not None:
            shapes(cell._obj)
    shapes(tr.doc)
    n = 0
    per_value = 4 if ck.tier == 'quick' else 10
    models = []
    for val in (0, 1, 2):
        blocked = []
        for k_ in range(per_value):
            rr, model = ck.solve(tr.uni, v['res'] == z3.BitVecVal(val, 64), *printable, *blocked)
            if rr != 'sat':
                break
            models.append((val, k_, model, False))
            sig = [sv == model.eval(sv, model_completion=True) for sv in shape_vars]
            blocked.append(z3.Not(z3.And(*sig)) if sig else z3.BoolVal(False))
            if alike:
                # the same shape, strings as close to the needle as the value allows (greedy)
                keep = list(sig)
                for c in alike:
                    r2, _ = ck.solve(tr.uni, v['res'] == z3.BitVecVal(val, 64), *printable, *keep, c)
                    if r2 == 'sat':
                        keep.append(c)
                r3, m3 = ck.solve(tr.uni, v['res'] == z3.BitVecVal(val, 64), *printable, *keep)
                if r3 == 'sat':
                    models.append((val, k_, m3, True))
    # and the shapes in which an array is as full as it can be and holds the needle, whatever the value
    if alike:
        keep = []
        for c in reversed(alike):
            r2, _ = ck.solve(tr.uni, *printable, *keep, c)
            if r2 == 'sat':
                keep.append(c)
        r3, m3 = ck.solve(tr.uni, *printable, *keep)
        if r3 == 'sat':
            models.append((9, 0, m3, True))
    # one witness per array the rule's paths can reach: the array is there, full, and every element is the needle
    for ai, (cell, arr, under) in enumerate(arrays):
        cs = list(under) + [cell.kind == K_ARRAY, arr.length == arr.cap]
        for el in arr.elems:
            if K_STRING in el.kinds and needles and len(el.s.bytes) >= len(needles[0]):
                cs += [el.kind == K_STRING, z3bool(S.s_eq(el.s, needles[0]))]
        r3, m3 = ck.solve(tr.uni, *printable, *cs)
        if r3 == 'sat':
            models.append((8, ai, m3, True))
    # documents in which a *member is literally named* like a dotted / indexed key of the rule: no representation may
    # answer the path from it
    lits = []
    for tree in [r['expr']] + [t for _, t in r['idents']]:
        any_node(tree, lambda j: j.get('t') in ('Search', 'Nested', 'Field', 'Cast') and (b'.' in bytes(j['f']) or b'[' in bytes(j['f'])) and lits.append(bytes(j['f'])))
    literal_docs = []
    for key in sorted(set(lits)):
        nd_ = (needles[0] if needles else b'a').decode('latin1')
        head = key.decode('latin1').split('.')[0].split('[')[0]
        literal_docs.append({key.decode('latin1'): nd_})
        literal_docs.append({key.decode('latin1'): nd_, head: {'zz': nd_}})
    for li, pd in enumerate(literal_docs):
        ck.obligations += 1
        text = _json.dumps(pd)
        docj = {'$obj': [[list(k.encode()), ({'$str': list(v.encode())} if isinstance(v, str) else {'$obj': [[list(k2.encode()), {'$str': list(v2.encode())}] for k2, v2 in v.items()]})] for k, v in pd.items()]}
        n_obj = br.call(cmd='eval', yaml=yaml, opts=None, doc=docj, mode='object')
        n_yaml = br.call(cmd='eval_yaml', yaml=yaml, opts=None, doc_text=text)
        n_json = br.call(cmd='eval_yaml', yaml=yaml, opts=None, doc_text=text, json=True)
        got = {'object': n_obj.get('verdict'), 'yaml': n_yaml.get('verdict'), 'json': n_json.get('verdict')}
        if len(set(got.values())) == 1:
            ck.discharged += 1
            ck.replays_ok += 3
        else:
            path = ck.write_replay('representations_' + safe(name) + '_literal%d' % li, {'rule': yaml, 'document': pd, 'verdicts': got, 'native': [n_obj, n_yaml, n_json]})
            ck.violations.append((path, '%s: a member literally named like the key gives different verdicts depending on the representation: %s on %s' % (name, got, text)))
    for val, i, model, extra in models:
        ck.obligations += 1
        docj = tr.render_doc(model)
        try:
            text = _json.dumps(plain(docj))
        except (ValueError, UnicodeDecodeError):
            ck.discharged += 1
            continue
        want = model.eval(v['res'], model_completion=True).as_long() == 0
        n_obj = br.call(cmd='eval', yaml=yaml, opts=None, doc=docj, mode='object')
        n_yaml = br.call(cmd='eval_yaml', yaml=yaml, opts=None, doc_text=text)
        n_json = br.call(cmd='eval_yaml', yaml=yaml, opts=None, doc_text=text, json=True)
        n += 1
        got = {'object': n_obj.get('verdict'), 'yaml': n_yaml.get('verdict'), 'json': n_json.get('verdict')}
        # a std HashMap<String, V> at the top level, and everything again in the build with the `sync` feature (which
        # compiles separately written copies of the Object trait and of the HashMap adapter)
        got['hashmap'] = br.call(cmd='eval', yaml=yaml, opts=None, doc=docj, mode='hashmap').get('verdict')
        brs = ck.bridge(sync=True)
        got['sync:object'] = brs.call(cmd='eval', yaml=yaml, opts=None, doc=docj, mode='object').get('verdict')
        got['sync:hashmap'] = brs.call(cmd='eval', yaml=yaml, opts=None, doc=docj, mode='hashmap').get('verdict')
        got['sync:yaml'] = brs.call(cmd='eval_yaml', yaml=yaml, opts=None, doc_text=text).get('verdict')
        if len(set(got.values())) == 1 and got['object'] == want:
            ck.discharged += 1
            ck.replays_ok += len(got)
            continue
        path = ck.write_replay('representations_' + safe(name) + '_%d_%d%s' % (val, i, 'n' if extra else ''), {'rule': yaml, 'document': _json.loads(text), 'doc': docj, 'verdicts': got,
                                                                             'mir_path_returns': bool(want), 'native': [n_obj, n_yaml, n_json]})
        if len(set(got.values())) > 1:
            ck.violations.append((path, '%s: the same document gives different verdicts depending on its representation: %s on %s' % (name, got, text)))
        else:
            ck.inconclusive.append('%s: model did not reproduce: the executor says %s, every representation says %s (%s)' % (name, want, got['object'], path))
    ck.extra['representation_witnesses'] = ck.extra.get('representation_witnesses', 0) + n


def prim_replay(ck, name, ty, candidates, mir_result):
    """the executor says the adapter can leave the specification; replay natively (bridge `prim`) on the solver's value
    and on the boundary values of the type: a violation is reported only for a value on which the real adapter does"""
    import struct
    br = ck.bridge()
    for bits_ in candidates:
        n = br.call(cmd='prim', ty=ty, bits=bits_)
        if ty in INT_TYPES:
            w, signed = INT_TYPES[ty]
            v = bits_ & ((1 << w) - 1)
            if signed and v >= 1 << (w - 1):
                v -= 1 << w
            exp = {'$i64': v} if signed else {'$u64': v}
        elif ty == 'f32':
            f = struct.unpack('<f', struct.pack('<I', bits_ & 0xffffffff))[0]
            exp = {'$f64': struct.unpack('<Q', struct.pack('<d', f))[0]}
        elif ty == 'f64':
            exp = {'$f64': bits_}
        else:
            exp = bool(bits_)
        got = n.get('value')
        same = got == exp
        if not same and isinstance(got, dict) and isinstance(exp, dict) and '$f64' in got and '$f64' in exp:
            a, b = (struct.unpack('<d', struct.pack('<Q', t['$f64']))[0] for t in (got, exp))
            same = a != a and b != b      # any NaN for a NaN
        if not same:
            p = ck.write_replay('prim_%s_%x' % (ty, bits_), {'type': ty, 'bits': bits_, 'native': n, 'expected': exp, 'mir_result': mir_result,
                                                            'request': {'cmd': 'prim', 'ty': ty, 'bits': bits_}})
            ck.replays_ok += 1
            ck.violations.append((p, '%s: the %s with bits %#x becomes %s, its value is %s' % (name, ty, bits_, got, exp)))
            return
    ck.inconclusive.append('%s: the executor finds a deviation (%s) that does not reproduce natively' % (name, mir_result[:120]))


def value_of(v):
    """(variant name, payload) of a concrete tau Value"""
    return v.vname, (v.items[0] if v.items else None)


def run_unit(ck, unit):
    kind = unit[0]
    if kind == 'delegation':
        # a hand-written Object (which may answer `find` itself) used as a document, at the top level or as a nested value:
        # every key goes to its `find` (shared with C10)
        import C10
        C10.delegation_unit(ck, ck.program())
        return
    if kind == 'overrides':
        # a container's Object impl that overrides find() would make that representation resolve keys differently
        import C10
        C10.run_unit(ck, ('overrides',))
        return
    if kind == 'representations':
        representations_unit(ck, unit[1], unit[2])
        return
    prog = ck.program(FEATURES)
    uni = engine.Universe()
    if kind == 'prims':
        ex = ck.new_engine(prog, uni=uni, summarise=())
        fns = [f for f in prog.fns if f.kind == 'fn' and f.name.endswith('::as_value') and 'closure' not in f.name and f.args]
        seen = set()
        for f in fns:
            ty = f.args[0][1].lstrip('&').strip()
            if ty in INT_TYPES and ty != 'char':
                bits, signed = INT_TYPES[ty]
                x = z3.BitVec('x_' + ty, bits)
                res = ex.explore(f, [Ref(Cont([BV(x, ty)]), 0)])
                okv = len(res) == 1 and res[0].kind == 'return'
                want_kind = 'Int' if signed else 'UInt'
                name = 'as_value(%s)' % ty
                ck.obligations += 1
                if okv:
                    vn, pl = value_of(res[0].value)
                    ext = z3.SignExt(64 - bits, x) if signed and bits < 64 else (z3.ZeroExt(64 - bits, x) if bits < 64 else x)
                    got = pl.v if isinstance(pl, BV) else None
                    r, m = ck.solve(uni, z3.BoolVal(vn != want_kind) if got is None else z3.Or(z3.BoolVal(vn != want_kind), got != ext))
                    if r == 'unsat':
                        ck.discharged += 1
                    else:
                        xv = m.eval(x, model_completion=True).as_long()
                        prim_replay(ck, name, ty, [xv, 0, 1, (1 << bits) - 1, 1 << (bits - 1), (1 << (bits - 1)) - 1], str(res[0].value))
                else:
                    ck.inconclusive.append(name + ': unexpected paths')
                seen.add(ty)
                ck.samples.append({'adapter': name, 'expects': want_kind})
            elif ty in ('f32', 'f64'):
                sort = z3.Float32() if ty == 'f32' else z3.Float64()
                x = z3.FP('x_' + ty, sort)
                res = ex.explore(f, [Ref(Cont([FP(x)]), 0)])
                ck.obligations += 1
                vn, pl = value_of(res[0].value)
                want = z3.fpFPToFP(z3.RNE(), x, z3.Float64()) if ty == 'f32' else x
                got = engine.to_fp(pl)
                r, m = ck.solve(uni, z3.Or(z3.BoolVal(vn != 'Float'), z3.Not(z3.Or(z3.fpEQ(got, want), z3.And(z3.fpIsNaN(got), z3.fpIsNaN(want)))),
                                           z3.fpIsNegative(got) != z3.fpIsNegative(want)))
                if r == 'unsat':
                    ck.discharged += 1
                else:
                    import struct
                    xb = m.eval(z3.fpToIEEEBV(x), model_completion=True).as_long()
                    cands = [xb] + ([struct.unpack('<I', struct.pack('<f', c))[0] for c in (0.1, 0.3, 0.7, 1e-10, 16777217.0, 3.4028234e38, 1e-45, -0.1)] if ty == 'f32'
                                    else [struct.unpack('<Q', struct.pack('<d', c))[0] for c in (0.1, 1e300, 5e-324, -0.0)])
                    prim_replay(ck, 'as_value(%s)' % ty, ty, cands, str(res[0].value))
                seen.add(ty)
            elif ty == 'bool':
                b = z3.Bool('xb')
                res = ex.explore(f, [Ref(Cont([b]), 0)])
                ck.obligations += 1
                vn, pl = value_of(res[0].value)
                r, _ = ck.solve(uni, z3.Or(z3.BoolVal(vn != 'Bool'), z3bool(pl) != b))
                ck.discharged += (r == 'unsat')
                if r != 'unsat':
                    ck.violations.append((None, 'as_value(bool) does not preserve the value'))
                seen.add(ty)
            elif ty in ('str', 'std::string::String'):
                s = S.fresh('xs', 3, uni.axioms, ascii_only=False)
                arg = StrV(s) if ty == 'str' else Ref(Cont([StrV(s)]), 0)
                res = ex.explore(f, [arg])
                ck.obligations += 1
                vn, pl = value_of(res[0].value)
                from mirsym.models_std import as_str
                okv = vn == 'String' and as_str(pl) is s
                ck.discharged += bool(okv)
                if not okv:
                    ck.violations.append((None, 'as_value(%s) does not return the string' % ty))
                seen.add(ty)
            elif ty == '()':
                res = ex.explore(f, [Ref(Cont([UNIT]), 0)])
                ck.obligations += 1
                okv = value_of(res[0].value)[0] == 'Null'
                ck.discharged += bool(okv)
                if not okv:
                    ck.violations.append((None, 'as_value(()) is not Null'))
                seen.add(ty)
        need = {'i8', 'i16', 'i32', 'i64', 'isize', 'u8', 'u16', 'u32', 'u64', 'usize', 'f32', 'f64', 'bool', 'str', 'std::string::String', '()'}
        if need - seen:
            ck.inconclusive.append('adapters not found in the MIR dump: %s' % sorted(need - seen))
        ck.extra['programs'] = len(seen)
        return
    if kind == 'serde':
        for crate, rel, name, key in (('serde_yaml', 'src/value/mod.rs', 'Value', 'serde_yaml::Value'), ('serde_json', 'src/value/mod.rs', 'Value', 'serde_json::Value')):
            real = crate_enum(crate, rel, name)
            if real != program.STD_ENUMS[key]:
                ck.inconclusive.append('variant order of %s in the registry (%r) differs from the table' % (key, real))
                return
        num = {'kind': z3.BitVec('num.kind', 8), 'u': z3.BitVec('num.u', 64), 'i': z3.BitVec('num.i', 64), 'f': z3.FP('num.f', z3.Float64())}
        uni.axioms += [z3.ULE(num['kind'], 2), num['i'] < 0]
        install_number_models(num)
        ex = ck.new_engine(prog, uni=uni, summarise=())
        fy = prog.find_impl('AsValue', 'Yaml', 'as_value') or [f for f in prog.fns if f.name.startswith('yaml::') and f.name.endswith('::as_value')][0]
        fj = prog.find_impl('AsValue', 'Json', 'as_value') or [f for f in prog.fns if f.name.startswith('json::') and f.name.endswith('::as_value')][0]
        numv = Opaque('number')
        outs = {}
        for tag, f, en in (('yaml', fy, 'serde_yaml::Value'), ('json', fj, 'serde_json::Value')):
            v = Adt(en, program.STD_ENUMS[en].index('Number'), 'Number', [numv])
            res = ex.explore(f, [Ref(Cont([v]), 0)])
            outs[tag] = res
            panics = [r for r in res if r.kind == 'panic']
            ck.obligation('%s number adapter: no panic / unreachable' % tag, uni, b_or(*[r.cond() for r in panics]) if panics else False,
                          sample={'adapter': tag + ' Number', 'paths': len(res)})
            # expected Value per abstract kind
            bad = []
            for r in res:
                if r.kind != 'return':
                    continue
                vn, pl = value_of(r.value)
                k = num['kind']
                exp = z3.Or(z3.And(k == 0, z3.BoolVal(vn == 'UInt'), (pl.v == num['u']) if vn == 'UInt' else z3.BoolVal(False)),
                            z3.And(k == 1, z3.BoolVal(vn == 'Int'), (pl.v == num['i']) if vn == 'Int' else z3.BoolVal(False)),
                            z3.And(k == 2, z3.BoolVal(vn == 'Float'), (engine.to_fp(pl) == num['f']) if vn == 'Float' else z3.BoolVal(False)))
                bad.append(z3.And(z3bool(r.cond()), z3.Not(exp)))
            def on_num(model, tag=tag):
                # replay: the model's number, then the boundary numbers, as YAML / JSON text through serde and the adapter
                import struct
                kk = model.eval(num['kind'], model_completion=True).as_long()
                fbits = fp_bits(model, num['f'])
                fval = struct.unpack('<d', struct.pack('<Q', fbits))[0]
                ftxt = repr(fval) if fval == fval and abs(fval) != float('inf') else '1.5'
                first = {0: str(model.eval(num['u'], model_completion=True).as_long()),
                         1: str(norm_int(model.eval(num['i'], model_completion=True).as_long(), 'i64')), 2: ftxt}[kk]
                br_ = ck.bridge()
                for text in [first, '0', '1', '-1', '9223372036854775807', '9223372036854775808', '18446744073709551615', '-9223372036854775808', '1.5', '-0.5',
                             '2.0', '-3.0', '0.0', '1e3', '1.0e19'] + (['.inf', '-.inf', '.nan'] if tag == 'yaml' else []):
                    n = br_.call(cmd='scalar_value', text=text, json=(tag == 'json'))
                    if text in ('.inf', '-.inf', '.nan'):
                        # YAML's non-finite floats are floats (any NaN payload is a NaN)
                        got = (n.get('value') or {}).get('$f64') if isinstance(n.get('value'), dict) else None
                        if text == '.nan' and isinstance(got, int) and (got >> 52) & 0x7ff == 0x7ff and got & ((1 << 52) - 1):
                            continue
                        exp = {'$f64': {'.inf': 0x7ff0000000000000, '-.inf': 0xfff0000000000000}.get(text, 0x7ff8000000000000)}
                    elif '.' in text or 'e' in text or 'E' in text:
                        exp = {'$f64': struct.unpack('<Q', struct.pack('<d', float(text)))[0]}
                    elif text.startswith('-'):
                        exp = {'$i64': int(text)}
                    else:
                        exp = {'$u64': int(text)}
                    if n.get('value') != exp:
                        p_ = ck.write_replay('number_%s_%s' % (tag, text.replace('-', 'm').replace('.', '_')),
                                             {'representation': tag, 'text': text, 'native': n, 'expected': exp, 'request': {'cmd': 'scalar_value', 'text': text, 'json': tag == 'json'}})
                        ck.replays_ok += 1
                        return ('violation', p_, 'the %s number %s reaches the engine as %s, it is %s' % (tag, text, n.get('value'), exp))
                return ('spurious', 'the %s number adapter agrees natively on the model and on the boundary numbers' % tag)
            ck.obligation('%s number adapter: kind, value and signedness preserved' % tag, uni, z3.Or(*bad) if bad else False, on_sat=on_num)
        # scalars
        for tag, f, en in (('yaml', fy, 'serde_yaml::Value'), ('json', fj, 'serde_json::Value')):
            vs = program.STD_ENUMS[en]
            b = z3.Bool('sb')
            s = S.fresh('ss', 3, uni.axioms, ascii_only=False)
            for vname, payload, want in (('Null', [], ('Null', None)), ('Bool', [b], ('Bool', b)), ('String', [StrV(s)], ('String', s))):
                v = Adt(en, vs.index(vname), vname, payload)
                res = ex.explore(f, [Ref(Cont([v]), 0)])
                ck.obligations += 1
                okv = len(res) == 1 and res[0].kind == 'return'
                if okv:
                    vn, pl = value_of(res[0].value)
                    if vn != want[0]:
                        okv = False
                    elif vn == 'Bool':
                        okv = pl is b or (z3.is_expr(pl) and pl.eq(b))
                    elif vn == 'String':
                        from mirsym.models_std import as_str
                        okv = as_str(pl) is s
                ck.discharged += bool(okv)
                if not okv:
                    ck.violations.append((None, '%s %s adapter gives %s' % (tag, vname, [str(r.value) for r in res])))
        ck.extra['programs'] = 2
        return
    if kind == 'containers':
        ex = ck.new_engine(prog, uni=uni, summarise=())
        marker = Adt('Value', 1, 'Bool', [True])

        def hook(e, callee, args):
            if re.match(r'^<V as (value::)?AsValue>::as_value$', callee):
                return (marker,)
            return None
        ex.call_hook = hook
        fns = {f.args[0][1]: f for f in prog.fns if f.kind == 'fn' and f.name.endswith('::as_value') and 'closure' not in f.name and f.args}
        opt = [f for t, f in fns.items() if 'Option<V>' in t]
        vec = [f for t, f in fns.items() if t.startswith('&Vec<V>')]
        hs = [f for t, f in fns.items() if 'HashSet<V>' in t]
        if not (opt and vec and hs):
            ck.inconclusive.append('container adapters not found: %r' % sorted(fns))
            return
        inner = Opaque('inner')
        r1 = ex.explore(opt[0], [Ref(Cont([Adt('Option', 0, 'None', [])]), 0)])
        r2 = ex.explore(opt[0], [Ref(Cont([Adt('Option', 1, 'Some', [inner])]), 0)])
        ck.obligations += 2
        ck.discharged += (len(r1) == 1 and r1[0].kind == 'return' and r1[0].value.vname == 'Null')
        ck.discharged += (len(r2) == 1 and r2[0].kind == 'return' and r2[0].value is marker)
        if ck.discharged != ck.obligations:
            ck.violations.append((None, 'Option adapter: None -> %s, Some(v) -> %s' % (r1[0].value if r1 else None, r2[0].value if r2 else None)))
        for nm, f in (('Vec', vec[0]), ('HashSet', hs[0])):
            c = VecV([inner])
            ref = Ref(Cont([c]), 0)
            r = ex.explore(f, [ref])
            ck.obligations += 1
            okv = len(r) == 1 and r[0].kind == 'return' and r[0].value.vname == 'Array' and deref_all(r[0].value.items[0]) is c
            ck.discharged += bool(okv)
            if not okv:
                ck.violations.append((None, '%s adapter does not expose the container as an Array' % nm))
        ck.samples.append({'adapter': 'Option/Vec/HashSet', 'form': 'pass-through'})
        ck.extra['programs'] = 3
        return
    if kind == 'kernel':
        import C09
        prog0 = ck.program()
        imp = models_tau.TreeImporter(prog0)
        ex = ck.new_engine(prog0, uni=uni)
        d = SymDoc(uni, 'doc', Bounds(str_cap=1, arr_cap=1, depth=0, kinds=[K_INT, K_UINT]))
        pa, ca = d.lookup(b'a')
        pb, cb = d.lookup(b'b')
        n = z3.BitVec('n', 64)
        # the same non-negative integer, once as Int and once as UInt
        uni.axioms += [pa, pb, ca.kind == K_INT, cb.kind == K_UINT, ca.i >= 0, ca.i == cb.u]
        for op in C09.OPS:
            out = {}
            for fld in (b'a', b'b'):
                e = imp.enum('Expression', 'BooleanExpression', [BoxV([imp.enum('Expression', 'Field', [StrV(fld)])]), imp.boolsym(op),
                                                                 BoxV([imp.enum('Expression', 'Integer', [BV(n, 'i64')])])])
                ex.frozen_below = next_oid()
                res = ex.explore('solve_expression', [Ref(Cont([e]), 0), Ref(Cont([MapV({})]), 0), Ref(Cont([d]), 0)])
                val, pc, _ = summarise_paths(res)
                out[fld] = sr_term(val)
            ck.obligation('kernel %s: Int(x) and UInt(x) compare alike' % op, uni, out[b'a'] != out[b'b'],
                          sample={'form': 'Field %s n with x as Int vs UInt' % op})
        ck.extra['programs'] = len(C09.OPS) * 2
        return


if __name__ == '__main__':
    run_check(main)
