"""C11  Verdict is independent of how the document is represented (adapters).

Real MIR of every AsValue adapter of value.rs / yaml.rs / json.rs (MIR dump with
--features json) is executed on symbolic inputs:
  * integer / float / bool / string adapters: value and signedness preserved
    (iN -> Int(sign-extended), uN -> UInt(zero-extended), f32 -> Float(exact));
  * serde_yaml::Value and serde_json::Value: Null / Bool / String map to the same
    Value; both Number adapters are executed against one abstract number
    {non-negative integer | negative integer | float} under serde's documented
    is_*/as_* contract and must yield the same Value, with no reachable
    unreachable!();
  * Option / Vec / HashSet: pass-through by execution;
  * the comparison kernel (C09) gives the same verdict whether a non-negative
    integer arrives as Int or as UInt - the one place representations
    legitimately differ.
Outside the claim: the hash-map / index-map lookups themselves, serde's number
parsing, user-written Document implementations.
"""
import os
import re
import z3
from common import *
from mirsym.models_std import MODELS, some, none, deref_all
from mirsym.doc import *

TRUE = z3.BitVecVal(0, 64)
FEATURES = ('json',)


def crate_enum(crate_glob, relpath, enum):
    """variant order of a dependency's enum, read from the cargo registry"""
    import glob
    lock = open(os.path.join(artifacts.REPO, 'Cargo.lock')).read()
    m = re.search(r'name = "%s"\nversion = "([^"]+)"' % crate_glob, lock)
    if not m:
        return None
    for d in glob.glob(os.path.expanduser('~/.cargo/registry/src/*/%s-%s' % (crate_glob, m.group(1)))):
        text = open(os.path.join(d, relpath)).read()
        text = re.sub(r'//[^\n]*', '', text)
        mm = re.search(r'pub enum %s\s*\{' % enum, text)
        if not mm:
            continue
        depth, j = 0, mm.end() - 1
        while True:
            if text[j] == '{':
                depth += 1
            elif text[j] == '}':
                depth -= 1
                if depth == 0:
                    break
            j += 1
        body = text[mm.end():j]
        vs = []
        for part in mir_split(body):
            part = re.sub(r'#\[[^\]]*\]', '', part).strip()
            vm = re.match(r'^(\w+)', part)
            if vm:
                vs.append(vm.group(1))
        return vs
    return None


def mir_split(s):
    from mirsym import mir
    return mir.split_top(s)


def install_number_models(num):
    def front(pattern):
        def deco(fn):
            MODELS.insert(0, (re.compile(pattern), fn))
            return fn
        return deco
    k, u, i, f = num['kind'], num['u'], num['i'], num['f']
    pos, neg, flt = k == 0, k == 1, k == 2

    @front(r'^serde_(yaml|json)::Number::is_u64$')
    def is_u64(ex, callee, args):
        return pos

    @front(r'^serde_(yaml|json)::Number::is_i64$')
    def is_i64(ex, callee, args):
        return z3.Or(neg, z3.And(pos, z3.ULE(u, 2 ** 63 - 1)))

    @front(r'^serde_(yaml|json)::Number::is_f64$')
    def is_f64(ex, callee, args):
        return flt

    @front(r'^serde_(yaml|json)::Number::as_u64$')
    def as_u64(ex, callee, args):
        return some(BV(u, 'u64')) if ex.branch(pos) else none()

    @front(r'^serde_(yaml|json)::Number::as_i64$')
    def as_i64(ex, callee, args):
        if ex.branch(neg):
            return some(BV(i, 'i64'))
        if ex.branch(z3.And(pos, z3.ULE(u, 2 ** 63 - 1))):
            return some(BV(u, 'i64'))
        return none()

    @front(r'^serde_(yaml|json)::Number::as_f64$')
    def as_f64(ex, callee, args):
        if ex.branch(flt):
            return some(FP(f))
        if ex.branch(pos):
            return some(FP(z3.fpUnsignedToFP(z3.RNE(), u, z3.Float64())))
        return some(FP(z3.fpSignedToFP(z3.RNE(), i, z3.Float64())))


def main():
    ck = Check('C11', 'other')
    ck.bounds = {'integers': 'every width, all values (bit-vectors)', 'floats': 'all f32 / f64 values', 'numbers': 'abstract serde number: u64 | negative i64 | f64',
                 'comparison kernel': 'all ops, symbolic constants, x in 0..=i64::MAX as Int and as UInt'}
    ck.assumptions = ['serde_yaml / serde_json Number::is_*/as_* follow their documented contract (modelled); variant order of the Value enums is read from the '
                      'crate sources in the cargo registry', 'HashMap / IndexMap / Mapping lookups, and user Document implementations, are outside the claim']
    ck.functions |= {'value::<impl AsValue for T>::as_value (all primitive impls)', 'yaml::<impl AsValue for Yaml>::as_value', 'json::<impl AsValue for Json>::as_value',
                     'value::<impl AsValue for Option<V>>::as_value', 'solver::solve_expression (comparison arm)'}
    ck.run_units([('prims',), ('serde',), ('containers',), ('kernel',), ('overrides',)], run_unit, jobs=5)
    ck.finish('every AsValue adapter executed from MIR on symbolic inputs; YAML and JSON number adapters against one abstract number; '
              'comparison kernel Int vs UInt')


def value_of(v):
    """(variant name, payload) of a concrete tau Value"""
    return v.vname, (v.items[0] if v.items else None)


def run_unit(ck, unit):
    kind = unit[0]
    if kind == 'overrides':
        # a container's Object impl that overrides find() would make that representation resolve keys differently
        import C10
        C10.run_unit(ck, ('overrides',))
        return
    prog = ck.program(FEATURES)
    uni = engine.Universe()
    if kind == 'prims':
        ex = ck.new_engine(prog, uni=uni, summarise=())
        fns = [f for f in prog.fns if f.kind == 'fn' and f.name.endswith('::as_value') and 'closure' not in f.name and f.args]
        seen = set()
        for f in fns:
            ty = f.args[0][1].lstrip('&').strip()
            if ty in INT_TYPES and ty != 'char':
                bits, signed = INT_TYPES[ty]
                x = z3.BitVec('x_' + ty, bits)
                res = ex.explore(f, [Ref(Cont([BV(x, ty)]), 0)])
                okv = len(res) == 1 and res[0].kind == 'return'
                want_kind = 'Int' if signed else 'UInt'
                name = 'as_value(%s)' % ty
                ck.obligations += 1
                if okv:
                    vn, pl = value_of(res[0].value)
                    ext = z3.SignExt(64 - bits, x) if signed and bits < 64 else (z3.ZeroExt(64 - bits, x) if bits < 64 else x)
                    got = pl.v if isinstance(pl, BV) else None
                    r, m = ck.solve(uni, z3.BoolVal(vn != want_kind) if got is None else z3.Or(z3.BoolVal(vn != want_kind), got != ext))
                    if r == 'unsat':
                        ck.discharged += 1
                    else:
                        p = ck.write_replay('prim_' + ty, {'type': ty, 'result': str(res[0].value), 'x': str(m.eval(x, model_completion=True))})
                        ck.violations.append((p, '%s: %s value %s becomes %s' % (name, ty, m.eval(x, model_completion=True), res[0].value)))
                else:
                    ck.inconclusive.append(name + ': unexpected paths')
                seen.add(ty)
                ck.samples.append({'adapter': name, 'expects': want_kind})
            elif ty in ('f32', 'f64'):
                sort = z3.Float32() if ty == 'f32' else z3.Float64()
                x = z3.FP('x_' + ty, sort)
                res = ex.explore(f, [Ref(Cont([FP(x)]), 0)])
                ck.obligations += 1
                vn, pl = value_of(res[0].value)
                want = z3.fpFPToFP(z3.RNE(), x, z3.Float64()) if ty == 'f32' else x
                got = engine.to_fp(pl)
                r, m = ck.solve(uni, z3.Or(z3.BoolVal(vn != 'Float'), z3.Not(z3.Or(z3.fpEQ(got, want), z3.And(z3.fpIsNaN(got), z3.fpIsNaN(want)))),
                                           z3.fpIsNegative(got) != z3.fpIsNegative(want)))
                if r == 'unsat':
                    ck.discharged += 1
                else:
                    ck.violations.append((None, 'as_value(%s) does not preserve the value' % ty))
                seen.add(ty)
            elif ty == 'bool':
                b = z3.Bool('xb')
                res = ex.explore(f, [Ref(Cont([b]), 0)])
                ck.obligations += 1
                vn, pl = value_of(res[0].value)
                r, _ = ck.solve(uni, z3.Or(z3.BoolVal(vn != 'Bool'), z3bool(pl) != b))
                ck.discharged += (r == 'unsat')
                if r != 'unsat':
                    ck.violations.append((None, 'as_value(bool) does not preserve the value'))
                seen.add(ty)
            elif ty in ('str', 'std::string::String'):
                s = S.fresh('xs', 3, uni.axioms, ascii_only=False)
                arg = StrV(s) if ty == 'str' else Ref(Cont([StrV(s)]), 0)
                res = ex.explore(f, [arg])
                ck.obligations += 1
                vn, pl = value_of(res[0].value)
                from mirsym.models_std import as_str
                okv = vn == 'String' and as_str(pl) is s
                ck.discharged += bool(okv)
                if not okv:
                    ck.violations.append((None, 'as_value(%s) does not return the string' % ty))
                seen.add(ty)
            elif ty == '()':
                res = ex.explore(f, [Ref(Cont([UNIT]), 0)])
                ck.obligations += 1
                okv = value_of(res[0].value)[0] == 'Null'
                ck.discharged += bool(okv)
                if not okv:
                    ck.violations.append((None, 'as_value(()) is not Null'))
                seen.add(ty)
        need = {'i8', 'i16', 'i32', 'i64', 'isize', 'u8', 'u16', 'u32', 'u64', 'usize', 'f32', 'f64', 'bool', 'str', 'std::string::String', '()'}
        if need - seen:
            ck.inconclusive.append('adapters not found in the MIR dump: %s' % sorted(need - seen))
        ck.extra['programs'] = len(seen)
        return
    if kind == 'serde':
        for crate, rel, name, key in (('serde_yaml', 'src/value/mod.rs', 'Value', 'serde_yaml::Value'), ('serde_json', 'src/value/mod.rs', 'Value', 'serde_json::Value')):
            real = crate_enum(crate, rel, name)
            if real != program.STD_ENUMS[key]:
                ck.inconclusive.append('variant order of %s in the registry (%r) differs from the table' % (key, real))
                return
        num = {'kind': z3.BitVec('num.kind', 8), 'u': z3.BitVec('num.u', 64), 'i': z3.BitVec('num.i', 64), 'f': z3.FP('num.f', z3.Float64())}
        uni.axioms += [z3.ULE(num['kind'], 2), num['i'] < 0]
        install_number_models(num)
        ex = ck.new_engine(prog, uni=uni, summarise=())
        fy = prog.find_impl('AsValue', 'Yaml', 'as_value') or [f for f in prog.fns if f.name.startswith('yaml::') and f.name.endswith('::as_value')][0]
        fj = prog.find_impl('AsValue', 'Json', 'as_value') or [f for f in prog.fns if f.name.startswith('json::') and f.name.endswith('::as_value')][0]
        numv = Opaque('number')
        outs = {}
        for tag, f, en in (('yaml', fy, 'serde_yaml::Value'), ('json', fj, 'serde_json::Value')):
            v = Adt(en, program.STD_ENUMS[en].index('Number'), 'Number', [numv])
            res = ex.explore(f, [Ref(Cont([v]), 0)])
            outs[tag] = res
            panics = [r for r in res if r.kind == 'panic']
            ck.obligation('%s number adapter: no panic / unreachable' % tag, uni, b_or(*[r.cond() for r in panics]) if panics else False,
                          sample={'adapter': tag + ' Number', 'paths': len(res)})
            # expected Value per abstract kind
            bad = []
            for r in res:
                if r.kind != 'return':
                    continue
                vn, pl = value_of(r.value)
                k = num['kind']
                exp = z3.Or(z3.And(k == 0, z3.BoolVal(vn == 'UInt'), (pl.v == num['u']) if vn == 'UInt' else z3.BoolVal(False)),
                            z3.And(k == 1, z3.BoolVal(vn == 'Int'), (pl.v == num['i']) if vn == 'Int' else z3.BoolVal(False)),
                            z3.And(k == 2, z3.BoolVal(vn == 'Float'), (engine.to_fp(pl) == num['f']) if vn == 'Float' else z3.BoolVal(False)))
                bad.append(z3.And(z3bool(r.cond()), z3.Not(exp)))
            ck.obligation('%s number adapter: kind, value and signedness preserved' % tag, uni, z3.Or(*bad) if bad else False)
        # scalars
        for tag, f, en in (('yaml', fy, 'serde_yaml::Value'), ('json', fj, 'serde_json::Value')):
            vs = program.STD_ENUMS[en]
            b = z3.Bool('sb')
            s = S.fresh('ss', 3, uni.axioms, ascii_only=False)
            for vname, payload, want in (('Null', [], ('Null', None)), ('Bool', [b], ('Bool', b)), ('String', [StrV(s)], ('String', s))):
                v = Adt(en, vs.index(vname), vname, payload)
                res = ex.explore(f, [Ref(Cont([v]), 0)])
                ck.obligations += 1
                okv = len(res) == 1 and res[0].kind == 'return'
                if okv:
                    vn, pl = value_of(res[0].value)
                    if vn != want[0]:
                        okv = False
                    elif vn == 'Bool':
                        okv = pl is b or (z3.is_expr(pl) and pl.eq(b))
                    elif vn == 'String':
                        from mirsym.models_std import as_str
                        okv = as_str(pl) is s
                ck.discharged += bool(okv)
                if not okv:
                    ck.violations.append((None, '%s %s adapter gives %s' % (tag, vname, [str(r.value) for r in res])))
        ck.extra['programs'] = 2
        return
    if kind == 'containers':
        ex = ck.new_engine(prog, uni=uni, summarise=())
        marker = Adt('Value', 1, 'Bool', [True])

        def hook(e, callee, args):
            if re.match(r'^<V as (value::)?AsValue>::as_value$', callee):
                return (marker,)
            return None
        ex.call_hook = hook
        fns = {f.args[0][1]: f for f in prog.fns if f.kind == 'fn' and f.name.endswith('::as_value') and 'closure' not in f.name and f.args}
        opt = [f for t, f in fns.items() if 'Option<V>' in t]
        vec = [f for t, f in fns.items() if t.startswith('&Vec<V>')]
        hs = [f for t, f in fns.items() if 'HashSet<V>' in t]
        if not (opt and vec and hs):
            ck.inconclusive.append('container adapters not found: %r' % sorted(fns))
            return
        inner = Opaque('inner')
        r1 = ex.explore(opt[0], [Ref(Cont([Adt('Option', 0, 'None', [])]), 0)])
        r2 = ex.explore(opt[0], [Ref(Cont([Adt('Option', 1, 'Some', [inner])]), 0)])
        ck.obligations += 2
        ck.discharged += (len(r1) == 1 and r1[0].kind == 'return' and r1[0].value.vname == 'Null')
        ck.discharged += (len(r2) == 1 and r2[0].kind == 'return' and r2[0].value is marker)
        if ck.discharged != ck.obligations:
            ck.violations.append((None, 'Option adapter: None -> %s, Some(v) -> %s' % (r1[0].value if r1 else None, r2[0].value if r2 else None)))
        for nm, f in (('Vec', vec[0]), ('HashSet', hs[0])):
            c = VecV([inner])
            ref = Ref(Cont([c]), 0)
            r = ex.explore(f, [ref])
            ck.obligations += 1
            okv = len(r) == 1 and r[0].kind == 'return' and r[0].value.vname == 'Array' and deref_all(r[0].value.items[0]) is c
            ck.discharged += bool(okv)
            if not okv:
                ck.violations.append((None, '%s adapter does not expose the container as an Array' % nm))
        ck.samples.append({'adapter': 'Option/Vec/HashSet', 'form': 'pass-through'})
        ck.extra['programs'] = 3
        return
    if kind == 'kernel':
        import C09
        prog0 = ck.program()
        imp = models_tau.TreeImporter(prog0)
        ex = ck.new_engine(prog0, uni=uni)
        d = SymDoc(uni, 'doc', Bounds(str_cap=1, arr_cap=1, depth=0, kinds=[K_INT, K_UINT]))
        pa, ca = d.lookup(b'a')
        pb, cb = d.lookup(b'b')
        n = z3.BitVec('n', 64)
        # the same non-negative integer, once as Int and once as UInt
        uni.axioms += [pa, pb, ca.kind == K_INT, cb.kind == K_UINT, ca.i >= 0, ca.i == cb.u]
        for op in C09.OPS:
            out = {}
            for fld in (b'a', b'b'):
                e = imp.enum('Expression', 'BooleanExpression', [BoxV([imp.enum('Expression', 'Field', [StrV(fld)])]), imp.boolsym(op),
                                                                 BoxV([imp.enum('Expression', 'Integer', [BV(n, 'i64')])])])
                ex.frozen_below = next_oid()
                res = ex.explore('solve_expression', [Ref(Cont([e]), 0), Ref(Cont([MapV({})]), 0), Ref(Cont([d]), 0)])
                val, pc, _ = summarise_paths(res)
                out[fld] = sr_term(val)
            ck.obligation('kernel %s: Int(x) and UInt(x) compare alike' % op, uni, out[b'a'] != out[b'b'],
                          sample={'form': 'Field %s n with x as Int vs UInt' % op})
        ck.extra['programs'] = len(C09.OPS) * 2
        return


if __name__ == '__main__':
    run_check(main)
