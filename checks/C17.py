"""C17  Order of operands never decides whether and/or is true.

For each template with a commutative position (list members, sequence-of-
mappings entries, mapping entries, or / and operands of the condition; up to 4
operands, all permutations) every permuted rule text is loaded with the real
loader; original and permutation are executed as real solver MIR against one
shared symbolic document and z3 decides truth(orig) != truth(perm), where
truth = "the result is True".  Templates with a negation or a none-of above
the permuted position are excluded, as the statement does.
"""
import itertools
import z3
from common import *
from treelib import *
import templates as T

TRUE = z3.BitVecVal(0, 64)


def perms(xs, limit=24):
    ps = list(itertools.permutations(range(len(xs))))
    return ps[1:limit]


def variants_of(rule):
    """-> [(description, permuted rule)] for every commutative position"""
    out = []
    idents = rule['idents']
    for name, ident in idents.items():
        if ident[0] == 'seq' and len(ident[1]) > 1:
            for p in perms(ident[1]):
                r = dict(rule, idents=dict(idents))
                r['idents'][name] = ('seq', [ident[1][i] for i in p])
                out.append(('seq %s %s' % (name, p), r))
        maps = [ident] if ident[0] == 'map' else list(ident[1])
        for mi, m in enumerate(maps):
            if len(m[1]) > 1:
                for p in perms(m[1]):
                    nm = ('map', [m[1][i] for i in p])
                    r = dict(rule, idents=dict(idents))
                    if ident[0] == 'map':
                        r['idents'][name] = nm
                    else:
                        r['idents'][name] = ('seq', [nm if j == mi else x for j, x in enumerate(ident[1])])
                    out.append(('map %s[%d] %s' % (name, mi, p), r))
            for ki, (k, v) in enumerate(m[1]):
                if v[0] == 'list' and len(v[1]) > 1:
                    for p in perms(v[1]):
                        nv = ('list', [v[1][i] for i in p])
                        nm = ('map', [(k, nv) if j == ki else kv for j, kv in enumerate(m[1])])
                        r = dict(rule, idents=dict(idents))
                        if ident[0] == 'map':
                            r['idents'][name] = nm
                        else:
                            r['idents'][name] = ('seq', [nm if j == mi else x for j, x in enumerate(ident[1])])
                        out.append(('list %s.%s %s' % (name, k[1], p), r))
    # condition operands: flatten an and/or chain and permute
    c = rule['cond']
    if c[0] in ('and', 'or'):
        ops = flatten(c, c[0])
        if 1 < len(ops) <= 4:
            for p in perms(ops):
                out.append(('cond %s %s' % (c[0], p), dict(rule, cond=rebuild(c[0], [ops[i] for i in p]))))
    return out


def flatten(c, op):
    if c[0] == op:
        return flatten(c[1], op) + flatten(c[2], op)
    return [c]


def rebuild(op, xs):
    e = xs[0]
    for x in xs[1:]:
        e = (op, e, x)
    return e


def has_negation(rule):
    def cneg(c):
        if c[0] == 'not':
            return True
        if c[0] == 'of' and c[2] == 0:
            return True
        return any(cneg(x) for x in c[1:] if isinstance(x, tuple) and x and x[0] in ('and', 'or', 'not', 'id', 'all', 'of', 'cmp'))

    def vneg(v):
        if v[0] == 'map':
            return any(k[0] == 'not' or (isinstance(k[0], tuple) and k[0][1] == 0) or vneg(x) for k, x in v[1])
        if v[0] == 'list':
            return any(vneg(x) for x in v[1])
        return False
    if cneg(rule['cond']):
        return True
    for ident in rule['idents'].values():
        if ident[0] == 'map' and vneg(ident):
            return True
        if ident[0] == 'seq' and any(vneg(m) for m in ident[1]):
            return True
    return False


def extra_templates():
    S, M, K, L = T.S, T.M, T.K, T.L
    out = []
    mixed = [
        [S('a'), S('ib'), S('?c'), ('i', 1)], [S('a*'), S('*b'), S('*c*'), S('d')], [S('ia*'), S('b*'), S('i*c')],
        [S('?a'), S('i?b'), S('c')], [S('a'), S('b'), ('b', True)], [S('>1'), S('a'), S('ib')], [S(''), S('a'), S('*')],
        [S('ab'), S('b'), S('*b')], [S('a'), T.M((K('g'), S('b'))), S('c*')],
        [S('a*'), S('iA*')], [S('ab'), S('iAB'), S('?ab')], [S('*a'), S('i*A'), S('*a*')], [S('ia'), S('a'), S('iA')],
        # one text under several relations inside one batch (the relation belongs to the member, not to the text)
        [S('a*'), S('b*'), S('*b'), S('*c')], [S('a*'), S('*a'), S('b')], [S('ia*'), S('i*a'), S('ib')],
        [S('*'), S('>1')], [S('*'), ('i', 7), S('a')],
    ]
    for i, l in enumerate(mixed):
        out.append(('c17-list', 'mixed%d' % i, {'idents': {'A': M((K('f'), L(*l)))}, 'cond': ('id', 'A')}))
        if all(x[0] == 's' and not x[1].startswith(('>', '<', '=')) for x in l):
            out.append(('c17-list', 'all-mixed%d' % i, {'idents': {'A': M((K('f', 'all'), L(*l)))}, 'cond': ('id', 'A')}))
            out.append(('c17-list', 'of2-mixed%d' % i, {'idents': {'A': M((K('f', ('of', 2)), L(*l)))}, 'cond': ('id', 'A')}))
    out.append(('c17-map', 'str(f),g', {'idents': {'A': M((K('f', 'str'), S('4*')), (K('g'), S('0')))}, 'cond': ('id', 'A')}))
    out.append(('c17-map', 'int(f),g,h', {'idents': {'A': M((K('f', 'int'), ('i', 1)), (K('g'), S('a*')), (K('h'), S('ib')))}, 'cond': ('id', 'A')}))
    out.append(('c17-map', 'f,g,h,n', {'idents': {'A': M((K('f'), S('a')), (K('g'), ('i', 1)), (K('h'), S('*b')), (K('n'), M((K('f'), S('c')))))}, 'cond': ('id', 'A')}))
    out.append(('c17-seq', '4 entries', {'idents': {'A': ('seq', [M((K('f'), S('a'))), M((K('f'), S('ib'))), M((K('g'), S('?c'))), M((K('g'), ('i', 1)))])}, 'cond': ('id', 'A')}))
    out.append(('c17-seq', 'f or str(f)', {'idents': {'A': ('seq', [M((K('f'), S('a'))), M((K('f', 'str'), ('i', 1)))])}, 'cond': ('id', 'A')}))
    A, B, C, D = M((K('f'), S('a*'))), M((K('f'), S('*b'))), M((K('g'), ('i', 1))), M((K('h'), S('ic')))
    ids = {'A': A, 'B': B, 'C': C, 'D': D}
    out.append(('c17-cond', 'A or B or C or D', {'idents': ids, 'cond': ('or', ('or', ('or', ('id', 'A'), ('id', 'B')), ('id', 'C')), ('id', 'D'))}))
    out.append(('c17-cond', 'A and B and C and D', {'idents': ids, 'cond': ('and', ('and', ('and', ('id', 'A'), ('id', 'B')), ('id', 'C')), ('id', 'D'))}))
    out.append(('c17-cond', 'A and (B or C)', {'idents': ids, 'cond': ('and', ('id', 'A'), ('or', ('id', 'B'), ('id', 'C')))}))
    out.append(('c17-cond', 'all(X) or A', {'idents': {'X': ('seq', [A, B, C]), 'A': D}, 'cond': ('or', ('all', 'X'), ('id', 'A'))}))
    out.append(('c17-cond', 'of(X,2)', {'idents': {'X': ('seq', [A, B, C, D])}, 'cond': ('of', 'X', 2)}))
    return out


def main():
    ck = Check('C17', 'translation_validation')
    quick = ck.tier == 'quick'
    ck.bounds = {'operands per position': '<= 4 (all permutations)', 'doc strings': '<= 3 ASCII bytes', 'arrays': '<= %d elements' % (1 if quick else 2)}
    ck.assumptions = ['callee models of DESIGN 2.3', 'rules = templates x permutations (enumerated), documents symbolic',
                      'positions underneath a negation / none-of are excluded (as in the statement)']
    ck.functions |= {'solver::solve_expression', 'solver::match_all', 'solver::match_of', 'solver::search', 'solver::slow_aho',
                     'parser::parse_identifier / parse_mapping / parse (native, through the bridge)'}
    tpl = [(f, n, r) for f, n, r in T.select(ck.tier, ck.seed) if f in ('list', 'list-all', 'list-of', 'list-mixed', 'mapping', 'sequence',
                                                                          'nested', 'condition', 'matrix', 'shake', 'quant-ident')]
    tpl += extra_templates()
    tpl = [(f, n, r) for f, n, r in tpl if not has_negation(r)]
    units = []
    import random
    rnd = random.Random(ck.seed + 17)
    for f, n, r in tpl:
        vs = variants_of(r)
        if not vs:
            continue
        if quick and len(vs) > 6:
            vs = rnd.sample(vs, 6)
        units.append((n, T.render(r), [(d, T.render(v)) for d, v in vs]))
    if quick and len(units) > 70:
        keep = [u for u in units if u[0].startswith(('mixed', 'all-mixed', 'of2-mixed')) or '/' not in u[0]]
        rest = [u for u in units if u not in keep]
        units = keep + rnd.sample(rest, max(0, 70 - len(keep)))
    ck.extra['templates'] = len(units)
    # member order in lists far beyond the symbolic bound (65..130 members, three rotations): concrete, shared with C08
    units.append(('@wide', None, None))
    ck.run_units(units, run_unit)
    ck.finish('original vs permuted rule texts, loaded natively, executed as real solver MIR over one symbolic document')


def run_unit(ck, unit):
    name, yaml, vs = unit
    if name == '@wide':
        import C08
        C08.wide_unit(ck)
        return
    quick = ck.tier == 'quick'
    br = ck.bridge()
    base = br.call(cmd='load', yaml=yaml, opts=None)
    if not base.get('ok'):
        return
    tr = TreeRunner(ck, Bounds(str_cap=3, arr_cap=1 if quick else 2, depth=2))
    tr.uni.numstr_cap = 2
    o = tr.evaluate(base)
    seen = {tree_text(base)}
    for desc, y in vs:
        r = br.call(cmd='load', yaml=y, opts=None)
        label = '%s ~ %s' % (name, desc)
        ck.extra['programs'] = ck.extra.get('programs', 0) + 1
        if 'panic' in r or not r.get('ok'):
            ck.obligations += 1
            p = ck.write_replay(safe(label), {'rule': yaml, 'permuted': y, 'native': r})
            ck.violations.append((p, '%s: the permuted rule does not load (%s)' % (label, r.get('err') or r.get('panic'))))
            continue
        # engines that are not what their description says: the symbolic model of the tree is not valid there, the
        # probe documents are compared natively instead
        ck.handles_probes = True
        unconfirmed = set()
        hit = False
        for docj, what in probe_docs(base) + probe_docs(r):
            ck.obligations += 1
            n0 = br.call(cmd='eval', yaml=yaml, opts=None, doc=docj, mode='flat')
            n1 = br.call(cmd='eval', yaml=y, opts=None, doc=docj, mode='flat')
            if 'verdict' in n0 and 'verdict' in n1 and n0['verdict'] != n1['verdict']:
                if not hit:
                    path = ck.write_replay(safe(label) + '_engine', {'rule': yaml, 'permuted': y, 'doc': docj, 'what': what, 'native_original': n0, 'native_permuted': n1})
                    ck.violations.append((path, '%s: original=%s permuted=%s on %s (%s)' % (label, n0['verdict'], n1['verdict'], json.dumps(docj), what)))
                hit = True
            else:
                unconfirmed.add('%s: %s (the model of this tree is not valid)' % (label, what))
        if unconfirmed and not hit:
            ck.inconclusive.append(sorted(unconfirmed)[0])
        txt = tree_text(r)
        if txt in seen:
            ck.obligations += 1
            ck.discharged += 1      # identical tree: nothing to decide
            continue
        seen.add(txt)
        v = tr.evaluate(r)

        def on_sat(model, y=y, label=label, v=v, r=r):
            docj = tr.render_doc(model)
            n0 = br.call(cmd='eval', yaml=yaml, opts=None, doc=docj, mode='flat')
            n1 = br.call(cmd='eval', yaml=y, opts=None, doc=docj, mode='flat')
            path = ck.write_replay(safe(label), {'rule': yaml, 'permuted': y, 'doc': docj, 'native_original': n0, 'native_permuted': n1})
            if 'verdict' not in n0 or 'verdict' not in n1:
                return ('violation', path, label + ': panic') if ('panic' in n0 or 'panic' in n1) else ('spurious', 'native failure')
            ck.replays_ok += 1
            if n0['verdict'] == n1['verdict']:
                if os.environ.get('VERIF_DEBUG_SPURIOUS'):
                    dbg = {}
                    for nm_, e_ in (('orig', o), ('perm', v)):
                        tr_ = [i for i, r_ in enumerate(e_['results']) if z3.is_true(model.eval(z3bool(r_.cond()), model_completion=True))]
                        dbg[nm_] = {'res': str(model.eval(e_['res'], model_completion=True)), 'true_paths': tr_,
                                    'values': [str(e_['results'][i].value) + '/' + e_['results'][i].kind for i in tr_],
                                    'pcs': [[c.sexpr() for c in e_['results'][i].pc] for i in tr_[:2]],
                                    'tree': (base if nm_ == 'orig' else r)['display'],
                                    'all_paths': [[str(r_.value), len(r_.pc)] for r_ in e_['results']]}
                    json.dump(dbg, open(path + '.dbg', 'w'), indent=1)
                return ('spurious', 'native verdicts agree (%s)' % path)
            return ('violation', path, '%s: original=%s permuted=%s on %s' % (label, n0['verdict'], n1['verdict'], json.dumps(docj)))
        ck.obligation(label, tr.uni, (o['res'] == TRUE) != (v['res'] == TRUE), sample={'rule': name, 'permutation': desc}, on_sat=on_sat)


if __name__ == '__main__':
    run_check(main)
