"""C01  Optimisation never changes a verdict (translation validation).

For each template rule and each of the 16 switch combinations the real
`Rule::optimise` is run natively (several times, to collect the differently
ordered outputs of its HashMap-driven passes); the original and every distinct
optimised tree are then executed as real solver MIR against one shared symbolic
document, and z3 decides `matches(orig) != matches(opt)` for all documents
within the bounds.  A panic inside the native optimise call is a violation with
the rule as replay.
"""
import json
import z3
from common import *
from treelib import *
import templates

T = z3.BitVecVal(0, 64)


def main():
    ck = Check('C01', 'translation_validation')
    quick = ck.tier == 'quick'
    ck.bounds = {'doc strings': '<= %d ASCII bytes' % (3 if quick else 4), 'arrays': '<= %d elements' % (1 if quick else 2),
                 'nesting depth': 2, 'optimise repeats per switch combination': 6 if quick else 12,
                 'switch combinations': 16}
    ck.assumptions = [
        'regex engine: uninterpreted predicate per (pattern, flag), functional in the haystack; the rewritten patterns of the '
        'rewrite pass are compared with z3 regular-expression theory in a separate obligation (regex-rewrite)',
        'aho-corasick: contract model (all occurrences, candidate order by end offset)',
        'documents: user-implemented Document, find(key) per distinct key; values of every kind',
        'number to_string: injective uninterpreted rendering', 'tracing disabled',
    ]
    ck.functions |= {'solver::solve_expression', 'solver::match_all', 'solver::match_of', 'solver::search', 'solver::slow_aho',
                     'solver::Cache::find', 'solver::Passthrough::find', 'document::<&dyn Object as Document>::find',
                     'value::Object::find', 'value::Value::{as_str,as_object,to_string,as_bool,is_null}'}
    tpl = templates.select(ck.tier, ck.seed)
    if quick:
        # the every-change tier: every family, thinned deterministically by seed
        import random
        rnd = random.Random(ck.seed)
        keep = []
        quota = {'single': 6, 'regex': 3, 'number': 3, 'scalar': 3, 'list': 8, 'list-all': 5, 'list-of': 8, 'list-mixed': 4,
                 'quant-short': 6, 'quant-ident': 8, 'cast-cond': 5}
        tpl = templates.thin(tpl, quota, rnd)
    ck.extra['templates'] = len(tpl)
    ck.run_units([(name, templates.render(rule)) for _, name, rule in tpl] + [('@wide-matrix', None)], run_unit)
    ck.finish('original vs optimised trees on real solver MIR, one symbolic document; z3 decides verdict inequality')


def wide_matrix_unit(ck):
    """*concrete* (labelled): an or-group over 300 distinct fields (far beyond the symbolic bound; the matrix pass keys its
    columns by one character each): the unoptimised rule against every switch combination that includes matrix, on
    documents that satisfy one entry / half an entry / an entry's fields crossed with another's"""
    br = ck.bridge()
    N = 300
    entries = ''.join("    - f%03d: hit\n      g%d: hit\n" % (i, i % 2) for i in range(N))
    yaml = 'detection:\n  A:\n%s  condition: A\ntrue_positives: []\ntrue_negatives: []\n' % entries

    def doc(pairs):
        return {'$obj': [[list(k.encode()), {'$str': list(v.encode())}] for k, v in pairs]}
    docs = []
    for i in (0, 1, 10, 44, 45, 254, 255, 256, 257, 298, 299):
        docs.append(doc([('f%03d' % i, 'hit'), ('g%d' % (i % 2), 'hit')]))
        docs.append(doc([('f%03d' % i, 'hit'), ('g%d' % ((i + 1) % 2), 'hit')]))
        docs.append(doc([('f%03d' % i, 'hit'), ('g%d' % (i % 2), 'nope')]))
        docs.append(doc([('f%03d' % i, 'hit')]))
        docs.append(doc([('f%03d' % i, 'nope'), ('g0', 'hit'), ('g1', 'hit')]))
        docs.append(doc([('f%03d' % ((i + 256) % N), 'hit'), ('g%d' % (i % 2), 'hit'), ('f%03d' % i, 'nope')]))
    for opts in ([False, False, False, True], [True, False, False, True], [True, True, False, True], [True, True, True, True]):
        for dj in docs:
            n0 = br.call(cmd='eval', yaml=yaml, opts=None, doc=dj, mode='flat')
            n1 = br.call(cmd='eval', yaml=yaml, opts=opts, doc=dj, mode='flat')
            ck.obligations += 1
            if 'panic' in n1 or n0.get('verdict') != n1.get('verdict'):
                label = 'wide-matrix opts=%s' % ''.join('csrm'[i] if opts[i] else '-' for i in range(4))
                path = ck.write_replay(safe(label), {'rule': yaml, 'opts': opts, 'doc': dj, 'native_original': n0, 'native_optimised': n1,
                                                     'request': {'cmd': 'eval', 'yaml': yaml, 'opts': opts, 'doc': dj, 'mode': 'flat'}})
                ck.violations.append((path, '%s: original=%s optimised=%s on %s' % (label, n0.get('verdict', n0), n1.get('verdict', n1), json.dumps(dj))))
                ck.replays_ok += 1
                return
            ck.discharged += 1
    ck.extra['wide_matrix_documents'] = len(docs)


def run_unit(ck, unit):
    if unit[0] == '@wide-matrix':
        wide_matrix_unit(ck)
        return
    name, yaml = unit
    quick = ck.tier == 'quick'
    ck.handles_probes = True
    br = ck.bridge()
    base = br.call(cmd='load', yaml=yaml, opts=None)
    if 'panic' in base:
        return      # C04's business
    if not base.get('ok'):
        ck.extra['rejected'] = ck.extra.get('rejected', 0) + 1
        return
    repeats = 6 if quick else 12
    variants = {}      # tree json text -> (opts, rj)
    for opts in artifacts.OPT_COMBOS:
        if not any(opts):
            continue
        for _ in range(repeats):
            r = br.call(cmd='load', yaml=yaml, opts=opts)
            if 'panic' in r:
                ck.obligations += 1
                p = ck.write_replay(safe(name) + '_optimise_panic', {'rule': yaml, 'opts': opts, 'native': r})
                key = 'optimise-panic:regex-rewrite-unbuildable' if 'regex' in r['panic'] else 'optimise-panic'
                kf = ck.known_match(key)
                if kf:
                    ck.known_hits.append('%s :: %s' % (key, kf['desc']))
                else:
                    ck.violations.append((p, 'optimise(%s) panicked on %s: %s' % (opts, name, r['panic'])))
                break
            txt = json.dumps([r['expr'], r['idents'], r.get('engine_probe_mismatches')], sort_keys=True)
            if txt not in variants:
                variants[txt] = (opts, r)
    base_txt = json.dumps([base['expr'], base['idents'], base.get('engine_probe_mismatches')], sort_keys=True)
    variants.pop(base_txt, None)
    if not variants:
        return
    # the *loaded* tree may itself hold an engine that is not what its description says (then the model of the original
    # is not valid): original and every optimised variant are compared natively on those probe documents; without a
    # confirmed difference the template cannot count as decided
    base_probes = probe_docs(base)
    if base_probes:
        hit = False
        for docj, what in base_probes:
            n0 = br.call(cmd='eval', yaml=yaml, opts=None, doc=docj, mode='flat')
            for txt, (opts, rj) in variants.items():
                ck.obligations += 1
                n1 = br.call(cmd='eval', yaml=yaml, opts=opts, doc=docj, mode='flat')
                if n0.get('verdict') != n1.get('verdict'):
                    if not hit:
                        label = '%s opts=%s' % (name, ''.join('csrm'[i] if opts[i] else '-' for i in range(4)))
                        path = ck.write_replay(safe(label) + '_engine', {'rule': yaml, 'opts': opts, 'doc': docj, 'what': what, 'native_original': n0,
                                                                         'native_optimised': n1, 'optimised_tree': rj['display']})
                        ck.violations.append((path, '%s: %s; original=%s optimised=%s on %s' % (label, what, n0.get('verdict'), n1.get('verdict'), json.dumps(docj))))
                    hit = True
        if not hit:
            ck.inconclusive.append('%s: the loaded tree holds an engine that is not what its description says (%s); the model of the original is not valid' % (
                name, base_probes[0][1]))
        return
    # beyond the ASCII bound of the symbolic documents (concrete, labelled): regexes whose letters have non-ASCII case-fold
    # partners are compared natively, original against every optimised variant, on documents that hold those partners
    for docj, what in fold_probe_docs(base):
        n0 = br.call(cmd='eval', yaml=yaml, opts=None, doc=docj, mode='flat')
        for txt, (opts, rj) in variants.items():
            ck.obligations += 1
            n1 = br.call(cmd='eval', yaml=yaml, opts=opts, doc=docj, mode='flat')
            if n0.get('verdict') != n1.get('verdict'):
                label = '%s opts=%s' % (name, ''.join('csrm'[i] if opts[i] else '-' for i in range(4)))
                path = ck.write_replay(safe(label) + '_fold', {'rule': yaml, 'opts': opts, 'doc': docj, 'what': what, 'native_original': n0,
                                                               'native_optimised': n1, 'optimised_tree': rj['display']})
                ck.violations.append((path, '%s: %s; original=%s optimised=%s on %s' % (label, what, n0.get('verdict'), n1.get('verdict'), json.dumps(docj))))
                break
            ck.discharged += 1
            ck.extra['fold_probes'] = ck.extra.get('fold_probes', 0) + 1
    # arrays of two elements where elements of an array of objects matter (nested blocks), also in the quick tier
    wide = name.split('/')[0] in ('nested', 'shake', 'matrix')
    bounds = Bounds(str_cap=3 if quick else 4, arr_cap=2 if (wide or not quick) else 1, depth=3 if 'n.m.f' in name else 2)
    tr = TreeRunner(ck, bounds)
    tr.uni.numstr_cap = 2
    o = tr.evaluate(base)
    ck.extra['programs'] = ck.extra.get('programs', 0) + 1 + len(variants)
    for txt, (opts, rj) in variants.items():
        label = '%s opts=%s' % (name, ''.join('csrm'[i] if opts[i] else '-' for i in range(4)))
        # the compiled engines inside the optimised tree must be the ones their description says (the model is built from the description)
        unconfirmed, confirmed = set(), 0
        base_whats = {w for _, w in probe_docs(base)}
        for docj, what in probe_docs(rj):
            if what in base_whats:
                continue        # the loader's engine already deviates: C02 / C07's business, not the optimiser's
            ck.obligations += 1
            # (through the real loader and optimiser: an exported tree rebuilt from its description would hide the deviation)
            n0 = br.call(cmd='eval', yaml=yaml, opts=None, doc=docj, mode='flat')
            n1 = br.call(cmd='eval', yaml=yaml, opts=opts, doc=docj, mode='flat')
            path = ck.write_replay(safe(label) + '_engine', {'rule': yaml, 'opts': opts, 'doc': docj, 'what': what, 'native_original': n0,
                                                             'native_optimised': n1, 'optimised_tree': rj['display']})
            if n0.get('verdict') != n1.get('verdict'):
                confirmed += 1
                if confirmed == 1:
                    ck.violations.append((path, '%s: %s; original=%s optimised=%s on %s' % (label, what, n0.get('verdict'), n1.get('verdict'), json.dumps(docj))))
            else:
                unconfirmed.add('%s: %s (the model of this tree is not valid)' % (label, what))
        if unconfirmed and not confirmed:
            ck.inconclusive.append(sorted(unconfirmed)[0])
        v = tr.evaluate(rj)
        if v['res'] is None or o['res'] is None:
            ck.obligation(label + ':evaluates', tr.uni, True,
                          on_sat=lambda m: ('violation', ck.write_replay(safe(label), {'rule': yaml, 'opts': opts}), label + ': always panics'))
            continue

        excused = []

        def on_sat(model, opts=opts, rj=rj, label=label, excused=excused):
            docj = tr.render_doc(model)
            n0 = br.call(cmd='eval_tree', expr=base['expr'], idents=base['idents'], doc=docj, mode='flat')
            n1 = br.call(cmd='eval_tree', expr=rj['expr'], idents=rj['idents'], doc=docj, mode='flat')
            path = ck.write_replay(safe(label), {'rule': yaml, 'opts': opts, 'doc': docj, 'optimised_tree': rj['display'],
                                                 'original_tree': base['display'], 'native_original': n0, 'native_optimised': n1,
                                                 'replay': 'bridge eval_tree on both trees with this document'})
            if 'panic' in n1 and 'panic' not in n0:
                return ('violation', path, '%s: optimised tree panics natively' % label)
            if 'verdict' not in n0 or 'verdict' not in n1:
                return ('spurious', 'native evaluation failed: %r %r' % (n0, n1))
            ck.replays_ok += 1
            if n0['verdict'] == n1['verdict']:
                return ('spurious', 'native verdicts agree on the model (%s)' % path)
            key = classify(base, rj, opts)
            kf = ck.known_match(key)
            if kf:
                excused.append((key, docj))
                return ('known', '%s :: %s' % (key, kf['desc']))
            return ('violation', path, '%s: original=%s optimised=%s on %s [%s]' % (
                label, n0['verdict'], n1['verdict'], json.dumps(docj), key))
        ck.obligation(label + ':same-verdict', tr.uni, (o['res'] == T) != (v['res'] == T),
                      sample={'rule': name, 'opts': opts, 'optimised': rj['display'][:160]}, on_sat=on_sat)
        if excused:
            beyond_known(ck, tr, br, base, rj, opts, o, v, label, yaml, *excused[0])
        # the optimised form must not panic where the original does not
        ck.obligation(label + ':no-new-panic', tr.uni, z3.And(z3bool(v['panic']), z3.Not(z3bool(o['panic']))),
                      on_sat=lambda m, label=label, opts=opts, rj=rj: ('violation', ck.write_replay(
                          safe(label) + '_panic', {'rule': yaml, 'opts': opts, 'doc': tr.render_doc(m), 'tree': rj['display']}),
                          label + ': optimised tree can panic'))


def beyond_known(ck, tr, br, base, rj, opts, o, v, label, yaml, key, docj):
    """A recorded finding must not hide anything else in the same obligation.  The recorded C01 findings are
    re-orderings (and a dropped double negation, and merged entries of a counted identifier): with the counted
    identifiers of the optimised rule substituted into the original and both trees brought into one order normal form,
    they disappear.  So (1) the excused witness must be a document on which the normal forms agree, and (2) z3 decides
    `orig != opt  and  norm(orig') != norm(opt)`: any model, replayed natively on the real trees, is a disagreement the
    recorded findings do not explain -> VIOLATION.  (3) a substituted identifier must still be the same predicate."""
    override = None
    if not opts[0]:
        o_ids = {bytes(k): val for k, val in rj['idents']}
        override = {n: o_ids[n] for n in counted_identifiers(base) if n in o_ids}
    nb, no = normalise_tree(base, override), normalise_tree(rj)
    ck.obligations += 1
    x0 = br.call(cmd='eval_tree', expr=nb['expr'], idents=nb['idents'], doc=docj, mode='flat')
    x1 = br.call(cmd='eval_tree', expr=no['expr'], idents=no['idents'], doc=docj, mode='flat')
    if 'verdict' not in x0 or 'verdict' not in x1:
        ck.inconclusive.append('%s: normal form does not evaluate natively: %r %r' % (label, x0, x1))
        return
    if x0['verdict'] != x1['verdict']:
        path = ck.write_replay(safe(label) + '_unexplained', {'rule': yaml, 'opts': opts, 'doc': docj, 'classified_as': key,
                                                              'normal_form_original': nb['expr'], 'normal_form_optimised': no['expr'],
                                                              'native_normal_forms': [x0, x1]})
        ck.violations.append((path, '%s: original and optimised disagree on %s and the recorded finding %s does not explain it '
                                    '(the order normal forms disagree as well)' % (label, json.dumps(docj), key)))
        return
    ck.discharged += 1
    en, eo = tr.evaluate(nb), tr.evaluate(no)
    ck.extra['programs'] = ck.extra.get('programs', 0) + 2
    if en['res'] is None or eo['res'] is None:
        ck.inconclusive.append('%s: normal form always panics' % label)
        return

    def on_sat(model):
        d2 = tr.render_doc(model)
        n0 = br.call(cmd='eval_tree', expr=base['expr'], idents=base['idents'], doc=d2, mode='flat')
        n1 = br.call(cmd='eval_tree', expr=rj['expr'], idents=rj['idents'], doc=d2, mode='flat')
        path = ck.write_replay(safe(label) + '_beyond_known', {'rule': yaml, 'opts': opts, 'doc': d2, 'optimised_tree': rj['display'],
                                                               'original_tree': base['display'], 'native_original': n0, 'native_optimised': n1,
                                                               'excused_elsewhere_as': key})
        if 'verdict' not in n0 or 'verdict' not in n1:
            return ('spurious', 'native evaluation failed: %r %r' % (n0, n1))
        ck.replays_ok += 1
        if n0['verdict'] == n1['verdict']:
            return ('spurious', 'native verdicts agree on the model (%s)' % path)
        return ('violation', path, '%s: original=%s optimised=%s on %s, which the recorded finding %s does not explain' % (
            label, n0['verdict'], n1['verdict'], json.dumps(d2), key))
    ck.obligation(label + ':beyond-known-findings', tr.uni,
                  z3.And((o['res'] == T) != (v['res'] == T), (en['res'] == T) != (eo['res'] == T)), on_sat=on_sat)
    for name in sorted(override or {}):
        ident = {'t': 'Identifier', 'f': list(name)}
        xb, xo = {'expr': ident, 'idents': base['idents']}, {'expr': ident, 'idents': rj['idents']}
        eb, eo2 = tr.evaluate(xb), tr.evaluate(xo)
        nb2, no2 = tr.evaluate(normalise_tree(xb)), tr.evaluate(normalise_tree(xo))
        if None in (eb['res'], eo2['res'], nb2['res'], no2['res']):
            continue

        def on_sat3(model, name=name, xb=xb, xo=xo):
            d3 = tr.render_doc(model)
            n0 = br.call(cmd='eval_tree', expr=xb['expr'], idents=xb['idents'], doc=d3, mode='flat')
            n1 = br.call(cmd='eval_tree', expr=xo['expr'], idents=xo['idents'], doc=d3, mode='flat')
            path = ck.write_replay(safe(label) + '_ident', {'rule': yaml, 'opts': opts, 'doc': d3, 'identifier': name.decode('latin1'),
                                                            'native_original': n0, 'native_optimised': n1})
            if 'verdict' not in n0 or 'verdict' not in n1 or n0['verdict'] == n1['verdict']:
                return ('spurious', 'native verdicts agree on the model (%s)' % path)
            ck.replays_ok += 1
            return ('violation', path, '%s: the optimised counted identifier %s is not the predicate it was: %s vs %s on %s' % (
                label, name.decode('latin1'), n0['verdict'], n1['verdict'], json.dumps(d3)))
        ck.obligation(label + ':counted-identifier-same-predicate', tr.uni,
                      z3.And((eb['res'] == T) != (eo2['res'] == T), (nb2['res'] == T) != (no2['res'] == T)), on_sat=on_sat3)


def children(j):
    t = j.get('t')
    if t == 'BooleanGroup':
        return j['g']
    if t == 'BooleanExpression':
        return [j['l'], j['r']]
    if t in ('Match', 'Negate', 'Nested'):
        return [j['e']]
    if t == 'Matrix':
        return [c for row in j['r'] for c in row if c is not None]
    return []


def any_node(j, pred):
    if pred(j):
        return True
    return any(any_node(c, pred) for c in children(j))


def under_negation(rj, pred):
    """is a node satisfying pred evaluated underneath a negation / none-of?
    identifiers referenced below a negation count as below it."""
    idents = {bytes(k): v for k, v in rj['idents']}
    seen = set()

    def walk(j, neg):
        if pred(j) and neg:
            return True
        t = j.get('t')
        if t == 'Identifier':
            name = bytes(j['f'])
            if (name, neg) in seen or name not in idents:
                return False
            seen.add((name, neg))
            return walk(idents[name], neg)
        n2 = neg or t == 'Negate' or (t == 'Match' and j['m'] == 0)
        return any(walk(c, n2) for c in children(j))
    return walk(rj['expr'], False)


def classify(base, rj, opts):
    """role of a disagreement, for known-findings keys"""
    is_neg2 = lambda j: j.get('t') == 'Negate' and j['e'].get('t') == 'Negate'
    if opts[1] and (any_node(base['expr'], is_neg2) or any(any_node(v, is_neg2) for _, v in base['idents'])):
        return 'shake:double-negation-removed'
    is_matrix = lambda j: j.get('t') == 'Matrix'
    has_matrix = any_node(rj['expr'], is_matrix) or any(any_node(v, is_matrix) for _, v in rj['idents'])
    if has_matrix and under_negation(rj, is_matrix):
        return 'matrix:evaluation-order-under-negation'
    # shake re-emits the nested blocks of an and-group after its other members; under a negation the
    # changed evaluation order is observable (first non-true operand: false vs missing)
    if opts[1]:
        def and_with_nested(j):
            return j.get('t') == 'BooleanGroup' and j.get('op') == 'And' and any(x.get('t') == 'Nested' for x in j['g']) \
                and any(x.get('t') != 'Nested' for x in j['g'])
        if under_negation(base, and_with_nested) or under_negation(rj, and_with_nested):
            return 'shake:and-group-reordered-under-negation'
    # shake sorts the members of an or-group (searches first, groups after); all()/of() over such a group yield their
    # first non-true operand, so underneath a negation the changed order is observable (false vs missing)
    if opts[1]:
        b_ids = {bytes(k): v for k, v in base['idents']}
        o_ids = {bytes(k): v for k, v in rj['idents']}
        b_counted, o_counted = [], []

        def grab(tree, ids, out):
            def f(j):
                if j.get('t') == 'Match':
                    e = j['e']
                    if e.get('t') == 'Identifier':
                        e = ids.get(bytes(e['f']))
                    if e and e.get('t') == 'BooleanGroup':
                        out.append(e['g'])
                return False
            any_node(tree, f)
        grab(base['expr'], b_ids, b_counted)
        grab(rj['expr'], o_ids, o_counted)
        if under_negation(base, lambda j: j.get('t') == 'Match') and len(b_counted) == len(o_counted):
            for bg, og in zip(b_counted, o_counted):
                bs, os_ = [json.dumps(x, sort_keys=True) for x in bg], [json.dumps(x, sort_keys=True) for x in og]
                if bs != os_ and sorted(bs) == sorted(os_):
                    return 'shake:counted-group-reordered-under-negation'
    # a counted identifier whose entries were merged by shake
    if opts[1] and not opts[0]:
        b_ids = {bytes(k): v for k, v in base['idents']}
        o_ids = {bytes(k): v for k, v in rj['idents']}
        counted = []
        any_node(base['expr'], lambda j: j.get('t') == 'Match' and j['e'].get('t') == 'Identifier' and counted.append(bytes(j['e']['f'])))
        for name in counted:
            b, o = b_ids.get(name), o_ids.get(name)
            if b and o and b.get('t') == 'BooleanGroup' and (o.get('t') != 'BooleanGroup' or len(o['g']) != len(b['g'])):
                return 'shake:entries-of-counted-identifier-merged'
    # a counted identifier whose entries were turned into a table by the matrix pass
    if opts[3] and not opts[0]:
        o_ids = {bytes(k): v for k, v in rj['idents']}
        counted = []
        any_node(base['expr'], lambda j: j.get('t') == 'Match' and j['e'].get('t') == 'Identifier' and counted.append(bytes(j['e']['f'])))
        for name in counted:
            o = o_ids.get(name)
            if o and any_node(o, is_matrix):
                return 'matrix:entries-of-counted-identifier-tabled'
    if has_matrix:
        return 'matrix'
    return 'shake' if opts[1] else ('rewrite' if opts[2] else 'coalesce')


def safe(s):
    return ''.join(c if c.isalnum() or c in '-_.' else '_' for c in s)[:100]


if __name__ == '__main__':
    run_check(main)
