"""C09  Numeric comparisons and casts are order-correct and overflow-safe.

The comparison arm of solve_expression (real MIR) is executed on
  Field | int(f) | flt(f)   op   Integer(n) | Float(y)      (both operand orders)
  int(f) op int(g), flt(f) op flt(g), f == bool, f == null, str(f) == str(g)
with the field cells fully symbolic (absent / every kind / all 64-bit and double
values / bounded strings) AND the constants n, y symbolic, so one query covers
every operator x constant x field-value triple.  z3 compares the result with the
mathematical relation (65-bit sign/zero extension, IEEE order).
"""
import z3
from common import *
from mirsym.doc import *

T, F, M = (z3.BitVecVal(i, 64) for i in range(3))
OPS = ['Equal', 'GreaterThan', 'GreaterThanOrEqual', 'LessThan', 'LessThanOrEqual']
I64_MIN_F = z3.FPVal(-9223372036854775808.0, z3.Float64())
I64_LIM_F = z3.FPVal(9223372036854775808.0, z3.Float64())


def rel_bv65(op, a, b):
    return {'Equal': a == b, 'GreaterThan': a > b, 'GreaterThanOrEqual': a >= b,
            'LessThan': a < b, 'LessThanOrEqual': a <= b}[op]


def rel_fp(op, a, b):
    return {'Equal': z3.fpEQ(a, b), 'GreaterThan': z3.fpGT(a, b), 'GreaterThanOrEqual': z3.fpGEQ(a, b),
            'LessThan': z3.fpLT(a, b), 'LessThanOrEqual': z3.fpLEQ(a, b)}[op]


def round_cast(f):
    """`f.round() as i64` by the Rust reference: roundTiesToAway, then the
    saturating cast; proven equal to fpToSBV(RNA, f) for finite in-range f by a
    separate obligation (cast-primitive)"""
    return engine.float_to_int(FP(z3.fpRoundToIntegral(z3.RNA(), f)), 'i64').v


def sext(x):
    return z3.SignExt(1, x)


def zext(x):
    return z3.ZeroExt(1, x)


def main():
    ck = Check('C09', 'model_checking')
    str_cap = 3 if ck.tier == 'quick' else 5
    ck.bounds = {'integers': 'all i64 / u64 (64-bit bit-vectors)', 'floats': 'all IEEE doubles incl. NaN, +-0, +-inf',
                 'constants': 'symbolic i64 / f64; as text: every decimal integer of 1..18 digits, both signs, all five prefixes', 'string fields': '<= %d ASCII bytes' % str_cap,
                 'arrays/objects': 'kind only (contents irrelevant to this arm)'}
    ck.assumptions = [
        'str::parse::<i64> modelled exactly (sign, digits) on bounded strings; str::parse::<f64> is an uninterpreted total function of the string',
        'f64::round = roundTiesToAway; `as` casts = saturating with NaN -> 0 (Rust reference semantics)',
        'to_string of numbers: injective uninterpreted rendering (nothing claimed about digits); bool: "true"/"false"',
        'int(float) outside the i64 range is only required to be sound (True => the relation holds for the float itself, which lies beyond every i64); int(NaN) is never true; anything compared across numeric kinds is only required to be sound',
        'two-field comparisons: missing is required when the left field is absent, or the left converts and the right is absent',
        'tracing disabled',
    ]
    ck.functions |= {'identifier::into_identifier (numeric prefixes)', 'solver::solve_expression (BooleanExpression arm)', 'value::Value::to_string', 'value::Value::as_bool', 'value::Value::is_null'}
    units = [('prim',)]
    for ck_kind in ('Integer', 'Float'):
        units.append(('tri', ck_kind))
    for op in OPS:
        for order in ('lr', 'rl'):
            units.append(('cast-int-const', op, order))
            units.append(('cast-flt-const', op, order))
        units.append(('cast-int-int', op))
        units.append(('cast-flt-flt', op))
    units += [('bool',), ('null',), ('str',)]
    # the same predicates as the loader builds them from rule text (pattern prefixes, lists of comparisons, cast keys)
    import templates
    for fam, name, rule in templates.select(ck.tier, ck.seed):
        if fam in ('number', 'scalar') or (fam == 'list-mixed' and any(c in name for c in '<>=')) or \
                (fam == 'modifier' and any(t in name for t in ('int(', 'flt('))) or (fam == 'cast-cond' and 'str' not in name and 'not' not in name and 'Z and' not in name):
            units.append(('loader', name, rule))
    # the constant itself: pattern text -> into_identifier (real MIR) -> the integer it denotes
    for pre in ('=', '>', '>=', '<', '<='):
        for sign in ('', '-'):
            units.append(('constant-text', pre, sign))
    # the constant of a cast comparison in the condition: literal text -> tokenise (real MIR) -> the integer it denotes
    for sign in ('', '-'):
        units.append(('condition-constant', sign))
    ck.run_units(units, run_unit)
    ck.finish('comparison arm of solve_expression on symbolic cells and symbolic constants; z3 decides against '
              '65-bit / IEEE relations')


class Ctx:
    pass


def setup(ck):
    c = Ctx()
    prog = ck.program()
    c.imp = imp = models_tau.TreeImporter(prog)
    str_cap = 3 if ck.tier == 'quick' else 5
    c.uni = uni = engine.Universe()
    c.d = d = SymDoc(uni, 'doc', Bounds(str_cap=str_cap, arr_cap=1, depth=1))
    c.n = z3.BitVec('n', 64)
    c.y = z3.FP('y', z3.Float64())
    c.bconst = z3.Bool('bconst')
    c.pf, c.cf = d.lookup(b'f')
    c.pg, c.cg = d.lookup(b'g')
    c.ex = ck.new_engine(prog, uni=uni)
    return c


def E(c, v, items):
    return c.imp.enum('Expression', v, items)


def operand(c, kind, field=b'f'):
    imp = c.imp
    if kind == 'Field':
        return E(c, 'Field', [StrV(field)])
    if kind == 'CastInt':
        return E(c, 'Cast', [StrV(field), imp.modsym('Int')])
    if kind == 'CastFlt':
        return E(c, 'Cast', [StrV(field), imp.modsym('Flt')])
    if kind == 'CastStr':
        return E(c, 'Cast', [StrV(field), imp.modsym('Str')])
    if kind == 'Integer':
        return E(c, 'Integer', [BV(c.n, 'i64')])
    if kind == 'Float':
        return E(c, 'Float', [FP(c.y)])
    if kind == 'Boolean':
        return E(c, 'Boolean', [c.bconst])
    if kind == 'Null':
        return E(c, 'Null', [])
    raise ValueError(kind)


def run(ck, c, l, op, r):
    e = E(c, 'BooleanExpression', [BoxV([l]), c.imp.boolsym(op), BoxV([r])])
    ex = c.ex
    ex.frozen_below = next_oid()
    res = ex.explore('solve_expression', [Ref(Cont([e]), 0), Ref(Cont([MapV({})]), 0), Ref(Cont([c.d]), 0)])
    for p in res:
        ck.blocks |= p.blocks
    val, pc, panics = summarise_paths(res)
    if not coverage_complete(ck, c.uni, res):
        ck.inconclusive.append('paths do not cover the input space')
    ck.extra['programs'] = ck.extra.get('programs', 0) + 1
    return (sr_term(val) if val is not None else None), pc, panics


def int_of_cast(c, cell):
    """int(field): (convertible-and-specified, value BV64, unspecified)"""
    k = cell.kind
    pi = models_std.parse_int_terms(c.uni, cell.s, 'i64')
    fin = z3.And(z3.fpGEQ(cell.f, I64_MIN_F), z3.fpLT(cell.f, I64_LIM_F))
    spec = z3.Or(k == K_BOOL, k == K_INT, z3.And(k == K_UINT, z3.ULE(cell.u, 2 ** 63 - 1)),
                 z3.And(k == K_FLOAT, fin), z3.And(k == K_STRING, pi[0]))
    unspecified = z3.And(k == K_FLOAT, z3.Not(fin))
    val = z3.If(k == K_BOOL, z3.If(cell.b, z3.BitVecVal(1, 64), z3.BitVecVal(0, 64)),
                z3.If(k == K_INT, cell.i,
                      z3.If(k == K_UINT, cell.u,
                            z3.If(k == K_FLOAT, round_cast(cell.f), pi[1]))))
    return spec, val, unspecified


def int65_of_cast(cell, val):
    """the mathematical position of int(field) on a 65-bit line: a float at or above 2^63 (or +inf) lies above every i64,
    one below -2^63 (or -inf) below every i64; a NaN lies nowhere (second result)"""
    k = cell.kind
    hi = z3.And(k == K_FLOAT, z3.fpGEQ(cell.f, I64_LIM_F))
    lo = z3.And(k == K_FLOAT, z3.fpLT(cell.f, I64_MIN_F))
    v65 = z3.If(hi, z3.BitVecVal(2 ** 63, 65), z3.If(lo, z3.BitVecVal(-(2 ** 63) - 1, 65), sext(val)))
    return v65, z3.And(k == K_FLOAT, z3.fpIsNaN(cell.f))


def flt_of_cast(c, cell):
    uni = c.uni
    k = cell.kind
    pk = ('parse_f64', S.skey(cell.s))
    if pk not in uni.memo:
        uni.memo[pk] = (z3bool(__import__('mirsym.rx', fromlist=['x']).is_match(models_std.F64_GRAMMAR, True, cell.s)), uni.fresh('parse_f64_val', z3.Float64()), cell.s)
    pokay, pval, _ = uni.memo[pk]
    spec = z3.Or(k == K_BOOL, k == K_INT, k == K_UINT, k == K_FLOAT, z3.And(k == K_STRING, pokay))
    val = z3.If(k == K_BOOL, z3.If(cell.b, z3.FPVal(1.0, z3.Float64()), z3.FPVal(0.0, z3.Float64())),
                z3.If(k == K_INT, z3.fpSignedToFP(z3.RNE(), cell.i, z3.Float64()),
                      z3.If(k == K_UINT, z3.fpUnsignedToFP(z3.RNE(), cell.u, z3.Float64()),
                            z3.If(k == K_FLOAT, cell.f, pval))))
    return spec, val


def check_form(ck, c, name, res, pc, panics, present, exact_when, exact_rel, never_true_when=None,
               key_role=None, witness=None, absent_missing=None, cvc5=False):
    """obligations for one form: res is the BV64 SolverResult term"""
    uni = c.uni
    sample = {'form': name}

    def on_sat(what):
        return lambda m: confirm(ck, name, what, m, c.d, witness, key_role)
    ck.obligation(name + ':no-panic', uni, pc, sample=sample, on_sat=on_sat('panic'))
    if res is None:
        return
    absent = z3.Not(present) if absent_missing is None else absent_missing
    ck.obligation(name + ':absent=>missing', uni, z3.And(absent, res != M), on_sat=on_sat('absent field not missing'))
    ck.obligation(name + ':present=>true|false', uni, z3.And(present, res == M), on_sat=on_sat('present field gives missing'))
    ck.obligation(name + ':exact', uni, z3.And(present, exact_when, (res == T) != exact_rel),
                  on_sat=on_sat('relation wrong'), cvc5=cvc5)
    if never_true_when is not None:
        ck.obligation(name + ':not-convertible=>not-true', uni, z3.And(present, never_true_when, res == T),
                      on_sat=on_sat('true on a non-convertible value'))
    # vacuity: the exact region is inhabited and both outcomes are reachable there
    r1, _ = ck.solve(uni, present, exact_when, res == T)
    r2, _ = ck.solve(uni, present, exact_when, res == F)
    if r1 != 'sat' or r2 != 'sat':
        ck.inconclusive.append('%s: vacuity witness failed' % name)


def field_form(ck, c, op, order, ck_kind):
    cf, pf, n, y = c.cf, c.pf, c.n, c.y
    l, r = operand(c, 'Field'), operand(c, ck_kind)
    if order == 'rl':
        l, r = r, l
    res, pc, panics = run(ck, c, l, op, r)
    name = 'Field %s %s (%s)' % (op, ck_kind, order)
    k = cf.kind
    never = z3.Not(z3.Or(k == K_INT, k == K_UINT, k == K_FLOAT))
    if ck_kind == 'Integer':
        a = z3.If(k == K_INT, sext(cf.i), zext(cf.u))
        b = sext(n)
        rel = rel_bv65(op, a, b) if order == 'lr' else rel_bv65(op, b, a)
        exact_when = z3.Or(k == K_INT, k == K_UINT)
    else:
        rel = rel_fp(op, cf.f, y) if order == 'lr' else rel_fp(op, y, cf.f)
        exact_when = (k == K_FLOAT)
    check_form(ck, c, name, res, pc, panics, pf, exact_when, rel, never_true_when=never,
               key_role='uint-field-above-i64-max-vs-int-constant' if ck_kind == 'Integer' else None,
               witness=('Field', op, ck_kind, order), cvc5=(ck_kind == 'Integer' and order == 'lr'))
    if ck_kind == 'Integer':
        # cross-kind soundness: Float field vs Integer constant: True => relation over the reals
        # (the conversion of n is exact for |n| < 2^53)
        nf = z3.fpSignedToFP(z3.RNE(), n, z3.Float64())
        realrel = rel_fp(op, cf.f, nf) if order == 'lr' else rel_fp(op, nf, cf.f)
        small = z3.And(n < 2 ** 53, n > -(2 ** 53))
        ck.obligation(name + ':cross-kind-sound', c.uni, z3.And(pf, k == K_FLOAT, small, res == T, z3.Not(realrel)))
    return res


def loader_unit(ck, name, rule):
    """rule text -> real loader -> real solver MIR, against the reference interpreter's numeric semantics"""
    import templates
    import oracle as O
    from treelib import TreeRunner, safe
    yaml = templates.render(rule)
    br = ck.bridge()
    r = br.call(cmd='load', yaml=yaml, opts=None)
    if not r.get('ok'):
        return
    tr = TreeRunner(ck, Bounds(str_cap=3 if ck.tier == 'quick' else 4, arr_cap=1, depth=1))
    tr.uni.numstr_cap = 2
    try:
        want = O.Oracle(tr.uni, tr.doc).rule(rule)
    except O.NotLoadable:
        return
    v = tr.evaluate(r)
    if v['res'] is None:
        return
    ck.extra['programs'] = ck.extra.get('programs', 0) + 1

    def on_sat(model):
        docj = tr.render_doc(model)
        n = br.call(cmd='eval', yaml=yaml, opts=None, doc=docj, mode='flat')
        wv = model.eval(want, model_completion=True).as_long()
        path = ck.write_replay('loader_' + safe(name), {'rule': yaml, 'doc': docj, 'native': n, 'reference': SOLVER_RESULT[wv]})
        if 'verdict' not in n:
            return ('spurious', 'native failure')
        ck.replays_ok += 1
        if n['verdict'] == (wv == 0):
            return ('spurious', 'native verdict agrees with the reference')
        import C02
        if C02.big_integer_constant(rule):
            kf = ck.known_match('constant:integer-above-i64-max-read-as-float')
            if kf:
                return ('known', 'constant:integer-above-i64-max-read-as-float :: ' + kf['desc'])
        return ('violation', path, '%s: engine=%s, the numeric relation says %s on %s' % (name, n['verdict'], SOLVER_RESULT[wv], json.dumps(docj)))
    ck.obligation('loader ' + name, tr.uni, (v['res'] == T) != (want == T), sample={'rule': name}, on_sat=on_sat)


def constant_text_unit(ck, pre, sign):
    """'<op><sign><digits>' with 1..N symbolic decimal digits through the real into_identifier: the pattern it
    returns holds exactly the integer the digits denote (N = 18 characters with the sign: beyond 2^53, where a detour through
    f64 would round, and short of the i64 limit, so every text in the bound is a valid constant)"""
    from mirsym import models_chars
    prog = ck.program()
    uni = engine.Universe()
    ex = ck.new_engine(prog, uni=uni, summarise=())
    models_chars.install(ex)
    N = 18 - len(sign)
    d = S.fresh('digits', N, uni.axioms, ascii_only=True, min_len=1)
    for b in d.bytes:
        uni.axioms.append(z3.And(z3.UGE(b, 0x30), z3.ULE(b, 0x39)))
    head = (pre + sign).encode()
    s = S.SStr(list(head) + list(d.bytes), d.length + len(head), 'const')
    fn = [f for f in prog.fns if f.kind == 'fn' and f.name.endswith('::into_identifier')][0]
    results = ex.explore(fn, [StrV(s)])
    for r in results:
        ck.blocks |= r.blocks
    # the integer the text denotes: the specification of decimal i64 parsing (the trusted model of str::parse::<i64>,
    # exact: sign, digits, no overflow within 18 characters) applied to <sign><digits>
    numtxt = S.SStr([z3.BitVecVal(c, 8) for c in sign.encode()] + list(d.bytes), d.length + len(sign), 'number')
    valid, val = models_std.parse_int_terms(uni, numtxt, 'i64')
    uni.axioms.append(valid)
    want_kind = {'=': 'Equal', '>': 'GreaterThan', '>=': 'GreaterThanOrEqual', '<': 'LessThan', '<=': 'LessThanOrEqual'}[pre]
    label = 'constant text %s%s<digits>' % (pre, sign)
    br = ck.bridge()

    def on_sat(model, what):
        # the model's digits first, then - the parse of a float is uninterpreted in the model - the texts where a detour
        # through another number type would show, all replayed through the real into_identifier
        tried = [S.model_bytes(model, d)] + [t.encode() for t in ('9007199254740993', '900719925474099301', '123456789012345678',
                                                                   '999999999999999999', '72057594037927937', '1', '0')]
        for digits in tried:
            text = head + digits
            n = br.call(cmd='ident', s=list(text))
            exp = int((sign + digits.decode()))
            path = ck.write_replay('constant_' + text.hex()[:48], {'input': text.decode(), 'native': n, 'expected': {'t': want_kind, 'n': exp},
                                                                             'request': {'cmd': 'ident', 's': list(text)}, 'what': what})
            ck.replays_ok += 1
            pat = n.get('pattern') or {}
            if not n.get('ok') or pat.get('t') != want_kind or pat.get('n') != exp:
                return ('violation', path, '%s: %r is read as %r, it denotes %s %d' % (label, text.decode(), n, want_kind, exp))
        return ('spurious', 'native into_identifier reads the constant correctly on every replayed text')
    for i, r in enumerate(results):
        if r.kind == 'panic':
            ck.obligation('%s: no panic (path %d)' % (label, i), uni, z3.And(*r.pc) if r.pc else True, on_sat=lambda m: on_sat(m, 'panic'))
            continue
        ok = r.value.vname == 'Ok'
        good = False
        if ok:
            ident = r.value.items[0]
            flag, pat = ident.items[0], ident.items[1]
            if pat.vname == want_kind and isinstance(pat.items[0], BV):
                got = pat.items[0].v
                got = z3.BitVecVal(got, 64) if isinstance(got, int) else got
                good = z3.And(z3.Not(z3bool(flag)), got == val)
        ck.obligation('%s: denotes its digits (path %d)' % (label, i), uni, z3.And(*r.pc, z3.Not(z3bool(good))) if r.pc else z3.Not(z3bool(good)),
                      sample={'form': label, 'digits': '1..%d' % N}, on_sat=lambda m: on_sat(m, 'value'))
    ck.extra['programs'] = ck.extra.get('programs', 0) + 1


def condition_constant_unit(ck, sign):
    """'<sign><digits>' with 1..20 symbolic decimal digits through the real condition tokeniser: when it yields a
    token, that token is the integer the digits denote - a literal beyond the i64 range is never accepted as another
    number (20 digits reach past u64::MAX; the value is accumulated in 128 bits by the trusted parse model)"""
    from mirsym import models_chars
    from mirsym.models_std import deref_all
    prog = ck.program()
    uni = engine.Universe()
    ex = ck.new_engine(prog, uni=uni, summarise=('{closure#0}', '{closure#1}'))
    models_chars.install(ex)
    D = 20
    d = S.fresh('digits', D, uni.axioms, ascii_only=True, min_len=1)
    for b in d.bytes:
        uni.axioms.append(z3.And(z3.UGE(b, 0x30), z3.ULE(b, 0x39)))
    numtxt = S.SStr([z3.BitVecVal(c, 8) for c in sign.encode()] + list(d.bytes), d.length + len(sign), 'number')
    fn = [f for f in prog.fns if f.kind == 'fn' and f.name.endswith('::tokenise') and 'closure' not in f.name]
    if len(fn) != 1:
        raise Unsupported('cannot find the MIR body of tokenise')
    results = ex.explore(fn[0], [Ref(Cont([StrV(numtxt)]), 0)])
    for r in results:
        ck.blocks |= r.blocks
    valid, val = models_std.parse_int_terms(uni, numtxt, 'i64')
    label = 'condition constant %s<digits>' % sign
    br = ck.bridge()

    def on_sat(model, what):
        tried = [S.model_bytes(model, d)] + [t.encode() for t in ('9223372036854775808', '18446744073709551615', '9223372036854775809',
                                                                   '18446744073709551616', '99999999999999999999', '9223372036854775807', '1')]
        for digits in tried:
            text = sign.encode() + digits
            exp = int(text.decode())
            fits = -(1 << 63) <= exp < (1 << 63)
            n = br.call(cmd='tokenise', s=list(text))
            path = ck.write_replay('condition_constant_' + text.decode(), {'input': text.decode(), 'native': n, 'expected': exp if fits else 'rejected',
                                                                            'request': {'cmd': 'tokenise', 's': list(text)}, 'what': what})
            ck.replays_ok += 1
            if 'panic' in n:
                return ('violation', path, '%s: tokenise(%r) panics' % (label, text.decode()))
            if n.get('ok'):
                toks = n.get('tokens') or []
                import re as _re
                m = _re.match(r'^Integer\((-?\d+)\)$', toks[0]) if len(toks) == 1 and isinstance(toks[0], str) else None
                got = int(m.group(1)) if m else None
                if got is None and len(toks) == 1 and isinstance(toks[0], str) and toks[0].startswith('Float(') and not fits:
                    continue
                if got != exp:
                    return ('violation', path, '%s: the literal %r is read as %r, it denotes %d%s' % (
                        label, text.decode(), toks, exp, '' if fits else ' (outside the i64 range: must be rejected)'))
        return ('spurious', 'native tokenise reads or rejects every replayed literal correctly')
    int_idx = prog.enum_variants('tokeniser::Token').index('Integer')
    flt_idx = prog.enum_variants('tokeniser::Token').index('Float')
    oks = []
    for i, r in enumerate(results):
        if r.kind == 'panic':
            ck.obligation('%s: no panic (path %d)' % (label, i), uni, z3.And(*r.pc) if r.pc else True, on_sat=lambda m: on_sat(m, 'panic'))
            continue
        if r.value.vname != 'Ok':
            continue
        oks.append(r)
        good = False
        vec = deref_all(r.value.items[0])
        toks = getattr(vec, 'items', None)
        if toks is not None and len(toks) == 1:
            t = toks[0]
            if isinstance(t, Adt) and t.variant == int_idx and isinstance(t.items[0], BV):
                got = t.items[0].v
                got = z3.BitVecVal(got, 64) if isinstance(got, int) else got
                good = z3.And(valid, got == val)
            elif isinstance(t, Adt) and t.variant == flt_idx:
                good = z3.Not(valid)        # a literal that is no i64 may become a float; its value is not modelled
        ck.obligation('%s: an accepted literal denotes its digits (path %d)' % (label, i), uni,
                      z3.And(*r.pc, z3.Not(z3bool(good))) if r.pc else z3.Not(z3bool(good)),
                      sample={'form': label, 'digits': '1..%d' % D}, on_sat=lambda m: on_sat(m, 'value'))
    ck.extra['condition_constant_ok_paths'] = ck.extra.get('condition_constant_ok_paths', 0) + len(oks)
    ck.extra['programs'] = ck.extra.get('programs', 0) + 1


def safe_name(s):
    return ''.join(c if c.isalnum() else '_' for c in s)[:60]


def run_unit(ck, unit):
    if unit[0] == 'loader':
        loader_unit(ck, unit[1], unit[2])
        return
    if unit[0] == 'constant-text':
        constant_text_unit(ck, unit[1], unit[2])
        return
    if unit[0] == 'condition-constant':
        condition_constant_unit(ck, unit[1])
        return
    c = setup(ck)
    uni, d, n, y, cf, cg, pf, pg = c.uni, c.d, c.n, c.y, c.cf, c.cg, c.pf, c.pg
    kind = unit[0]
    if kind == 'prim':
        # the cast primitive on its own: in range, round()+`as` is the exact nearest integer (ties away)
        xf = z3.FP('xf', z3.Float64())
        inr = z3.And(z3.fpGEQ(xf, I64_MIN_F), z3.fpLT(xf, I64_LIM_F))
        try:
            ck.obligation('cast-primitive: f.round() as i64 == nearest-ties-away(f) in range', uni,
                          z3.And(inr, round_cast(xf) != z3.fpToSBV(z3.RNA(), xf, z3.BitVecSort(64))),
                          sample={'form': 'f64::round + as i64'})
        except Inconclusive as e:
            ck.extra['cast_primitive'] = 'not decided within the time cap: %s' % e
            ck.obligations -= 1
        return
    if kind == 'tri':
        ck_kind = unit[1]
        results = {op: field_form(ck, c, op, 'lr', ck_kind) for op in OPS}
        k = cf.kind
        same = z3.Or(k == K_INT, k == K_UINT) if ck_kind == 'Integer' else \
            z3.And(k == K_FLOAT, z3.Not(z3.fpIsNaN(cf.f)), z3.Not(z3.fpIsNaN(y)))
        lt, eq, gt = (results[o] == T for o in ('LessThan', 'Equal', 'GreaterThan'))
        ge, le = (results[o] == T for o in ('GreaterThanOrEqual', 'LessThanOrEqual'))
        one = z3.PbEq([(lt, 1), (eq, 1), (gt, 1)], 1)
        role = 'uint-field-above-i64-max-vs-int-constant'
        ck.obligation('trichotomy %s' % ck_kind, uni, z3.And(pf, same, z3.Not(one)),
                      sample={'form': 'exactly one of <,=,> (%s)' % ck_kind},
                      on_sat=lambda m: confirm(ck, 'trichotomy %s' % ck_kind, 'trichotomy', m, d, ('Field', 'TRI', ck_kind, 'lr'), role))
        ck.obligation('unions %s' % ck_kind, uni, z3.And(pf, same, z3.Or(ge != z3.Or(gt, eq), le != z3.Or(lt, eq))),
                      on_sat=lambda m: confirm(ck, 'unions %s' % ck_kind, 'unions', m, d, ('Field', 'TRI', ck_kind, 'lr'), role))
        return
    if kind == 'cast-int-const':
        op, order = unit[1], unit[2]
        spec_i, val_i, unspec_i = int_of_cast(c, cf)
        l, r = operand(c, 'CastInt'), operand(c, 'Integer')
        if order == 'rl':
            l, r = r, l
        res, pc, panics = run(ck, c, l, op, r)
        rel = rel_bv65(op, sext(val_i), sext(n)) if order == 'lr' else rel_bv65(op, sext(n), sext(val_i))
        check_form(ck, c, 'int(f) %s Integer (%s)' % (op, order), res, pc, panics, pf, spec_i, rel,
                   never_true_when=z3.And(z3.Not(spec_i), z3.Not(unspec_i)), witness=('CastInt', op, 'Integer', order))
        # outside the i64 range the cast has no value; whatever the engine does there, `true` must still mean that the
        # stated relation holds between the field's number and the constant
        v65, nan = int65_of_cast(cf, val_i)
        rel65 = rel_bv65(op, v65, sext(n)) if order == 'lr' else rel_bv65(op, sext(n), v65)
        nm = 'int(f) %s Integer (%s):true only when the relation holds (float beyond the i64 range / NaN)' % (op, order)
        ck.obligation(nm, uni, z3.And(pf, unspec_i, res == T, z3.Or(nan, z3.Not(rel65))),
                      on_sat=lambda m: confirm(ck, nm, 'true although the relation does not hold', m, d, ('CastInt', op, 'Integer', order), None))
        return
    if kind == 'cast-flt-const':
        op, order = unit[1], unit[2]
        spec_f, val_f = flt_of_cast(c, cf)
        l, r = operand(c, 'CastFlt'), operand(c, 'Float')
        if order == 'rl':
            l, r = r, l
        res, pc, panics = run(ck, c, l, op, r)
        rel = rel_fp(op, val_f, y) if order == 'lr' else rel_fp(op, y, val_f)
        check_form(ck, c, 'flt(f) %s Float (%s)' % (op, order), res, pc, panics, pf, spec_f, rel,
                   never_true_when=z3.Not(spec_f), witness=('CastFlt', op, 'Float', order))
        return
    if kind == 'cast-int-int':
        op = unit[1]
        spec_i, val_i, unspec_i = int_of_cast(c, cf)
        spec_ig, val_ig, unspec_ig = int_of_cast(c, cg)
        res, pc, panics = run(ck, c, operand(c, 'CastInt', b'f'), op, operand(c, 'CastInt', b'g'))
        check_form(ck, c, 'int(f) %s int(g)' % op, res, pc, panics, z3.And(pf, pg), z3.And(spec_i, spec_ig),
                   rel_bv65(op, sext(val_i), sext(val_ig)),
                   never_true_when=z3.Or(z3.And(z3.Not(spec_i), z3.Not(unspec_i)), z3.And(z3.Not(spec_ig), z3.Not(unspec_ig))),
                   witness=('CastInt', op, 'CastInt', 'lr'),
                   absent_missing=z3.Or(z3.Not(pf), z3.And(pf, spec_i, z3.Not(pg))))
        return
    if kind == 'cast-flt-flt':
        op = unit[1]
        spec_f, val_f = flt_of_cast(c, cf)
        spec_fg, val_fg = flt_of_cast(c, cg)
        res, pc, panics = run(ck, c, operand(c, 'CastFlt', b'f'), op, operand(c, 'CastFlt', b'g'))
        check_form(ck, c, 'flt(f) %s flt(g)' % op, res, pc, panics, z3.And(pf, pg), z3.And(spec_f, spec_fg),
                   rel_fp(op, val_f, val_fg), never_true_when=z3.Or(z3.Not(spec_f), z3.Not(spec_fg)),
                   witness=('CastFlt', op, 'CastFlt', 'lr'),
                   absent_missing=z3.Or(z3.Not(pf), z3.And(pf, spec_f, z3.Not(pg))))
        return
    if kind == 'bool':
        res, pc, panics = run(ck, c, operand(c, 'Field'), 'Equal', operand(c, 'Boolean'))
        check_form(ck, c, 'Field == Boolean', res, pc, panics, pf, z3.BoolVal(True),
                   z3.And(cf.kind == K_BOOL, cf.b == c.bconst), witness=None)
        return
    if kind == 'null':
        res, pc, panics = run(ck, c, operand(c, 'Field'), 'Equal', operand(c, 'Null'))
        check_form(ck, c, 'Field == Null', res, pc, panics, pf, z3.BoolVal(True), cf.kind == K_NULL, witness=None)
        return
    if kind == 'str':
        uni.numstr_cap = 3
        res, pc, panics = run(ck, c, operand(c, 'CastStr', b'f'), 'Equal', operand(c, 'CastStr', b'g'))
        kf, kg = cf.kind, cg.kind

        def stringy(k):
            return z3.Or(k == K_BOOL, k == K_INT, k == K_UINT, k == K_FLOAT, k == K_STRING)
        both = z3.And(pf, pg)
        ck.obligation('str(f)==str(g):no-panic', uni, pc, sample={'form': 'str(f) == str(g)'})
        ck.obligation('str==str:absent=>missing', uni,
                      z3.And(z3.Or(z3.Not(pf), z3.And(pf, stringy(kf), z3.Not(pg))), res != M))
        ck.obligation('str==str:non-text kind=>false', uni,
                      z3.And(both, z3.Or(z3.Not(stringy(kf)), z3.Not(stringy(kg))), res != F))
        same_kind_eq = z3.Or(
            z3.And(kf == K_STRING, kg == K_STRING, z3bool(S.s_eq(cf.s, cg.s))),
            z3.And(kf == K_BOOL, kg == K_BOOL, cf.b == cg.b),
            z3.And(kf == K_INT, kg == K_INT, cf.i == cg.i),
            z3.And(kf == K_UINT, kg == K_UINT, cf.u == cg.u))
        same_kind = z3.Or(*[z3.And(kf == kk, kg == kk) for kk in (K_STRING, K_BOOL, K_INT, K_UINT)])
        ck.obligation('str==str:same-kind exact', uni, z3.And(both, same_kind, (res == T) != same_kind_eq))
        return
    raise ValueError(unit)


def confirm(ck, name, what, model, d, witness, key_role):
    """replay a model natively through a rule that spells the same form"""
    if witness is None:
        return ('spurious', 'no native spelling for %s' % name)
    lk, op, rk, order = witness
    n = model.eval(z3.BitVec('n', 64), model_completion=True).as_long()
    n = norm_int(n, 'i64')
    ybits = fp_bits(model, z3.FP('y', z3.Float64()))
    import struct
    yv = struct.unpack('<d', struct.pack('<Q', ybits))[0]
    docj = d.render(model)
    sym = {'Equal': '==', 'GreaterThan': '>', 'GreaterThanOrEqual': '>=', 'LessThan': '<', 'LessThanOrEqual': '<='}
    ops = [op] if op != 'TRI' else ['LessThan', 'Equal', 'GreaterThan', 'GreaterThanOrEqual', 'LessThanOrEqual']
    native = {}
    rules = {}
    for o in ops:
        if lk == 'Field' and rk in ('Integer', 'Float'):
            if rk == 'Float' and (yv != yv or yv in (float('inf'), float('-inf'))):
                return ('spurious', 'constant %r cannot be written in a rule' % yv)
            const = str(n) if rk == 'Integer' else repr(yv)
            if rk == 'Float' and '.' not in const:
                return ('spurious', 'float constant %s has no plain decimal spelling' % const)
            pat = {'Equal': '=', 'GreaterThan': '>', 'GreaterThanOrEqual': '>=', 'LessThan': '<', 'LessThanOrEqual': '<='}[o]
            if order == 'rl':
                return ('spurious', 'constant-on-the-left has no mapping spelling')
            yaml = "detection:\n  A:\n    f: '%s%s'\n  condition: A\ntrue_positives: []\ntrue_negatives: []\n" % (pat, const)
        elif lk in ('CastInt', 'CastFlt'):
            fn = 'int' if lk == 'CastInt' else 'flt'
            if rk in ('CastInt', 'CastFlt'):
                cond = '%s(f) %s %s(g)' % (fn, sym[o], fn)
            else:
                const = str(n) if rk == 'Integer' else repr(yv)
                if rk == 'Float' and ('.' not in const or 'e' in const or 'n' in const):
                    return ('spurious', 'float constant %s has no plain decimal spelling' % const)
                if const.startswith('-') and order == 'lr':
                    pass
                cond = ('%s(f) %s %s' % (fn, sym[o], const)) if order == 'lr' else ('%s %s %s(f)' % (const, sym[o], fn))
            yaml = "detection:\n  A:\n    zz: zz\n  condition: %s\ntrue_positives: []\ntrue_negatives: []\n" % cond
        else:
            return ('spurious', 'no native spelling for %s' % name)
        r = ck.bridge().call(cmd='eval', yaml=yaml, opts=None, doc=docj, mode='flat')
        native[o] = r
        rules[o] = yaml
    path = ck.write_replay(name.replace(' ', '_').replace('/', '_'), {'what': what, 'rules': rules, 'doc': docj, 'native': native})
    if any('panic' in r for r in native.values()):
        return ('violation', path, '%s: native panic' % name)
    if any('verdict' not in r for r in native.values()):
        return ('spurious', 'rule did not load natively: %r' % native)
    # decide natively whether the property is broken on this input
    fv = [v for k, v in docj['$obj'] if bytes(k) == b'f']
    broken = native_broken(ops, native, fv[0] if fv else None, n, yv, rk)
    ck.replays_ok += 1
    if not broken:
        return ('spurious', 'native run satisfies the property on the model (%s)' % path)
    kf = ck.known_match(key_role) if key_role else None
    if kf:
        return ('known', '%s :: %s' % (key_role, kf['desc']))
    return ('violation', path, '%s: %s; doc=%s n=%d y=%r native=%s' % (name, what, json.dumps(docj), n, yv,
                                                                     {o: r.get('verdict') for o, r in native.items()}))


def native_broken(ops, native, fval, n, yv, rk):
    """mathematical oracle on concrete values (python big ints / floats)"""
    if fval is None:
        return any(r['verdict'] for r in native.values())
    if isinstance(fval, dict) and ('$i64' in fval or '$u64' in fval) and rk == 'Integer':
        x = fval.get('$i64', fval.get('$u64'))
        want = {'Equal': x == n, 'GreaterThan': x > n, 'GreaterThanOrEqual': x >= n, 'LessThan': x < n, 'LessThanOrEqual': x <= n}
        return any(native[o]['verdict'] != want[o] for o in ops)
    if isinstance(fval, dict) and '$f64' in fval and rk == 'Float':
        import struct
        x = struct.unpack('<d', struct.pack('<Q', fval['$f64']))[0]
        want = {'Equal': x == yv, 'GreaterThan': x > yv, 'GreaterThanOrEqual': x >= yv, 'LessThan': x < yv, 'LessThanOrEqual': x <= yv}
        return any(native[o]['verdict'] != want[o] for o in ops)
    if isinstance(fval, dict) and '$f64' in fval and rk == 'Integer':
        # int(float) against an integer constant, decided exactly with python integers
        import struct, math
        x = struct.unpack('<d', struct.pack('<Q', fval['$f64']))[0]
        if x != x:
            return any(r['verdict'] for r in native.values())
        if x in (float('inf'), float('-inf')):
            pos = 2 ** 64 if x > 0 else -2 ** 64
        else:
            pos = int(math.floor(abs(x) + 0.5)) * (1 if x >= 0 else -1)      # round half away from zero, exact on big ints
        want = {'Equal': pos == n, 'GreaterThan': pos > n, 'GreaterThanOrEqual': pos >= n, 'LessThan': pos < n, 'LessThanOrEqual': pos <= n}
        if -2 ** 63 <= pos < 2 ** 63:
            return any(native[o]['verdict'] != want[o] for o in ops)
        return any(native[o]['verdict'] and not want[o] for o in ops)        # beyond the i64 range: soundness only
    # other casts / kinds: trust the solver-side oracle; the native run only has to reproduce the engine's verdicts
    return True


if __name__ == '__main__':
    run_check(main)
