"""C13  validate() agrees with matches() on the rule's own examples.

Real MIR of Rule::validate with p true-positive and n true-negative examples
(p, n <= 3).  Each example is a symbolic cell {is_mapping, matches}: the call
solver::solve(detection, example) returns the cell's `matches` (the same verdict
matches() gives - solve *is* what matches() calls), `as_mapping()` follows
`is_mapping`.  z3 decides, over all 2^(2(p+n)) example states:
  * no path panics (a non-mapping example must become an error),
  * Ok(true)  <=>  every positive matches and no negative matches,
  * otherwise Err(Validation) whose message names exactly the failing examples.
"""
import re
import json
import z3
from common import *
from mirsym.models_std import MODELS, some, none, deref_all, model as std_model


def install_models(state):
    def front(pattern):
        def deco(fn):
            MODELS.insert(0, (re.compile(pattern), fn))
            return fn
        return deco

    @front(r'^serde_yaml::Value::as_mapping$')
    def m_as_mapping(ex, callee, args):
        y = deref_all(args[0])
        i = y.data['i']
        if ex.branch(state['is_mapping'][i]):
            return some(Ref(Cont([Opaque('mapping', {'i': i})]), 0))
        return none()

    @front(r'^serde_yaml::Value::is_mapping$')
    def m_is_mapping(ex, callee, args):
        y = deref_all(args[0])
        if not (isinstance(y, Opaque) and y.kind == 'yaml'):
            raise Unsupported('is_mapping of something that is not an example')
        return state['is_mapping'][y.data['i']]

    @front(r'^serde_yaml::Mapping::(is_empty|len)$')
    def m_mapping_is_empty(ex, callee, args):
        m = deref_all(args[0])
        if not (isinstance(m, Opaque) and m.kind == 'mapping'):
            raise Unsupported('Mapping::%s of something that is not an example' % callee.rsplit('::', 1)[1])
        e = state['is_empty'][m.data['i']]
        if callee.endswith('is_empty'):
            return e
        return BV(z3.If(e, z3.BitVecVal(0, 64), z3.BitVecVal(2, 64)), 'usize')

    @front(r'^core::fmt::rt::Argument::<.*>::new_debug::<&serde_yaml::Value>$')
    def m_new_debug(ex, callee, args):
        return Opaque('fmtarg', deref_all(args[0]))

    @front(r'^Arguments::<.*>::new::<')
    def m_args_new(ex, callee, args):
        arr = deref_all(args[1])
        return Opaque('fmtargs', [a for a in arr.items])

    @front(r'^format$|^(std|alloc)::fmt::format$')
    def m_format(ex, callee, args):
        a = args[0]
        names = []
        if isinstance(a, Opaque) and a.kind == 'fmtargs':
            for x in a.data:
                if isinstance(x, Opaque) and x.kind == 'fmtarg' and isinstance(x.data, Opaque) and x.data.kind == 'yaml':
                    names.append('<example %d>' % x.data.data['i'])
        return StrV(('failed ' + ' '.join(names)).encode())

    @front(r'^error::Error::with::<')
    def m_with(ex, callee, args):
        e = args[0]
        return Adt('Error', None, None, [e, args[1]])

    def same(i, j):
        if i == j:
            return True
        a, b = min(i, j), max(i, j)
        return state['same'][(a, b)]

    def yaml_idx(v):
        v = deref_all(v)
        return v.data['i'] if isinstance(v, Opaque) and v.kind == 'yaml' else None

    @front(r'^<&*serde_yaml::Value as PartialEq(<.*>)?>::(eq|ne)$')
    def m_yaml_eq(ex, callee, args):
        i, j = yaml_idx(args[0]), yaml_idx(args[1])
        if i is None or j is None:
            raise Unsupported('equality of non-example YAML values')
        r = same(i, j)
        return r if callee.endswith('eq') else b_not(r)

    @front(r'^HashSet::<&serde_yaml::Value>::(new|with_capacity)$|^HashSet::<&serde_yaml::Value, .*>::(new|with_capacity|default)$|^<HashSet<&serde_yaml::Value.*> as Default>::default$')
    def m_hs_new(ex, callee, args):
        return Opaque('yamlset', [])

    @front(r'^HashSet::<&serde_yaml::Value.*>::(insert|contains)(::<.*>)?$')
    def m_hs_insert(ex, callee, args):
        hs = deref_all(args[0])
        i = yaml_idx(args[1])
        if i is None:
            raise Unsupported('HashSet of non-example YAML values')
        present = False
        for j in hs.data:
            if ex.branch(same(i, j)):
                present = True
                break
        if '::insert' in callee:
            if not present:
                hs.data.append(i)
            return not present
        return present

    # HashMap<&Yaml, V> keyed by example *documents* (equal documents are one key: the `same` relation)
    @front(r'^HashMap::<&serde_yaml::Value, .*>::(new|with_capacity)$|^<HashMap<&serde_yaml::Value, .*> as Default>::default$')
    def m_hm_new(ex, callee, args):
        return Opaque('yamlmap', [])

    def hm_slot(ex, hm, i):
        for ent in hm.data:
            if ex.branch(same(i, ent[0])):
                return ent
        return None

    @front(r'^HashMap::<&serde_yaml::Value, .*>::(get|contains_key)(::<.*>)?$')
    def m_hm_get(ex, callee, args):
        hm = deref_all(args[0])
        i = yaml_idx(args[1])
        if i is None:
            raise Unsupported('HashMap keyed by a non-example YAML value')
        ent = hm_slot(ex, hm, i)
        if '::contains_key' in callee:
            return ent is not None
        return some(Ref(ent[1], 0)) if ent is not None else none()

    @front(r'^HashMap::<&serde_yaml::Value, .*>::insert$')
    def m_hm_insert(ex, callee, args):
        hm = deref_all(args[0])
        i = yaml_idx(args[1])
        if i is None:
            raise Unsupported('HashMap keyed by a non-example YAML value')
        ent = hm_slot(ex, hm, i)
        if ent is not None:
            old_ = ent[1].items[0]
            ent[1].items[0] = args[2]
            return some(old_)
        hm.data.append((i, Cont([args[2]])))
        return none()

    @front(r'^HashMap::<&serde_yaml::Value, .*>::entry$')
    def m_hm_entry(ex, callee, args):
        hm = deref_all(args[0])
        i = yaml_idx(args[1])
        if i is None:
            raise Unsupported('HashMap keyed by a non-example YAML value')
        return Opaque('yamlentry', {'map': hm, 'i': i, 'slot': hm_slot(ex, hm, i)})

    @front(r'^(std::collections::)?hash_map::Entry::<.*&serde_yaml::Value, .*>::(or_insert_with|or_insert|or_default)(::<.*>)?$|^Entry::<.*&serde_yaml::Value, .*>::(or_insert_with|or_insert)(::<.*>)?$')
    def m_hm_or_insert(ex, callee, args):
        e = args[0]
        if not (isinstance(e, Opaque) and e.kind == 'yamlentry'):
            raise Unsupported('Entry of %r' % (e,))
        slot = e.data['slot']
        if slot is None:
            v = ex.call_closure(args[1], []) if 'or_insert_with' in callee else args[1]
            slot = (e.data['i'], Cont([v]))
            e.data['map'].data.append(slot)
        return Ref(slot[1], 0)

    @front(r'^core::slice::<impl \[&*serde_yaml::Value\]>::contains$|^Vec::<&*serde_yaml::Value>::contains$')
    def m_slice_contains(ex, callee, args):
        from mirsym.models_std import vec_of
        v = vec_of(args[0])
        i = yaml_idx(args[1])
        for x in v.items:
            j = yaml_idx(x)
            if j is not None and ex.branch(same(i, j)):
                return True
        return False

    @front(r'^error::Error::new$')
    def m_new(ex, callee, args):
        return Adt('ErrorBase', None, None, [args[0]])


def main():
    ck = Check('C13', 'model_checking')
    quick = ck.tier == 'quick'
    K = 2 if quick else 3
    ck.bounds = {'true_positives': '0..%d' % K, 'true_negatives': '0..%d' % K, 'example states': 'is_mapping x matches x pairwise equality of examples, symbolic'}
    ck.assumptions = ['solver::solve on an example is an arbitrary boolean per example (its meaning is the subject of C02); it is the function matches() calls',
                      'format!/Debug of an example renders something that identifies the example; Error::with keeps the message']
    ck.functions |= {'rule::Rule::validate'}
    units = [(p, n) for p in range(K + 1) for n in range(K + 1)] + [('shapes',)]
    ck.run_units(units, run_unit, jobs=8)
    ck.finish('Rule::validate MIR over symbolic example states; z3 against the specification of validate()')


SHAPES = {
    'plain-hit': '{f: a, g: b}', 'plain-miss': '{f: b, g: b}', 'plain-missing': '{g: b}', 'empty': '{}',
    'tagged-hit': '!sysmon {f: a, g: b}', 'tagged-miss': '!sysmon {f: zz, g: b}',
    'merge-hit': '{<<: {f: a}, g: b}', 'merge-miss': '{<<: {f: a, g: b}}', 'merge-plain-hit': '{<<: {x: y}, f: a, g: b}',
    'nested-hit': '{f: a, g: b, h: {k: [1, 2]}}', 'string': "'just a string'", 'number': '17', 'list': '[f, a]', 'null': '~',
    'key-bool': '{f: a, g: b, true: x}', 'long': '{f: a, g: b, pad: "%s"}' % ('\u00e9' * 300),
}


def shapes_unit(ck):
    """*concrete* (labelled): example documents in shapes the symbolic example state cannot tell apart (tagged mappings,
    merge keys, odd keys, non-mappings), in several orders: validate() must say what matches() says about each example
    that is a mapping, must report every other entry, and must name exactly the failing examples"""
    import itertools
    br = ck.bridge()
    names = list(SHAPES)
    lists = [(a, b) for a in names for b in names if a != b][::3] + [(a,) for a in names]
    triples = [('string', 'plain-hit', 'plain-miss'), ('plain-miss', 'number', 'plain-hit'), ('tagged-hit', 'plain-miss', 'merge-hit'),
               ('plain-hit', 'tagged-miss', 'list'), ('merge-miss', 'merge-plain-hit', 'null')]
    n = 0
    for opts in (None, [True, True, True, True]):
        for side in ('tp', 'tn'):
            for combo in lists + triples:
                items = ''.join('\n- %s' % SHAPES[x].replace('}', ', id: %d}' % (4000 + i)) if SHAPES[x].endswith('}') and not SHAPES[x].endswith('{}')
                                else '\n- %s' % SHAPES[x] for i, x in enumerate(combo))
                yaml = 'detection:\n  A:\n    f: a\n  B:\n    g: b\n  condition: A and B\ntrue_positives:%s\ntrue_negatives:%s\n' % (
                    items if side == 'tp' else ' []', items if side == 'tn' else ' []')
                ex = br.call(cmd='examples', yaml=yaml, opts=opts)
                va = br.call(cmd='validate', yaml=yaml, opts=opts)
                n += 1
                ck.obligations += 1
                if not ex.get('ok'):
                    ck.discharged += 1          # the rule does not load in this shape: nothing to validate
                    continue
                what = None
                if 'panic' in va or 'panic' in ex:
                    what = 'panic: %s' % (va.get('panic') or ex.get('panic'))[:160]
                else:
                    verdicts = {}                 # marker -> matches() verdict, for the entries that are mappings
                    for e in ex['examples']:
                        verdicts[json.dumps(e['doc'], sort_keys=True)] = e['verdict']
                    mapping_count = len(ex['examples'])
                    fails = []
                    for i, x in enumerate(combo):
                        is_map = x not in ('string', 'number', 'list', 'null')
                        fails.append(None if not is_map else i)
                    vlist = [e['verdict'] for e in ex['examples']]
                    bad_entries = len(combo) - mapping_count
                    wrong = [v for v in vlist if v != (side == 'tp')]
                    want_ok = bad_entries == 0 and not wrong
                    got_ok = va.get('result') is True
                    if want_ok != got_ok:
                        what = 'validate() says %r, matches() on the examples says %s (non-mapping entries: %d)' % (
                            {k: va.get(k) for k in ('result', 'error')}, vlist, bad_entries)
                    elif not want_ok:
                        text = va.get('error', '')
                        maps = [i for i, x in enumerate(combo) if x not in ('string', 'number', 'list', 'null')]
                        if len(maps) == len(vlist):
                            for i, v in zip(maps, vlist):
                                marker = str(4000 + i)
                                if SHAPES[combo[i]].endswith('{}'):
                                    continue
                                failing = v != (side == 'tp')
                                if failing and marker not in text:
                                    what = 'the validation error does not name failing example %d: %r' % (i, text[:160])
                                if not failing and marker in text:
                                    what = 'the validation error names example %d which does not fail: %r' % (i, text[:160])
                if what:
                    path = ck.write_replay('shapes_%s_%s_%s' % (side, '_'.join(combo), 'opt' if opts else 'raw'),
                                           {'rule': yaml, 'opts': opts, 'examples': ex, 'validate': va, 'what': what,
                                            'request': {'cmd': 'validate', 'yaml': yaml, 'opts': opts}})
                    ck.violations.append((path, 'shapes %s %s: %s' % (side, '+'.join(combo), what)))
                    ck.replays_ok += 1
                    return
                ck.discharged += 1
    ck.extra['example_shape_rules'] = n


def run_unit(ck, unit):
    if unit == ('shapes',):
        shapes_unit(ck)
        return
    p, n = unit
    prog = ck.program()
    uni = engine.Universe()
    total = p + n
    state = {'is_mapping': [z3.Bool('is_mapping%d' % i) for i in range(total)],
             'matches': [z3.Bool('matches%d' % i) for i in range(total)],
             # the empty mapping is a legitimate example (a rule can match it); it is one document
             'is_empty': [z3.Bool('is_empty%d' % i) for i in range(total)],
             # a non-matching example evaluates to false or to missing (replayed with a wrong value / an absent field)
             'missing': [z3.Bool('missing%d' % i) for i in range(total)],
             'same': {(i, j): z3.Bool('same%d_%d' % (i, j)) for i in range(total) for j in range(i + 1, total)}}
    # equal examples are the same document: same shape, same verdict (and equality is transitive)
    for i in range(total):
        uni.axioms.append(z3.Implies(state['is_empty'][i], state['is_mapping'][i]))
    for (i, j), sij in state['same'].items():
        uni.axioms.append(z3.Implies(sij, state['missing'][i] == state['missing'][j]))
        uni.axioms.append(z3.Implies(sij, z3.And(state['is_mapping'][i] == state['is_mapping'][j], state['matches'][i] == state['matches'][j],
                                                 state['is_empty'][i] == state['is_empty'][j])))
        uni.axioms.append(z3.Implies(z3.And(state['is_empty'][i], state['is_empty'][j]), sij))
        for k in range(j + 1, total):
            uni.axioms.append(z3.Implies(z3.And(sij, state['same'][(j, k)]), state['same'][(i, k)]))
            uni.axioms.append(z3.Implies(z3.And(sij, state['same'][(i, k)]), state['same'][(j, k)]))
            uni.axioms.append(z3.Implies(z3.And(state['same'][(i, k)], state['same'][(j, k)]), sij))
    install_models(state)
    ex = ck.new_engine(prog, uni=uni, summarise=())

    def hook(e, callee, args):
        if callee == 'solve' or callee.endswith('::solve'):
            m = deref_all(args[1])
            if isinstance(m, Opaque) and m.kind == 'mapping':
                return (state['matches'][m.data['i']],)
        if callee == 'solve_expression' or callee.endswith('::solve_expression'):
            # the three-valued result behind matches(): true iff it matches, otherwise false or missing
            m = deref_all(args[2]) if len(args) > 2 else None
            if isinstance(m, Opaque) and m.kind == 'mapping':
                i = m.data['i']
                disc = z3.If(state['matches'][i], z3.BitVecVal(0, 64), z3.If(state['missing'][i], z3.BitVecVal(2, 64), z3.BitVecVal(1, 64)))
                return (SymEnum('SolverResult', disc, {}),)
        return None
    ex.call_hook = hook
    ex_vals = [Opaque('yaml', {'i': i}) for i in range(total)]
    fields = prog.structs.get('Rule')
    if fields != ['optimised', 'detection', 'true_positives', 'true_negatives']:
        raise Unsupported('Rule fields changed: %r' % (fields,))
    dfields = prog.structs.get('Detection') or prog.structs.get('rule::Detection') or []
    detection = Adt('Detection', None, None, [Opaque('detection.' + f) for f in dfields]) if dfields else Opaque('detection')
    rule = Adt('Rule', None, None, [False, detection, VecV(ex_vals[:p]), VecV(ex_vals[p:])])
    f = prog.find_impl(None, 'Rule', 'validate')
    res = ex.explore(f, [Ref(Cont([rule]), 0)])
    for r in res:
        ck.blocks |= r.blocks
    label = 'validate p=%d n=%d' % (p, n)
    if not coverage_complete(ck, uni, res):
        ck.inconclusive.append(label + ': coverage')
    im, ma = state['is_mapping'], state['matches']
    fails = [z3.Not(z3.And(im[i], ma[i])) for i in range(p)] + [z3.Or(z3.Not(im[i]), ma[i]) for i in range(p, total)]
    all_ok = z3.Not(z3.Or(*fails)) if fails else z3.BoolVal(True)
    panics = [r for r in res if r.kind == 'panic']
    br = ck.bridge()

    markers = {}

    def replay(model, what, pad=None):
        # a rule whose examples realise the model: positives/negatives that match / do not match / are not mappings
        def ex_yaml(i):
            # distinct examples get distinct extra fields unless the model says they are the same document
            rep = i
            for j in range(i):
                if z3.is_true(model.eval(state['same'][(j, i)], model_completion=True)):
                    rep = j
                    break
            markers[i] = str((2000 if not z3.is_true(model.eval(im[i], model_completion=True)) and not pad else 1000) + rep)
            if not z3.is_true(model.eval(im[i], model_completion=True)) and not pad:
                return '- %d' % (2000 + rep)
            if z3.is_true(model.eval(state['is_empty'][i], model_completion=True)) and not pad:
                markers[i] = '{}'
                return '- {}'
            extra = ('\n  pad: \'%s\'' % pad) if pad else ''
            if z3.is_true(model.eval(ma[i], model_completion=True)):
                return ('- f: a\n  g: b\n  id: %d' % (1000 + rep)) + extra
            if z3.is_true(model.eval(state['missing'][i], model_completion=True)):
                return ('- g: b\n  id: %d' % (1000 + rep)) + extra        # `f` absent: A is missing, so is `A and B`
            return ('- f: b\n  g: b\n  id: %d' % (1000 + rep)) + extra
        tp = '\n'.join(ex_yaml(i) for i in range(p)) or '[]'
        tn = '\n'.join(ex_yaml(i) for i in range(p, total)) or '[]'
        # the empty mapping matches `not (not A or not B)` (every field missing, and not(missing) is false) and not `A and B`
        empty_matches = any(z3.is_true(model.eval(z3.And(state['is_empty'][i], ma[i]), model_completion=True)) for i in range(total))
        cond = 'not (not A or not B)' if empty_matches else 'A and B'
        yaml = 'detection:\n  A:\n    f: a\n  B:\n    g: b\n  condition: %s\ntrue_positives:%s\ntrue_negatives:%s\n' % (
            cond, ('\n' + tp) if p else ' []', ('\n' + tn) if n else ' []')
        r = br.call(cmd='validate', yaml=yaml, opts=None)
        r2 = br.call(cmd='validate', yaml=yaml, opts=[True, True, True, True])
        path = ck.write_replay(safe_name(label + '_' + what + ('_long' if pad else '')), {'rule': yaml, 'native': r, 'native_optimised': r2, 'what': what,
                                                              'request': {'cmd': 'validate', 'yaml': yaml, 'opts': None}})
        return yaml, r, r2, path

    def on_panic(model):
        yaml, r, r2, path = replay(model, 'panic')
        if 'panic' in r or 'panic' in r2:
            ck.replays_ok += 1
            kf = ck.known_match('validate-panic:non-mapping-example')
            if kf:
                return ('known', 'validate-panic:non-mapping-example :: ' + kf['desc'])
            return ('violation', path, '%s: validate() panics: %s' % (label, r.get('panic') or r2.get('panic')))
        return ('spurious', 'native validate does not panic')
    ck.obligation(label + ':no-panic', uni, b_or(*[r.cond() for r in panics]) if panics else False,
                  sample={'form': label, 'paths': len(res)}, on_sat=on_panic)
    bad = []
    for r in res:
        if r.kind != 'return':
            continue
        v = r.value
        if v.vname == 'Ok':
            okv = v.items[0]
            bad.append(b_and(r.cond(), b_or(z3.Not(all_ok), b_not(okv))))
        else:
            e = v.items[0]
            bad.append(b_and(r.cond(), all_ok))
            # the message names exactly the failing examples
            msg = None
            kind_ok = False
            if isinstance(e, Adt) and e.name == 'Error' and len(e.items) == 2:
                msg = e.items[1].s if isinstance(e.items[1], StrV) else None
                base = e.items[0]
                kind = base.items[0] if isinstance(base, Adt) and base.items else None
                kind_ok = isinstance(kind, Adt) and kind.vname == 'Validation'
            if not kind_ok or not isinstance(msg, bytes):
                bad.append(r.cond())
                continue
            for i in range(total):
                mentioned = ('<example %d>' % i).encode() in msg
                bad.append(b_and(r.cond(), fails[i] if not mentioned else z3.Not(fails[i])))

    def on_spec(model):
        yaml, r, r2, path = replay(model, 'spec')
        if 'panic' in r:
            return ('spurious', 'panics natively (reported by the no-panic obligation)')
        want_ok = z3.is_true(model.eval(all_ok, model_completion=True))
        got_ok = r.get('result') is True
        ck.replays_ok += 1
        if want_ok != got_ok or (r2.get('result') is True) != want_ok:
            return ('violation', path, '%s: validate() says %r, examples say %s' % (label, r, want_ok))
        if not want_ok:
            # the error has to name each failing example (their markers are unique numbers)
            text = r.get('error', '')
            for i in range(total):
                failing = z3.is_true(model.eval(fails[i], model_completion=True))
                mentioned_elsewhere = any(markers.get(j) == markers.get(i) and z3.is_true(model.eval(fails[j], model_completion=True))
                                          for j in range(total) if j != i)
                if failing and markers[i] not in text:
                    return ('violation', path, '%s: the validation error does not name failing example %d: %r' % (label, i, text[:200]))
                if not failing and markers[i] in text and not mentioned_elsewhere:
                    return ('violation', path, '%s: the validation error names example %d which does not fail: %r' % (label, i, text[:200]))
        # the executor renders an example as an opaque text; anything the real code does with that text (cutting,
        # re-encoding) only shows on real, long, non-ASCII examples: the same witness again with a padded extra field
        # (in the padded replay every example is a non-empty mapping; what it should do follows from `matches` alone)
        pfails = [not z3.is_true(model.eval(ma[i], model_completion=True)) for i in range(p)] + \
                 [z3.is_true(model.eval(ma[i], model_completion=True)) for i in range(p, total)]
        want_pad = not any(pfails)
        for padtxt in ('\u00e9' * 200, 'a' + '\u00e9' * 200):
            yaml2, q, q2, path2 = replay(model, 'spec', pad=padtxt)
            for qq in (q, q2):
                if 'panic' in qq:
                    return ('violation', path2, '%s: validate() panics on a long example: %s' % (label, qq['panic'][:160]))
                if (qq.get('result') is True) != want_pad:
                    return ('violation', path2, '%s: validate() says %r on long examples, examples say %s' % (label, qq, want_pad))
            if not want_pad:
                text = q.get('error', '')
                for i in range(total):
                    if pfails[i] and markers[i] not in text:
                        return ('violation', path2, '%s: the validation error does not name failing (long) example %d: %r' % (label, i, text[:200]))
        return ('spurious', 'native validate agrees on the outcome; message contents are decided on the MIR only (%s)' % path)
    ck.obligation(label + ':ok <=> all examples right; errors name the failing examples', uni,
                  b_or(*[b for b in bad if b is not False]) if any(b is not False for b in bad) else False, on_sat=on_spec)
    ck.extra['programs'] = ck.extra.get('programs', 0) + 1


def safe_name(s):
    return ''.join(c if c.isalnum() or c in '-_.' else '_' for c in s)


if __name__ == '__main__':
    run_check(main)
