"""C05  Condition grammar: fixed precedence, associativity and parentheses.

(a) Token::binding_power (real MIR, loop-free) on a symbolic token: z3 proves
    comparison > or > and > 0, not > comparison, everything else <= and.
(b) parse() (real MIR: parse / parse_expr / parse_led / parse_nud) on symbolic
    token vectors of length <= L.  Every path of the real parser fixes the
    class of every token it looked at; for every class vector consistent with
    an accepting path an independently written stratified recursive-descent
    parser (and < or < comparison < not < atom, left associative) must accept
    and produce the same tree, node for node (payloads are compared as z3
    terms against the token they must come from).  Conversely every vector the
    reference accepts must be accepted by the real parser (z3: the class
    vector implies the disjunction of the accepting path conditions).
(c) whitespace: one iteration of the real tokeniser loop on an input whose
    first character is white space consumes exactly that character and pushes
    no token (so any number of extra spaces between tokens changes nothing).
(d) keyword look-ahead: the real tokeniser on a symbolic word [a-z][a-z0-9_.#\[\]]{0,n-1}
    returns the single token Identifier(word) on every path.
Redundant parentheses: the reference tree does not contain parentheses, so tree
equality for all vectors within the bound makes the tree (hence every verdict)
invariant under adding parentheses around any sub-expression.
C03(a) is discharged here too: on every accepting path the operands of and / or
are predicates and the operand of not is negatable.
"""
import itertools
import z3
from common import *
import tokens as TK
from treelib import safe
from mirsym.models_std import IterV

CMP = ('Equal', 'GreaterThan', 'GreaterThanOrEqual', 'LessThan', 'LessThanOrEqual')


# ---------------------------------------------------------------------------
# reference grammar on class vectors

class Reject(Exception):
    pass


class RefParser:
    def __init__(self, classes, lenient_unclosed=False):
        self.c = classes
        self.p = 0
        self.lenient = lenient_unclosed

    def peek(self):
        return self.c[self.p] if self.p < len(self.c) else None

    def take(self):
        t = self.peek()
        if t is None:
            raise Reject('eof')
        self.p += 1
        return t, self.p - 1

    def expect(self, cls):
        t, i = self.take()
        if t != cls:
            raise Reject('expected %r' % (cls,))
        return i

    def parse_all(self):
        e = self.e_and()
        if self.p != len(self.c):
            raise Reject('trailing tokens')
        return e

    # and < or < comparison < not < atom
    def e_and(self):
        l = self.e_or()
        while self.peek() == ('Operator', 'And'):
            _, i = self.take()
            r = self.e_or()
            l = self.mk_bool('And', i, l, r)
        return l

    def e_or(self):
        l = self.e_cmp()
        while self.peek() == ('Operator', 'Or'):
            _, i = self.take()
            r = self.e_cmp()
            l = self.mk_bool('Or', i, l, r)
        return l

    def e_cmp(self):
        l = self.e_not()
        while self.peek() is not None and self.peek()[0] == 'Operator' and self.peek()[1] in CMP:
            (_, op), i = self.take()
            r = self.e_not()
            l = self.mk_cmp(op, i, l, r)
        return l

    def e_not(self):
        if self.peek() == ('Miscellaneous', 'Not'):
            self.take()
            x = self.e_not()
            if x[0] not in ('bin', 'id', 'all', 'of', 'not'):
                raise Reject('not applied to a non-predicate')
            return ('not', x)
        return self.atom()

    def atom(self):
        t, i = self.take()
        k, s = t
        if k == 'Identifier':
            return ('id', i)
        if k == 'Integer':
            return ('int', i)
        if k == 'Float':
            return ('flt', i)
        if t == ('Delimiter', 'LeftParenthesis'):
            # the parenthesised part is a complete expression of its own
            depth = 1
            j = self.p
            while j < len(self.c):
                if self.c[j] == ('Delimiter', 'LeftParenthesis'):
                    depth += 1
                elif self.c[j] == ('Delimiter', 'RightParenthesis'):
                    depth -= 1
                    if depth == 0:
                        break
                j += 1
            if j >= len(self.c):
                if not self.lenient:
                    raise Reject('unclosed parenthesis')
                inner = RefParser(self.c[self.p:], self.lenient)
                e = inner.parse_all()
                self.p = len(self.c)
                return shift(e, i + 1)
            inner = RefParser(self.c[self.p:j], self.lenient)
            e = inner.parse_all()
            base = self.p
            self.p = j + 1
            return shift(e, base)
        if k == 'Modifier':
            self.expect(('Delimiter', 'LeftParenthesis'))
            _, j = self.take()
            self.expect(('Delimiter', 'RightParenthesis'))
            if self.c[j][0] != 'Identifier':
                raise Reject('cast of a non-field')
            return ('cast', s, j)
        if t == ('Match', 'All'):
            self.expect(('Delimiter', 'LeftParenthesis'))
            _, j = self.take()
            self.expect(('Delimiter', 'RightParenthesis'))
            if self.c[j][0] != 'Identifier':
                raise Reject('all() of a non-identifier')
            return ('all', j)
        if t == ('Match', 'Of'):
            self.expect(('Delimiter', 'LeftParenthesis'))
            _, j = self.take()
            self.expect(('Delimiter', 'Comma'))
            t2, n = self.take()
            if t2 != ('Integer', 'nonneg'):
                raise Reject('of() needs a non-negative count')
            self.expect(('Delimiter', 'RightParenthesis'))
            if self.c[j][0] != 'Identifier':
                raise Reject('of() of a non-identifier')
            return ('of', j, n)
        raise Reject('unexpected %r' % (t,))

    @staticmethod
    def predicate(e):
        return e[0] in ('bin', 'id', 'all', 'of', 'not')

    def mk_bool(self, op, i, l, r):
        if not (self.predicate(l) and self.predicate(r)):
            raise Reject('%s operand is not a predicate' % op)
        return ('bin', op, i, l, r)

    def mk_cmp(self, op, i, l, r):
        def kind(e):
            if e[0] == 'cast':
                return 'cast' + e[1]
            if e[0] in ('int', 'flt'):
                return e[0]
            return None
        a, b = kind(l), kind(r)
        ok = {('castFlt', 'castFlt'), ('castInt', 'castInt'), ('castFlt', 'flt'), ('flt', 'castFlt'), ('castInt', 'int'), ('int', 'castInt')}
        if op == 'Equal':
            ok = ok | {('castStr', 'castStr')}
        if (a, b) not in ok:
            raise Reject('comparison of %s and %s' % (a, b))
        return ('bin', op, i, l, r)


def shift(e, d):
    """token indices of a sub-parse are relative to its slice"""
    t = e[0]
    if t in ('id', 'int', 'flt', 'all'):
        return (t, e[1] + d)
    if t == 'cast':
        return ('cast', e[1], e[2] + d)
    if t == 'of':
        return ('of', e[1] + d, e[2] + d)
    if t == 'not':
        return ('not', shift(e[1], d))
    return ('bin', e[1], e[2] + d, shift(e[3], d), shift(e[4], d))


def ref_parse(classes, lenient=False):
    try:
        return RefParser(list(classes), lenient).parse_all()
    except Reject:
        return None


# ---------------------------------------------------------------------------
# comparing the engine's tree with the reference tree

def unbox(v):
    while isinstance(v, (BoxV,)):
        v = v.items[0]
    return v


def same_term(a, b):
    if isinstance(a, int) and isinstance(b, int):
        return a == b
    if isinstance(a, int) or isinstance(b, int):
        return False
    return a.eq(b) or z3.is_true(z3.simplify(a == b))


def tree_equal(e, ref, toks, why):
    """e: engine Expression value; ref: reference tree"""
    e = unbox(e)
    t = ref[0]
    if not isinstance(e, Adt):
        why.append('engine node %r' % (e,))
        return False
    if t == 'id':
        return e.vname == 'Identifier' and e.items[0].s == toks[ref[1]].name or why.append('identifier') and False
    if t == 'int':
        return e.vname == 'Integer' and same_term(e.items[0].v, toks[ref[1]].n) or why.append('integer') and False
    if t == 'flt':
        fv, tv_ = e.items[0].v if e.vname == 'Float' else None, toks[ref[1]].f
        same = (fv == tv_) if isinstance(fv, float) or isinstance(tv_, float) else (fv is not None and fv.eq(tv_))
        return (e.vname == 'Float' and same) or why.append('float') and False
    if t == 'cast':
        m = e.items[1] if e.vname == 'Cast' else None
        okm = m is not None and ((isinstance(m, Adt) and m.vname == ref[1]) or (isinstance(m, SymEnum)))
        return (e.vname == 'Cast' and e.items[0].s == toks[ref[2]].name and okm) or why.append('cast') and False
    if t == 'all':
        inner = unbox(e.items[1]) if e.vname == 'Match' else None
        return (e.vname == 'Match' and e.items[0].vname == 'All' and inner.vname == 'Identifier' and inner.items[0].s == toks[ref[1]].name) \
            or why.append('all()') and False
    if t == 'of':
        if e.vname != 'Match' or e.items[0].vname != 'Of':
            why.append('of()')
            return False
        inner = unbox(e.items[1])
        cnt = e.items[0].items[0]
        okc = same_term(cnt.v, toks[ref[2]].n)
        return (inner.vname == 'Identifier' and inner.items[0].s == toks[ref[1]].name and okc) or why.append('of() payload') and False
    if t == 'not':
        return (e.vname == 'Negate' and tree_equal(e.items[0], ref[1], toks, why)) or why.append('not') and False
    if t == 'bin':
        if e.vname != 'BooleanExpression':
            why.append('binary node')
            return False
        sym = e.items[1]
        if isinstance(sym, SymEnum):
            oks = sym.disc.eq(toks[ref[2]].sub['Operator'])
        else:
            oks = sym.vname == ref[1]
        return (oks and tree_equal(e.items[0], ref[3], toks, why) and tree_equal(e.items[2], ref[4], toks, why)) or why.append('operator') and False
    why.append('unknown ref node')
    return False


def solvable(e):
    e = unbox(e)
    return e.vname in ('BooleanGroup', 'BooleanExpression', 'Identifier', 'Match', 'Matrix', 'Negate', 'Nested', 'Search')


def operands_ok(e, why):
    e = unbox(e)
    if e.vname == 'BooleanExpression':
        sym = e.items[1]
        name = sym.vname if isinstance(sym, Adt) else None
        if name in ('And', 'Or'):
            if not (solvable(e.items[0]) and solvable(e.items[2])):
                why.append('and/or over a non-predicate')
                return False
        return operands_ok(e.items[0], why) and operands_ok(e.items[2], why)
    if e.vname == 'Negate':
        x = unbox(e.items[0])
        if not solvable(x):
            why.append('not over a non-predicate')
            return False
        return operands_ok(x, why)
    if e.vname == 'Match':
        return operands_ok(e.items[1], why)
    return True


def render_condition(classes, toks, model):
    """a condition string for a class vector (for native replay)"""
    out = []
    ops = {'And': 'and', 'Or': 'or', 'Equal': '==', 'GreaterThan': '>', 'GreaterThanOrEqual': '>=', 'LessThan': '<', 'LessThanOrEqual': '<='}
    i = 0
    cl = list(classes)
    while i < len(cl):
        k, s = cl[i]
        if k == 'Identifier':
            out.append('x%d' % i)
        elif k == 'Integer':
            out.append('7' if s == 'nonneg' else None)
        elif k == 'Float':
            out.append('1.5')
        elif k == 'Operator':
            out.append(ops[s])
        elif k == 'Miscellaneous':
            out.append('not')
        elif k == 'Delimiter':
            out.append({'Comma': ',', 'LeftParenthesis': '(', 'RightParenthesis': ')'}[s])
        elif k == 'Modifier':
            out.append({'Flt': 'flt', 'Int': 'int', 'Not': 'not', 'Str': 'str'}[s] + '@')
        elif k == 'Match':
            out.append({'All': 'all', 'Of': 'of'}[s] + '@')
        i += 1
    if None in out:
        return None
    txt = ''
    for j, w in enumerate(out):
        if w.endswith('@'):
            # keyword tokens need the parenthesis glued on
            if j + 1 >= len(out) or out[j + 1] != '(':
                return None
            txt += w[:-1]
        else:
            txt += w + ' '
    return txt.strip()


# ---------------------------------------------------------------------------

def main():
    ck = Check('C05', 'model_checking')
    quick = ck.tier == 'quick'
    L = 6 if quick else 7
    W = 6 if quick else 8
    ck.bounds = {'token vectors': 'length 0..%d, every token class (20 classes: delimiters, float, identifier, integer +/-, 7 operators, '
                                  '4 modifiers, not, all, of)' % L,
                 'keyword words': '[a-z][a-z0-9_.#[]]{0,%d}' % (W - 1), 'whitespace step': 'remaining input <= 4 bytes'}
    ck.assumptions = ['token payloads (names, numbers) are opaque to the parser and compared as terms',
                      'the reference grammar accepts an unclosed trailing parenthesis exactly like the parser does (the statement is silent on malformed input); '
                      'such vectors are counted separately',
                      'derived Clone / PartialEq of Token executed from MIR except Clone on symbolic tokens (structural copy)']
    ck.functions |= {'tokeniser::Token::binding_power', 'parser::parse', 'parser::parse_expr', 'parser::parse_led', 'parser::parse_nud',
                     '<Token as PartialEq>::eq', 'tokeniser::tokenise', 'tokeniser::match_ahead', 'tokeniser::consume_while'}
    units = [('bp',), ('ws',), ('kw', W)]
    for n in range(0, min(L, 3) + 1):
        units.append(('parse', n, None))
    heavy = {('Delimiter', 'LeftParenthesis'), ('Miscellaneous', 'Not')}

    def prefixes(n):
        depth = 1 if n <= 6 else 2
        out = [()]
        for d in range(depth + 2):
            nxt = []
            for p in out:
                # split further below a heavy head while tokens remain
                if len(p) < depth or (p and p[-1] in heavy and len(p) < min(n - 2, depth + 2) and all(x in heavy for x in p)):
                    nxt += [p + (c,) for c in TK.ALL_CLASSES]
                else:
                    nxt.append(p)
            if nxt == out:
                break
            out = nxt
        return out
    for n in range(4, L + 1):
        for pre in prefixes(n):
            units.append(('parse', n, pre))
    # heaviest first, so that the pool stays busy
    # longer conditions: the whole language of the reference grammar of each length, every vector run concretely through the
    # parser MIR (acceptance + tree equality); this is where precedence interactions of casts, comparisons, and/or show
    deep_hi = 10 if quick else 12
    for n in range(L + 1, deep_hi + 1):
        total = len(gen_expr(n))
        chunk = 400
        for a in range(0, total, chunk):
            units.append(('deep', n, a, min(total, a + chunk)))
    ck.bounds['long conditions'] = 'every condition the reference grammar accepts with %d..%d tokens (concrete token classes, all of them)' % (L + 1, deep_hi)
    units.sort(key=lambda u: -(u[1] * 100 + (sum(1 for c in (u[2] or ()) if c in heavy) * 10)) if u[0] == 'parse' else -10000)
    ck.run_units(units, run_unit)
    ck.finish('real Pratt parser MIR on symbolic token vectors vs stratified reference grammar; binding powers by z3; '
              'tokeniser whitespace / keyword look-ahead on symbolic input')


def run_unit(ck, unit):
    kind = unit[0]
    prog = ck.program()
    if kind == 'bp':
        uni = engine.Universe()
        ex = ck.new_engine(prog, uni=uni, summarise=())
        tok = TK.SymToken(prog, uni, 0)
        f = prog.find_impl(None, 'tokeniser::Token', 'binding_power')
        res = ex.explore(f, [Ref(Cont([tok.value]), 0)])
        val, pc, _ = summarise_paths(res)
        bp = val.v if not isinstance(val.v, int) else z3.BitVecVal(val.v, 8)
        K = lambda name: tok.kind == TK.TOKEN_VARIANTS.index(name)
        op = tok.sub['Operator']
        OP = lambda s: z3.And(K('Operator'), op == TK.SUB['Operator'][1].index(s))
        cmpc = z3.Or(*[OP(s) for s in CMP])
        obs = [
            ('comparisons bind tighter than or', z3.And(cmpc, z3.Not(z3.UGT(bp, 80)))),
            ('all comparisons share one power', z3.And(cmpc, bp != 90)),
            ('or = 80 (tighter than and)', z3.And(OP('Or'), bp != 80)),
            ('and = 70 (loosest operator)', z3.And(OP('And'), bp != 70)),
            ('not binds tighter than comparisons', z3.And(K('Miscellaneous'), z3.Not(z3.UGT(bp, 90)))),
            ('operands never bind', z3.And(z3.Or(K('Identifier'), K('Integer'), K('Float'), K('Delimiter')), bp != 0)),
            ('keywords bind below and', z3.And(z3.Or(K('Modifier'), K('Match')), z3.Not(z3.ULT(bp, 70)))),
            ('no panic', pc),
        ]
        for name, neg in obs:
            ck.obligation('binding_power: ' + name, uni, neg, sample={'form': name})
        return
    if kind == 'ws':
        uni = engine.Universe()
        ex = ck.new_engine(prog, uni=uni, summarise=('{closure#0}', '{closure#1}'))
        models_chars.install(ex)
        s = models_chars.fresh_utf8('s', 4, uni, max_width=1, min_len=1)
        b0 = s.bytes[0]
        uni.axioms.append(z3.Or(b0 == 0x20, z3.And(z3.UGE(b0, 9), z3.ULE(b0, 13))))
        fn = [f for f in prog.fns if f.kind == 'fn' and f.name.endswith('::tokenise')][0]
        state = {}

        def hook(e, fr, bb, n):
            if fr.fn is not fn:
                return
            if n == 2 and 'head' not in state:
                state['head'] = bb
            if state.get('head') == bb and n == 2 and state.get('armed'):
                toks = [v for v in fr.locals.items if isinstance(v, VecV)]
                raise engine.StopPath((iter_pos(fr), [len(v.items) for v in toks]))
        ex.block_hook = hook
        ex.explore(fn, [Ref(Cont([StrV(b'( (')]), 0)])
        state['armed'] = True
        res = ex.explore(fn, [Ref(Cont([StrV(s)]), 0)])
        bad = [r for r in res if not (r.kind == 'stop' and r.value[0] == 1 and all(n == 0 for n in r.value[1]))]
        ck.obligation('whitespace: one char consumed, no token pushed', uni, b_or(*[r.cond() for r in bad]) if bad else False,
                      sample={'form': 'tokeniser step on white space', 'paths': len(res)})
        if not res:
            ck.inconclusive.append('ws: no path')
        return
    if kind == 'kw':
        W = unit[1]
        uni = engine.Universe()
        ex = ck.new_engine(prog, uni=uni, summarise=('{closure#0}', '{closure#1}'))
        models_chars.install(ex)
        s = models_chars.fresh_utf8('w', W, uni, max_width=1, min_len=1)
        low = lambda b: z3.And(z3.UGE(b, 0x61), z3.ULE(b, 0x7a))
        uni.axioms.append(low(s.bytes[0]))
        for b in s.bytes[1:]:
            # identifier characters: letters, digits, _ . # [ ]
            uni.axioms.append(z3.Or(low(b), z3.And(z3.UGE(b, 0x30), z3.ULE(b, 0x39)), b == 0x5f, b == 0x2e, b == 0x23, b == 0x5b, b == 0x5d))
        fn = [f for f in prog.fns if f.kind == 'fn' and f.name.endswith('::tokenise')][0]
        res = ex.explore(fn, [Ref(Cont([StrV(s)]), 0)])
        bad = []
        for r in res:
            okp = False
            if r.kind == 'return' and r.value.vname == 'Ok':
                tv = r.value.items[0].items
                if len(tv) == 1 and tv[0].vname == 'Identifier':
                    w = tv[0].items[0].s
                    eq = S.s_eq(w, s)
                    rr, _ = ck.solve(uni, *r.pc, z3.Not(z3bool(eq)))
                    okp = (rr == 'unsat')
            if not okp:
                bad.append(r)
        br = ck.bridge()

        def on_sat(model):
            b = S.model_bytes(model, s)
            n = br.call(cmd='tokenise', s=list(b))
            path = ck.write_replay('kw_' + b.decode(), {'input': b.decode(), 'native': n, 'request': {'cmd': 'tokenise', 's': list(b)}})
            if n.get('tokens') == ['Identifier("%s")' % b.decode()]:
                return ('spurious', 'native tokeniser returns the identifier')
            return ('violation', path, 'the word %r is not tokenised as one identifier: %r' % (b.decode(), n))
        ck.obligation('keyword look-ahead: [a-z]{1,%d} is one identifier' % W, uni, b_or(*[r.cond() for r in bad]) if bad else False,
                      sample={'form': 'tokenise(word)', 'paths': len(res)}, on_sat=on_sat)
        ck.extra['keyword_paths'] = len(res)
        return
    if kind == 'parse':
        _, n, first = unit
        parse_unit(ck, prog, n, first)
        return
    if kind == 'deep':
        deep_unit(ck, prog, unit[1], unit[2], unit[3])
        return
    raise ValueError(unit)


def iter_pos(fr):
    for v in fr.locals.items:
        if isinstance(v, IterV) and v.kind == 'peekable' and isinstance(v.src, IterV) and v.src.kind == 'chars':
            pos = v.src.pos
            if v.extra is not None and getattr(v.extra, 'variant', 0) == 1:
                ch = v.extra.items[0]
                pos -= ch.src[2] if hasattr(ch, 'src') else 1
            return pos
    return None


class ConcTok:
    """a token with a concrete class and distinct concrete payloads"""

    def __init__(self, prog, i, cls):
        k, sub = cls
        self.i = i
        self.name = ('x%d' % i).encode()
        self.n = (100 + i) if sub != 'neg' else -(100 + i)
        self.f = 0.5 + i
        self.sub = {}
        tv = TK.TOKEN_VARIANTS
        if k in TK.SUB:
            en, vs = TK.SUB[k]
            self.sub[k] = vs.index(sub)
            payload = [Adt(en, vs.index(sub), sub, [])]
        elif k == 'Identifier':
            payload = [StrV(self.name)]
        elif k == 'Integer':
            payload = [mk_int(self.n, 'i64')]
        else:
            payload = [FP(self.f)]
        self.value = Adt('tokeniser::Token', tv.index(k), k, payload)


def deep_unit(ck, prog, n, a, b):
    lang = sorted(gen_expr(n))[a:b]
    uni = engine.Universe()
    ex = ck.new_engine(prog, uni=uni, summarise=())
    bad = []
    for cv in lang:
        toks = [ConcTok(prog, i, c) for i, c in enumerate(cv)]
        res = ex.explore('parse', [Ref(Cont([VecV([t.value for t in toks])]), 0)])
        ref = ref_parse(cv)
        why = []
        if len(res) != 1 or res[0].kind != 'return' or res[0].value.vname != 'Ok':
            bad.append((cv, 'the parser rejects it (%s)' % (res[0].value if res and res[0].kind == 'return' else (res[0].panic if res else None))))
            continue
        if not tree_equal(res[0].value.items[0], ref, toks, why) or not operands_ok(res[0].value.items[0], why):
            bad.append((cv, 'tree differs: %s' % why))
    ck.extra['long_conditions_checked'] = ck.extra.get('long_conditions_checked', 0) + len(lang)
    ck.obligations += 1
    if not bad:
        ck.discharged += 1
    else:
        br = ck.bridge()
        cv, what = bad[0]
        cond = render_condition(cv, None, None)
        nat = None
        if cond:
            names = ['x%d' % i for i in range(n) if cv[i][0] == 'Identifier']
            y = 'detection:\n' + ''.join('  %s:\n    f%s: a\n' % (x, x[1:]) for x in names) + '  condition: %s\ntrue_positives: []\ntrue_negatives: []\n' % cond
            nat = br.call(cmd='load', yaml=y, opts=None)
            nat = {'ok': nat.get('ok'), 'display': nat.get('display'), 'err': nat.get('err')}
        p = ck.write_replay(safe('deep_%d_%s' % (n, '_'.join((c[1] or c[0])[:3] for c in cv))),
                            {'classes': cv, 'condition': cond, 'what': what, 'reference_tree': str(ref_parse(cv)), 'native_load': nat})
        ck.violations.append((p, 'condition %r (%d tokens): %s; native parse: %s' % (cond, n, what, nat)))
    if len(ck.samples) < 12:
        ck.samples.append({'vectors': 'reference language, length %d [%d:%d]' % (n, a, b), 'checked': len(lang)})


def conditions_unit(ck, prog, n):
    """used by C03 / C04: the parser MIR on all token vectors of length n (no panic) and the rendered
    conditions loaded natively as whole rules"""
    uni = engine.Universe()
    ex = ck.new_engine(prog, uni=uni, summarise=())
    ex.max_paths = 400000
    toks, vec = TK.token_vector(prog, uni, n)
    res = ex.explore('parse', [Ref(Cont([vec]), 0)])
    for r in res:
        ck.blocks |= r.blocks
    label = 'conditions L=%d' % n
    panics = [r for r in res if r.kind == 'panic']
    ck.obligation(label + ': parse() never panics', uni, b_or(*[r.cond() for r in panics]) if panics else False,
                  sample={'layer': 'parse() on token vectors', 'length': n, 'paths': len(res)},
                  on_sat=lambda m: ('violation', ck.write_replay(safe(label) + '_panic', {'classes': [t.cls(m) for t in toks], 'panic': str(panics[0].panic)}),
                                    '%s: parse panics on %s' % (label, [t.cls(m) for t in toks])))
    native_conditions(ck, uni, toks, res, label)


def parse_unit(ck, prog, n, first):
    uni = engine.Universe()
    ex = ck.new_engine(prog, uni=uni, summarise=())
    ex.max_paths = 400000
    toks, vec = TK.token_vector(prog, uni, n)
    if first:
        for i, c in enumerate(first):
            uni.axioms.append(toks[i].cls_term(c))
    label = 'parse L=%d%s' % (n, '' if not first else ' first=%s' % ('/'.join('%s' % (c[1] or c[0]) for c in first)))
    res = ex.explore('parse', [Ref(Cont([vec]), 0)])
    for r in res:
        ck.blocks |= r.blocks
    ck.extra['parser_paths'] = ck.extra.get('parser_paths', 0) + len(res)
    if not coverage_complete(ck, uni, res):
        ck.inconclusive.append('%s: paths do not cover all token vectors' % label)
    panics = [r for r in res if r.kind == 'panic']
    br = None
    # ---- no panic (C04 'tokens' layer)
    ck.obligation(label + ':no-panic', uni, b_or(*[r.cond() for r in panics]) if panics else False,
                  sample={'vectors': label, 'paths': len(res)},
                  on_sat=lambda m: ('violation', ck.write_replay(safe(label) + '_panic', {'classes': [t.cls(m) for t in toks],
                                                                                          'panic': str(panics[0].panic)}),
                                    '%s: parse panics on %s' % (label, [t.cls(m) for t in toks])))
    acc = [r for r in res if r.kind == 'return' and r.value.vname == 'Ok']
    # ---- engine accepts => reference accepts with the same tree (all class vectors of the path)
    lenient_only = 0
    vectors = 0
    bad = []
    seen_acc = set()
    for r in acc:
        blocked = []
        for _round in range(64):
            rr, model = ck.solve(uni, *r.pc, *blocked)
            if rr != 'sat':
                break
            cv = tuple(t.cls(model) for t in toks)
            vectors += 1
            seen_acc.add(cv)
            blocked.append(z3.Not(z3.And(*[t.cls_term(c) for t, c in zip(toks, cv)])))
            strict = ref_parse(cv, lenient=False)
            ref = strict if strict is not None else ref_parse(cv, lenient=True)
            why = []
            if ref is None:
                bad.append((cv, 'reference rejects', r))
                continue
            if strict is None:
                lenient_only += 1
            if not tree_equal(r.value.items[0], ref, toks, why):
                bad.append((cv, 'tree differs: %s' % why, r))
            w2 = []
            if not operands_ok(r.value.items[0], w2):
                bad.append((cv, 'C03a: %s' % w2, r))
        else:
            ck.inconclusive.append('%s: more than 64 class vectors on one accepting path' % label)
    ck.extra['accepted_class_vectors'] = ck.extra.get('accepted_class_vectors', 0) + vectors
    ck.extra['accepted_only_with_unclosed_parenthesis'] = ck.extra.get('accepted_only_with_unclosed_parenthesis', 0) + lenient_only
    ck.obligations += 1
    if not bad:
        ck.discharged += 1
    else:
        for cv, what, r in bad[:3]:
            cond = None
            rr, model = ck.solve(uni, *r.pc, z3.And(*[t.cls_term(c) for t, c in zip(toks, cv)]))
            cond = render_condition(cv, toks, model) if rr == 'sat' else None
            p = ck.write_replay(safe(label + '_' + '_'.join((c[1] or c[0])[:3] for c in cv)),
                                {'classes': cv, 'what': what, 'engine_tree': str(r.value), 'reference': str(ref_parse(cv, True)), 'condition': cond})
            ck.violations.append((p, '%s: %s on tokens %s (condition %r)' % (label, what, ' '.join(c[1] or c[0] for c in cv), cond)))
    # ---- reference accepts => engine accepts  (generate the reference language of this length)
    accept_cond = b_or(*[r.cond() for r in acc]) if acc else False
    missing = []
    count = 0
    for cv in reference_language(n, first):
        count += 1
        if cv in seen_acc:
            continue
        rr, _ = ck.solve(uni, z3.And(*[t.cls_term(c) for t, c in zip(toks, cv)]), z3.Not(z3bool(accept_cond)))
        if rr == 'sat':
            missing.append(cv)
    ck.extra['reference_language_vectors'] = ck.extra.get('reference_language_vectors', 0) + count
    ck.obligations += 1
    if not missing:
        ck.discharged += 1
    else:
        cv = missing[0]
        p = ck.write_replay(safe(label + '_rejected'), {'classes': cv, 'reference': str(ref_parse(cv))})
        ck.violations.append((p, '%s: the grammar accepts %s but the parser rejects it' % (label, ' '.join(c[1] or c[0] for c in cv))))
    native_conditions(ck, uni, toks, res, label)
    if len(ck.samples) < 12 and acc:
        ck.samples.append({'vectors': label, 'accepting_paths': len(acc), 'class_vectors_compared': vectors, 'reference_vectors': count})


def native_conditions(ck, uni, toks, res, label):
    """model validation + C03/C04 at rule level: a sample of the parser's paths is rendered to condition text and the
    *whole rule* is loaded natively (every identifier defined): no panic; the rule loads iff the parser MIR accepted
    and the tree is a predicate.  For accepted conditions each identifier in turn is left undefined: the loader must
    then reject the rule."""
    import random
    rnd = random.Random(ck.seed + len(res))
    br = ck.bridge()
    acc = [r for r in res if r.kind == 'return' and r.value.vname == 'Ok']
    rej = [r for r in res if r.kind == 'return' and r.value.vname == 'Err']
    sample = acc[:25] + (rnd.sample(rej, 25) if len(rej) > 25 else rej)
    n = len(toks)
    for r in sample:
        rr, model = ck.solve(uni, *r.pc)
        if rr != 'sat':
            continue
        cv = tuple(t.cls(model) for t in toks)
        cond = render_condition(cv, toks, model)
        if not cond:
            continue
        names = ['x%d' % i for i in range(n) if cv[i][0] == 'Identifier']
        # identifiers that are operands of int()/flt()/str()/not() are field names, not identifiers of the rule
        fields = {('x%d' % (i + 2)) for i in range(n - 2) if cv[i][0] == 'Modifier'}
        idents = [x for x in names if x not in fields]

        def rule_text(defined):
            return 'detection:\n' + ''.join('  %s:\n    f: a\n' % x for x in defined) + '  ZZ:\n    f: a\n  condition: %s\ntrue_positives: []\ntrue_negatives: []\n' % cond
        y = rule_text(idents)
        nat = br.call(cmd='load', yaml=y, opts=None)
        ck.extra['conditions_loaded_natively'] = ck.extra.get('conditions_loaded_natively', 0) + 1
        if 'panic' in nat:
            ck.obligations += 1
            p = ck.write_replay(safe(label + '_load_' + cond), {'rule': y, 'native': nat})
            ck.violations.append((p, 'loading a rule with condition %r panics: %s' % (cond, nat['panic'][:160])))
            continue
        accepted = r.value.vname == 'Ok'
        pred = accepted and solvable(r.value.items[0])
        if bool(nat.get('ok')) != bool(pred):
            # the tokeniser may read the rendered text differently (e.g. a keyword followed by an identifier); only
            # report when the native token classes are the ones we rendered
            tk = br.call(cmd='tokenise', s=list(cond.encode()))
            if tk.get('ok') and len(tk['tokens']) == n:
                ck.inconclusive.append('%s: condition %r: parser MIR says %s, native loader says %s' % (label, cond, 'accept' if pred else 'reject', nat))
            continue
        ck.replays_ok += 1
        if not pred:
            continue
        for miss in idents[:3]:
            y2 = rule_text([x for x in idents if x != miss])
            nat2 = br.call(cmd='load', yaml=y2, opts=None)
            ck.obligations += 1
            if 'panic' in nat2 or nat2.get('ok'):
                # accepted although `miss` is not defined: evaluate to show what happens
                ev = br.call(cmd='eval', yaml=y2, opts=None, doc={'$obj': [[[102], {'$str': [97]}]]}, mode='flat') if nat2.get('ok') else nat2
                p = ck.write_replay(safe(label + '_undef_' + cond), {'rule': y2, 'undefined': miss, 'native_load': nat2, 'native_eval': ev})
                ck.violations.append((p, 'condition %r mentions %s which the rule does not define, yet the rule loads (evaluation: %s)' % (cond, miss, ev)))
            else:
                ck.discharged += 1


_LANG = {}


def reference_language(n, first):
    """all class vectors of length n the (strict) reference grammar accepts,
    generated from the grammar (not by filtering all 20^n vectors)"""
    if n not in _LANG:
        _LANG[n] = sorted(gen_expr(n))
    out = _LANG[n]
    if first:
        out = [cv for cv in out if tuple(cv[:len(first)]) == tuple(first)]
    return out


from functools import lru_cache

LP, RP, CM = ('Delimiter', 'LeftParenthesis'), ('Delimiter', 'RightParenthesis'), ('Delimiter', 'Comma')
ID = ('Identifier', None)


@lru_cache(maxsize=None)
def gen_atoms(n):
    """(vector, kind) for atoms of exactly n tokens; kind: pred | int | flt | castInt | castFlt | castStr | castNot"""
    out = set()
    if n == 1:
        out.add(((ID,), 'pred'))
        out.add(((('Integer', 'neg'),), 'int'))
        out.add(((('Integer', 'nonneg'),), 'int'))
        out.add(((('Float', None),), 'flt'))
    if n == 4:
        for m in ('Flt', 'Int', 'Not', 'Str'):
            out.add(((('Modifier', m), LP, ID, RP), 'cast' + m))
        out.add(((('Match', 'All'), LP, ID, RP), 'pred'))
    if n == 6:
        out.add(((('Match', 'Of'), LP, ID, CM, ('Integer', 'nonneg'), RP), 'pred'))
    if n >= 3:
        for v, k in gen_level(n - 2, 0):
            out.add(((LP,) + v + (RP,), k))
    return frozenset(out)


@lru_cache(maxsize=None)
def gen_level(n, level):
    """(vector, kind) of exactly n tokens at precedence level: 0 and, 1 or, 2 cmp, 3 not/atom"""
    out = set()
    if level == 3:
        out |= set(gen_atoms(n))
        if n >= 2:
            for v, k in gen_level(n - 1, 3):
                if k == 'pred':
                    out.add(((('Miscellaneous', 'Not'),) + v, 'pred'))
        return frozenset(out)
    out |= set(gen_level(n, level + 1))
    if level in (0, 1):
        op = ('Operator', 'And' if level == 0 else 'Or')
        for a in range(1, n - 1):
            for lv, lk in gen_level(a, level):
                if lk != 'pred':
                    continue
                for rv, rk in gen_level(n - 1 - a, level + 1):
                    if rk == 'pred':
                        out.add((lv + (op,) + rv, 'pred'))
    else:
        pairs = {('castFlt', 'castFlt'), ('castInt', 'castInt'), ('castFlt', 'flt'), ('flt', 'castFlt'), ('castInt', 'int'), ('int', 'castInt')}
        for a in range(1, n - 1):
            for lv, lk in gen_level(a, 3):
                for rv, rk in gen_level(n - 1 - a, 3):
                    for o in CMP:
                        if (lk, rk) in pairs or (o == 'Equal' and (lk, rk) == ('castStr', 'castStr')):
                            out.add((lv + (('Operator', o),) + rv, 'pred'))
    return frozenset(out)


def gen_expr(n):
    if n == 0:
        return set()
    return {v for v, k in gen_level(n, 0)}


if __name__ == '__main__':
    run_check(main)
