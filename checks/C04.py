"""C04  Loading arbitrary text returns a rule or an error, never a panic.

Real MIR of the textual layers is executed over symbolic UTF-8 strings:
  ident      IdentifierParser::into_identifier on every string of <= N bytes
             (well-formed UTF-8, 1..W byte characters): every path must end in
             Return(Ok | Err); slicing uses Rust's real panic conditions.
  tok-step   one iteration of the tokeniser loop from an arbitrary remaining
             input of <= N bytes: no panic, and the iteration either returns or
             consumes at least one character (progress => termination; the
             loop state besides the iterator is the push-only token vector).
  tok-whole  the whole tokeniser on every string of <= n bytes (n small), with
             the token vectors of a sample of paths compared with the native
             tokeniser (model validation).
  conditions parse() (real MIR) on all token vectors of length <= 4/5: no panic;
             a sample of its paths is rendered to condition text and the whole
             rule is loaded natively in catch_unwind (longer vectors: C05's run).
  shapes     [auxiliary, concrete - not solver-decided] every YAML value shape
             in every position of a rule is loaded natively in catch_unwind.
serde_yaml / libyaml themselves are not encoded (outside the claim).
"""
import itertools
import z3
from common import *
from mirsym import models_chars
from mirsym.models_std import IterV
from treelib import safe

TRUE = z3.BitVecVal(0, 64)


def main():
    ck = Check('C04', 'model_checking')
    quick = ck.tier == 'quick'
    N = 5 if quick else 8
    W = 2 if quick else 4
    nw = 2 if quick else 3
    ck.bounds = {'identifier patterns': '<= %d bytes, %d-byte characters at most' % (N, W),
                 'tokeniser step': 'remaining input <= %d bytes, %d-byte characters at most' % (N, W),
                 'tokeniser whole': '<= %d bytes' % nw, 'number literals': '<= %d decimal digits, both signs (whole tokeniser)' % (20 if quick else 24),
                 'yaml shapes (auxiliary, concrete)': '8 value shapes x 7 positions'}
    ck.assumptions = [
        'char predicates exact on ASCII, uninterpreted (consistent) above; to_lowercase exact on ASCII, arbitrary result otherwise',
        'str::parse::<i64> exact; str::parse::<f64> uninterpreted total; RegexBuilder::build: validity uninterpreted, no panic inside the regex crate',
        'error constructors and format! build opaque values',
        'the tokeniser loop carries no state besides the char iterator and the push-only token vector (so one iteration from an arbitrary suffix covers every iteration)',
        'serde_yaml / unsafe-libyaml and native stack depth are outside the claim',
    ]
    ck.functions |= {'identifier::<String as IdentifierParser>::into_identifier', 'tokeniser::<String as Tokeniser>::tokenise',
                     'tokeniser::consume_while', 'tokeniser::match_ahead', 'tokeniser closures'}
    units = [('ident', N, W, 'plain'), ('tok-step', N, W), ('tok-whole', nw, min(W, 2)), ('tok-digits', 20 if quick else 24), ('shapes',)] + \
        [('tok-after', pre, 2 if quick else 3) for pre in ('A\u00e9', '\u00e9', 'a \u00e9\u00e9', 'na\u00ef', '(\u00e9', '1\u00e9')] + [('conditions', n) for n in range(0, (4 if quick else 5) + 1)]
    ck.run_units(units, run_unit)
    ck.finish('symbolic execution of the textual layers over symbolic UTF-8 strings; every path must return Ok/Err')


def find_fn(prog, suffix):
    c = [f for f in prog.fns if f.kind == 'fn' and f.name.endswith(suffix) and 'closure' not in f.name]
    if len(c) != 1:
        raise Unsupported('cannot find MIR body *%s (%d candidates)' % (suffix, len(c)))
    return c[0]


def model_string(uni, model, s):
    return S.model_bytes(model, s)


def run_unit(ck, unit):
    kind = unit[0]
    prog = ck.program()
    br = ck.bridge()
    if kind == 'ident':
        _, N, W, _ = unit
        uni = engine.Universe()
        ex = ck.new_engine(prog, uni=uni, summarise=())
        models_chars.install(ex)
        s = models_chars.fresh_utf8('s', N, uni, max_width=W)
        fn = find_fn(prog, '::into_identifier')
        results = ex.explore(fn, [StrV(s)])
        for r in results:
            ck.blocks |= r.blocks
        if not coverage_complete(ck, uni, results):
            ck.inconclusive.append('ident: paths do not cover all strings')
        panics = [r for r in results if r.kind == 'panic']
        ck.extra['ident_paths'] = len(results)
        # one obligation per distinct panic site + one for "every path returns Ok/Err"
        bad_ret = [r for r in results if r.kind == 'return' and not (isinstance(r.value, Adt) and r.value.name == 'Result')]
        ck.obligation('ident:returns Ok|Err on every path', uni, b_or(*[r.cond() for r in bad_ret]) if bad_ret else False,
                      sample={'layer': 'into_identifier', 'bytes<=': N, 'paths': len(results)})
        sites = {}
        for r in panics:
            sites.setdefault((r.panic.site, r.panic.msg[:60]), []).append(r)
        for (site, msg), rs in sorted(sites.items()):
            def on_sat(model, site=site, msg=msg):
                b = model_string(uni, model, s)
                n = br.call(cmd='ident', s=list(b))
                path = ck.write_replay('ident_' + safe(site[-12:] + '_' + b.hex()), {'layer': 'into_identifier', 'input_bytes': list(b),
                                       'input': b.decode('utf-8', 'replace'), 'native': n, 'mir_panic': msg,
                                       'request': {'cmd': 'ident', 's': list(b)}})
                if 'panic' not in n:
                    # the model of to_lowercase is exact on ASCII only: the solver's witness may use a character whose real
                    # lower-case form has another length than the one it assumed.  Search the neighbourhood natively: the same
                    # text with each non-ASCII character replaced by the characters whose lower-casing changes the UTF-8 length.
                    alt = neighbour_panic(br, b)
                    if alt is None:
                        return ('spurious', 'native into_identifier(%r) does not panic' % b)
                    b, n = alt
                    path = ck.write_replay('ident_' + safe(site[-12:] + '_' + b.hex()), {'layer': 'into_identifier', 'input_bytes': list(b),
                                           'input': b.decode('utf-8', 'replace'), 'native': n, 'mir_panic': msg,
                                           'found_by': 'native search around the solver witness (special-casing characters)',
                                           'request': {'cmd': 'ident', 's': list(b)}})
                ck.replays_ok += 1
                key = 'ident-panic:lone-quote'
                kf = ck.known_match(key)
                if kf and b in (b'"', b"'", b'i"', b"i'"):
                    return ('known', '%s :: %s' % (key, kf['desc']))
                return ('violation', path, 'into_identifier(%r) panics: %s' % (b.decode('utf-8', 'replace'), n['panic']))
            ck.obligation('ident:no-panic@%s' % site.split(' ')[-1], uni, b_or(*[r.cond() for r in rs]), on_sat=on_sat)
        if not panics:
            ck.obligation('ident:no-panic', uni, False)
        # model validation: a sample of Ok/Err paths against the native parser
        validate_ident(ck, uni, s, results, br)
        return
    if kind == 'tok-step':
        _, N, W = unit
        uni = engine.Universe()
        ex = ck.new_engine(prog, uni=uni, summarise=('{closure#0}', '{closure#1}'))
        models_chars.install(ex)
        s = models_chars.fresh_utf8('s', N, uni, max_width=W, min_len=1)
        fn = find_fn(prog, '::tokenise')
        state = {}

        def hook(e, fr, bb, n):
            if fr.fn is not fn:
                return
            if n == 2 and 'head' not in state:
                state['head'] = bb
            if state.get('head') == bb and n == 2:
                # the loop head is entered again: one iteration is complete
                raise engine.StopPath(iter_position(fr))
        # find the loop head on a concrete run first ("a b": two iterations)
        ex.block_hook = hook
        ex.explore(fn, [Ref(Cont([StrV(b'( (')]), 0)])
        if 'head' not in state:
            raise Unsupported('could not identify the tokeniser loop head')
        results = ex.explore(fn, [Ref(Cont([StrV(s)]), 0)])
        for r in results:
            ck.blocks |= r.blocks
        if not coverage_complete(ck, uni, results):
            ck.inconclusive.append('tok-step: paths do not cover all inputs')
        ck.extra['tok_step_paths'] = len(results)
        panics = [r for r in results if r.kind == 'panic']
        stuck = [r for r in results if r.kind == 'stop' and not (isinstance(r.value, int) and r.value >= 1)]

        def on_sat(model, what):
            b = model_string(uni, model, s)
            n = br.call(cmd='tokenise', s=list(b))
            path = ck.write_replay('tok_' + safe(what + '_' + b.hex()), {'layer': 'tokenise', 'input_bytes': list(b), 'native': n,
                                                                        'request': {'cmd': 'tokenise', 's': list(b)}})
            if 'panic' in n:
                ck.replays_ok += 1
                return ('violation', path, 'tokenise(%r) panics: %s' % (b, n['panic']))
            return ('spurious', 'native tokenise(%r) does not panic' % b)
        ck.obligation('tok-step:no-panic', uni, b_or(*[r.cond() for r in panics]) if panics else False,
                      sample={'layer': 'tokenise (one loop iteration)', 'bytes<=': N, 'paths': len(results)},
                      on_sat=lambda m: on_sat(m, 'panic'))
        ck.obligation('tok-step:progress (>= 1 char consumed or return)', uni, b_or(*[r.cond() for r in stuck]) if stuck else False,
                      on_sat=lambda m: ('violation', ck.write_replay('tok_noprogress', {'input_bytes': list(model_string(uni, m, s))}),
                                        'tokeniser loop iteration without progress'))
        # vacuity: some iteration completes and some returns
        if not any(r.kind == 'stop' for r in results) or not any(r.kind == 'return' for r in results):
            ck.inconclusive.append('tok-step: vacuity witness failed')
        return
    if kind == 'tok-whole':
        _, n, W = unit
        uni = engine.Universe()
        ex = ck.new_engine(prog, uni=uni, summarise=('{closure#0}', '{closure#1}'))
        models_chars.install(ex)
        s = models_chars.fresh_utf8('s', n, uni, max_width=W)
        fn = find_fn(prog, '::tokenise')
        results = ex.explore(fn, [Ref(Cont([StrV(s)]), 0)])
        for r in results:
            ck.blocks |= r.blocks
        if not coverage_complete(ck, uni, results):
            ck.inconclusive.append('tok-whole: paths do not cover all inputs')
        panics = [r for r in results if r.kind == 'panic']
        ck.extra['tok_whole_paths'] = len(results)
        ck.obligation('tok-whole:returns Ok|Err on every path', uni, b_or(*[r.cond() for r in panics]) if panics else False,
                      sample={'layer': 'tokenise (whole)', 'bytes<=': n, 'paths': len(results)})
        validate_tokens(ck, uni, s, results, br)
        return
    if kind == 'tok-after':
        # the whole tokeniser on <concrete prefix with multi-byte characters><k symbolic bytes>: what the loop carries from
        # one iteration to the next (a position, a column, ...) meets every continuation
        _, prefix, k = unit
        pb = prefix.encode('utf-8')
        uni = engine.Universe()
        ex = ck.new_engine(prog, uni=uni, summarise=('{closure#0}', '{closure#1}'))
        models_chars.install(ex)
        t = models_chars.fresh_utf8('t', k, uni, max_width=2)
        s = S.SStr([z3.BitVecVal(c, 8) for c in pb] + list(t.bytes), t.length + len(pb), 'after')
        fn = find_fn(prog, '::tokenise')
        results = ex.explore(fn, [Ref(Cont([StrV(s)]), 0)])
        for r in results:
            ck.blocks |= r.blocks
        panics = [r for r in results if r.kind == 'panic']

        def on_sat(model, t=t, pb=pb):
            text = pb + S.model_bytes(model, t)
            n = br.call(cmd='tokenise', s=list(text))
            path = ck.write_replay('tok_after_' + text.hex(), {'layer': 'tokenise', 'input_bytes': list(text), 'input': text.decode('utf-8', 'replace'),
                                                              'native': n, 'request': {'cmd': 'tokenise', 's': list(text)}})
            if 'panic' in n:
                ck.replays_ok += 1
                return ('violation', path, 'tokenise(%r) panics: %s' % (text.decode('utf-8', 'replace'), n['panic'][:160]))
            return ('spurious', 'native tokenise(%r) does not panic' % text)
        ck.obligation('tok-after %r:returns Ok|Err on every path' % prefix, uni, b_or(*[r.cond() for r in panics]) if panics else False,
                      sample={'layer': 'tokenise after a prefix', 'prefix': prefix, 'bytes<=': k, 'paths': len(results)}, on_sat=on_sat)
        return
    if kind == 'tok-digits':
        # a number literal of up to D decimal digits (optionally negative): beyond the i64 range the tokeniser must
        # answer Err, whatever way it turns digits into a number
        _, D = unit
        for sign in ('', '-'):
            uni = engine.Universe()
            ex = ck.new_engine(prog, uni=uni, summarise=('{closure#0}', '{closure#1}'))
            models_chars.install(ex)
            d = S.fresh('digits', D, uni.axioms, ascii_only=True, min_len=1)
            for b in d.bytes:
                uni.axioms.append(z3.And(z3.UGE(b, 0x30), z3.ULE(b, 0x39)))
            s = S.SStr([z3.BitVecVal(c, 8) for c in sign.encode()] + list(d.bytes), d.length + len(sign), 'number')
            fn = find_fn(prog, '::tokenise')
            results = ex.explore(fn, [Ref(Cont([StrV(s)]), 0)])
            for r in results:
                ck.blocks |= r.blocks
            panics = [r for r in results if r.kind == 'panic']

            def on_sat(model, sign=sign, d=d):
                first = S.model_bytes(model, d)
                for digits in [first, b'9223372036854775808', b'99999999999999999999', b'18446744073709551616', b'9223372036854775807']:
                    text = sign.encode() + digits
                    n = br.call(cmd='tokenise', s=list(text))
                    path = ck.write_replay('tok_digits_' + text.decode(), {'layer': 'tokenise', 'input': text.decode(), 'native': n,
                                                                            'request': {'cmd': 'tokenise', 's': list(text)}})
                    if 'panic' in n:
                        ck.replays_ok += 1
                        return ('violation', path, 'tokenise(%r) panics: %s' % (text.decode(), n['panic'][:160]))
                return ('spurious', 'native tokenise does not panic on the model or on the boundary literals')
            ck.obligation('tok-digits%s:returns Ok|Err on every path' % (' negative' if sign else ''), uni,
                          b_or(*[r.cond() for r in panics]) if panics else False,
                          sample={'layer': 'tokenise (number literal)', 'digits<=': D, 'paths': len(results)}, on_sat=on_sat)
        return
    if kind == 'shapes':
        shapes_sweep(ck, br)
        return
    if kind == 'conditions':
        import C05
        C05.conditions_unit(ck, prog, unit[1])
        return
    raise ValueError(unit)


_SPECIAL = None


def special_chars():
    """characters whose lower-case form has a different UTF-8 length"""
    global _SPECIAL
    if _SPECIAL is None:
        _SPECIAL = [chr(cp) for cp in range(0x80, 0x3000) if len(chr(cp).lower().encode('utf-8')) != len(chr(cp).encode('utf-8'))][:40]
    return _SPECIAL


def neighbour_panic(br, b):
    try:
        txt = b.decode('utf-8')
    except UnicodeDecodeError:
        return None
    pos = [i for i, c in enumerate(txt) if ord(c) >= 0x80]
    tried = 0
    for i in pos:
        for sc in special_chars():
            cand = (txt[:i] + sc + txt[i + 1:]).encode('utf-8')
            tried += 1
            n = br.call(cmd='ident', s=list(cand))
            if 'panic' in n:
                return cand, n
            if tried > 200:
                return None
    return None


def iter_position(fr):
    """byte position of the Peekable<Chars> of a tokenise frame (position of
    the next char that peek()/next() would deliver)"""
    for v in fr.locals.items:
        if isinstance(v, IterV) and v.kind == 'peekable' and isinstance(v.src, IterV) and v.src.kind == 'chars':
            pos = v.src.pos
            if v.extra is not None and getattr(v.extra, 'variant', 0) == 1:
                ch = v.extra.items[0]
                pos -= ch.src[2] if hasattr(ch, 'src') else 1
            return pos
    return None


def token_repr(v):
    """engine Token value -> the native Debug text for concrete payloads"""
    n = v.vname
    if n in ('Delimiter', 'Operator', 'Modifier', 'Miscellaneous', 'Match'):
        return '%s(%s)' % (n, v.items[0].vname)
    return n


def validate_tokens(ck, uni, s, results, br):
    import random
    rnd = random.Random(ck.seed)
    sample = results if len(results) <= 60 else rnd.sample(results, 60)
    for r in sample:
        if r.kind != 'return':
            continue
        res, model = ck.solve(uni, *r.pc)
        if res != 'sat':
            continue
        b = S.model_bytes(model, s)
        n = br.call(cmd='tokenise', s=list(b))
        if r.value.vname == 'Err':
            okv = (n.get('ok') is False)
        else:
            toks = [token_repr(t) for t in r.value.items[0].items]
            nat = [t.split('(')[0] + ('(' + t.split('(')[1] if t.split('(')[0] in ('Delimiter', 'Operator', 'Modifier', 'Miscellaneous', 'Match') else '')
                   for t in n.get('tokens', [])]
            okv = n.get('ok') is True and toks == nat
        if okv:
            ck.replays_ok += 1
        else:
            ck.inconclusive.append('model validation: tokenise(%r): engine %s vs native %s' % (b, r.value, n))


def validate_ident(ck, uni, s, results, br):
    import random
    rnd = random.Random(ck.seed)
    sample = results if len(results) <= 60 else rnd.sample(results, 60)
    for r in sample:
        if r.kind != 'return':
            continue
        res, model = ck.solve(uni, *r.pc)
        if res != 'sat':
            continue
        b = S.model_bytes(model, s)
        n = br.call(cmd='ident', s=list(b))
        if 'panic' in n:
            ck.inconclusive.append('model validation: into_identifier(%r) panics natively but not in the model' % b)
            continue
        if r.value.vname == 'Err':
            # regex validity / float parsing are uninterpreted: an Err path may be an Ok natively only for those
            okv = True
        else:
            ident = r.value.items[0]
            pat = ident.items[1]
            okv = n.get('ok') is True and n['pattern']['t'] == pat.vname
            if n.get('ok') is False:
                okv = pat.vname in ('Regex', 'FEqual', 'FGreaterThan', 'FGreaterThanOrEqual', 'FLessThan', 'FLessThanOrEqual')
        if okv:
            ck.replays_ok += 1
        else:
            ck.inconclusive.append('model validation: into_identifier(%r): engine %s vs native %s' % (b, r.value, n))


SHAPES = {'null': 'null', 'bool': 'true', 'int': '1', 'float': '1.5', 'string': "'a'", 'seq': "['a', 1]", 'map': '{f: a}',
          'tagged': '!x a', 'empty-seq': '[]', 'empty-map': '{}', 'nested-seq': '[[a]]', 'big': '18446744073709551615'}


def shapes_sweep(ck, br):
    """auxiliary, concrete: every YAML shape in every position; the loader must answer Ok or Err"""
    positions = {
        'document': '%s\n',
        'detection': 'detection: %s\ntrue_positives: []\ntrue_negatives: []\n',
        'identifier': 'detection:\n  A: %s\n  condition: A\ntrue_positives: []\ntrue_negatives: []\n',
        'condition': 'detection:\n  A: {f: a}\n  condition: %s\ntrue_positives: []\ntrue_negatives: []\n',
        'value': 'detection:\n  A:\n    f: %s\n  condition: A\ntrue_positives: []\ntrue_negatives: []\n',
        'list-member': 'detection:\n  A:\n    f: [a, %s]\n  condition: A\ntrue_positives: []\ntrue_negatives: []\n',
        'quantified-member': 'detection:\n  A:\n    all(f): [a, %s]\n  condition: A\ntrue_positives: []\ntrue_negatives: []\n',
        'cast-value': 'detection:\n  A:\n    int(f): %s\n  condition: A\ntrue_positives: []\ntrue_negatives: []\n',
        'key': 'detection:\n  A:\n    ? %s\n    : a\n  condition: A\ntrue_positives: []\ntrue_negatives: []\n',
        'true_positives': 'detection:\n  A: {f: a}\n  condition: A\ntrue_positives: %s\ntrue_negatives: []\n',
        'optimised': 'optimised: %s\ndetection:\n  A: {f: a}\n  condition: A\ntrue_positives: []\ntrue_negatives: []\n',
    }
    n = 0
    for pn, tmpl in positions.items():
        for sn, sh in SHAPES.items():
            yaml = tmpl % sh
            for fv in (False, True):
                r = br.call(cmd='load', yaml=yaml, opts=None, from_value=fv)
                n += 1
                if 'panic' in r:
                    p = ck.write_replay('shape_%s_%s' % (pn, sn), {'rule': yaml, 'from_value': fv, 'native': r})
                    ck.violations.append((p, 'loading panics for shape %s at position %s: %s' % (sn, pn, r['panic'][:120])))
    import templates
    for nm, yaml in templates.limit_rules().items():
        for fv in (False, True):
            r = br.call(cmd='load', yaml=yaml, opts=None, from_value=fv)
            n += 1
            if 'panic' in r:
                p = ck.write_replay('limit_' + ''.join(c if c.isalnum() else '_' for c in nm), {'rule': yaml, 'from_value': fv, 'native': r})
                ck.violations.append((p, 'loading panics (%s): %s' % (nm, r['panic'][:120])))
                break
    ck.extra['yaml_shape_loads_concrete'] = n


if __name__ == '__main__':
    run_check(main)
