"""Symbolic token vectors for the parser-level checks (C03a, C04, C05)."""
import z3
from common import *

TOKEN_VARIANTS = ['Delimiter', 'Float', 'Identifier', 'Integer', 'Operator', 'Modifier', 'Miscellaneous', 'Match']
SUB = {'Delimiter': ('DelSym', ['Comma', 'LeftParenthesis', 'RightParenthesis']),
       'Operator': ('BoolSym', ['And', 'Equal', 'GreaterThan', 'GreaterThanOrEqual', 'LessThan', 'LessThanOrEqual', 'Or']),
       'Modifier': ('ModSym', ['Flt', 'Int', 'Not', 'Str']),
       'Miscellaneous': ('MiscSym', ['Not']),
       'Match': ('MatchSym', ['All', 'Of'])}


class SymToken:
    def __init__(self, prog, uni, i):
        self.i = i
        tv = prog.enum_variants('tokeniser::Token')
        if tv != TOKEN_VARIANTS:
            raise Unsupported('Token variants changed: %r' % (tv,))
        self.kind = z3.BitVec('tok%d.kind' % i, 64)
        uni.axioms.append(z3.ULT(self.kind, len(tv)))
        self.sub = {}
        payload = {}
        for vn, (en, vs) in SUB.items():
            real = prog.enum_variants('tokeniser::' + en)
            if real != vs:
                raise Unsupported('%s variants changed: %r' % (en, real))
            d = z3.BitVec('tok%d.%s' % (i, en), 64)
            uni.axioms.append(z3.ULT(d, len(vs)))
            self.sub[vn] = d
            payload[tv.index(vn)] = PCont([SymEnum(en, d, {})])
        self.f = z3.FP('tok%d.f' % i, z3.Float64())
        self.n = z3.BitVec('tok%d.n' % i, 64)
        self.name = ('x%d' % i).encode()
        payload[tv.index('Float')] = PCont([FP(self.f)])
        payload[tv.index('Integer')] = PCont([BV(self.n, 'i64')])
        payload[tv.index('Identifier')] = PCont([StrV(self.name)])
        self.value = SymEnum('tokeniser::Token', self.kind, payload)

    def cls(self, model):
        """reference-level class of the token under a model"""
        k = TOKEN_VARIANTS[model.eval(self.kind, model_completion=True).as_long()]
        if k in SUB:
            s = SUB[k][1][model.eval(self.sub[k], model_completion=True).as_long()]
            return (k, s)
        if k == 'Integer':
            n = norm_int(model.eval(self.n, model_completion=True).as_long(), 'i64')
            return (k, 'neg' if n < 0 else 'nonneg')
        return (k, None)

    def cls_term(self, c):
        """z3 condition: this token has reference class c"""
        k, s = c
        e = self.kind == TOKEN_VARIANTS.index(k)
        if k in SUB:
            e = z3.And(e, self.sub[k] == SUB[k][1].index(s))
        elif k == 'Integer':
            e = z3.And(e, (self.n < 0) if s == 'neg' else (self.n >= 0))
        return e


ALL_CLASSES = [('Delimiter', s) for s in SUB['Delimiter'][1]] + [('Float', None), ('Identifier', None), ('Integer', 'neg'), ('Integer', 'nonneg')] + \
    [('Operator', s) for s in SUB['Operator'][1]] + [('Modifier', s) for s in SUB['Modifier'][1]] + [('Miscellaneous', 'Not')] + \
    [('Match', s) for s in SUB['Match'][1]]


def token_vector(prog, uni, L):
    toks = [SymToken(prog, uni, i) for i in range(L)]
    vec = VecV([t.value for t in toks])
    return toks, vec
