"""C14  Rule serialisation round-trips (tau-engine's own part, partial claim).

The round trip is  Rule --Serialize--> serde data model --serde_yaml emitter-->
text --serde_yaml scanner/parser--> serde data model --Deserialize--> Rule.
serde_yaml's emitter / scanner are third-party code (not in tau-engine's MIR);
they are replaced by the *channel contract* "a map of (key, value) entries that
goes in comes out with equal keys and equal values, in some order".  What is
tau-engine's own is executed from the MIR of /repo's working tree:

  ser-detection   derived <Detection as Serialize>::serialize against a recording
                  serializer: emits exactly {condition: expression_raw} + identifiers_raw
  ser-rule        derived <Rule as Serialize>::serialize (recursing into the above):
                  detection, true_positives, true_negatives carry the rule's own values
  de-detection    the hand-written visitor <Detection as Deserialize>::visit_map against a
                  map access that delivers symbolic entries in every order: Ok exactly when the
                  entries are loadable, and then expression_raw / identifiers_raw are the
                  delivered condition / entries and expression / identifiers are
                  parse(tokenise(condition)) / parse_identifier(value) of exactly those
  de-rule         derived <Rule as Deserialize>::visit_map: fields arrive in any order
  optimise-raw    Rule::optimise under every switch combination never touches the raw parts
                  the serialiser emits, nor the examples

Condition text, identifier names, entry order, presence and the outcomes of
parse_identifier / tokenise / parse / is_solvable are solver variables; z3
decides each specification over all of them.  Composition (DESIGN 3/C14): the
entries emitted are the raw parts recorded at load; the channel returns them;
the visitor rebuilds the same Detection from them (load is deterministic, C12).

The channel contract itself is validated *concretely* (labelled as such): every
template rule and a list of quoting-sensitive rules is serialised natively
(serde_yaml::to_string and to_value, unoptimised and optimised), loaded again
(from_str, from_value) and the exported trees / examples are compared.
"""
import re
import itertools
import z3
from common import *
from mirsym.models_std import MODELS, some, none, ok, err, deref_all, as_str
from mirsym import strings as S
import templates


def front(pattern):
    def deco(fn):
        MODELS.insert(0, (re.compile(pattern), fn))
        return fn
    return deco


def find_visit_map(prog, ty):
    for f in prog.fns:
        if f.name.endswith('::visit_map') and '{closure' not in f.name:
            info = prog.impl_info(f.name)
            if info and info[1] == ty:
                return f
    return None


_installed = []


def install_models():
    if _installed:
        return
    _installed.append(1)

    # ---- recording serializer (the serde data model) ------------------------
    @front(r'^<__S as .*Serializer>::serialize_map$')
    def m_ser_map(ex, callee, args):
        return ok(Opaque('sermap', {'entries': [], 'kind': 'map'}))

    @front(r'^<__S as .*Serializer>::serialize_struct$')
    def m_ser_struct(ex, callee, args):
        return ok(Opaque('sermap', {'entries': [], 'kind': 'struct', 'name': as_str(args[1])}))

    def ser_value(ex, v):
        """what a recording serializer sees of a value: nested crate types are serialised through their own impls"""
        v = deref_all(v)
        if isinstance(v, Adt) and v.name in ('Detection', 'Rule'):
            f = ex.prog.find_impl('Serialize', v.name, 'serialize')
            if f is None:
                raise Unsupported('no Serialize impl for %s' % v.name)
            r = ex.call_mir(f, [Ref(Cont([v]), 0), Opaque('serializer')])
            if not (isinstance(r, Adt) and r.vname == 'Ok'):
                raise Unsupported('nested serialisation did not return Ok: %r' % (r,))
            return r.items[0]
        return v

    @front(r'^<<__S as .*Serializer>::Serialize(Map|Struct) as Serialize(Map|Struct)>::(serialize_entry|serialize_field)::<')
    def m_ser_entry(ex, callee, args):
        m = deref_all(args[0])
        m.data['entries'].append((deref_all(args[1]), ser_value(ex, args[2])))
        return ok(Tup([]))

    @front(r'^<<__S as .*Serializer>::Serialize(Map|Struct) as Serialize(Map|Struct)>::(serialize_key|serialize_value)::<')
    def m_ser_kv(ex, callee, args):
        m = deref_all(args[0])
        if callee.split('::<')[0].endswith('serialize_key'):
            m.data['pending'] = deref_all(args[1])
        else:
            m.data['entries'].append((m.data.pop('pending'), ser_value(ex, args[1])))
        return ok(Tup([]))

    @front(r'^<<__S as .*Serializer>::Serialize(Map|Struct) as Serialize(Map|Struct)>::skip_field$')
    def m_ser_skip(ex, callee, args):
        return ok(Tup([]))

    @front(r'^<&*HashMap<std::string::String, serde_yaml::Value> as Serialize>::serialize::<.*FlatMapSerializer<')
    def m_flat(ex, callee, args):
        hm = deref_all(args[0])
        flat = args[1]
        m = deref_all(flat.items[0])
        if not (isinstance(hm, Opaque) and hm.kind in ('rawmap', 'symmap')):
            raise Unsupported('flattened map is %r' % (hm,))
        for k, v in hm.data:
            m.data['entries'].append((StrV(k) if not isinstance(k, StrV) else k, v.items[0] if type(v) is Cont else v))
        return ok(Tup([]))

    @front(r'^<<__S as .*Serializer>::Serialize(Map|Struct) as Serialize(Map|Struct)>::end$')
    def m_end(ex, callee, args):
        d = deref_all(args[0]).data
        return ok(Opaque('serdone', d))

    # ---- map access (what a deserializer delivers) ---------------------------
    def ma_of(v):
        ma = deref_all(v)
        if not (isinstance(ma, Adt) and ma.name == 'MA'):
            raise Unsupported('MapAccess is %r' % (ma,))
        return ma

    @front(r"^<(V|__A) as MapAccess<'_>>::next_key::<(.*)>$")
    def m_next_key(ex, callee, args):
        ma = ma_of(args[0])
        ents = ma.items[1].data
        if ma.items[0] >= len(ents):
            return ok(none())
        k = ents[ma.items[0]][0]
        want = callee.rsplit('::<', 1)[1][:-1]
        if want == 'std::string::String':
            return ok(some(StrV(k.s)))
        if want.endswith('__Field'):
            # the derived field identifier: its visit_str is in the MIR
            f = None
            for g in ex.prog.fns:
                if g.name.endswith('::visit_str') and (ex.prog.impl_info(g.name) or (None, None))[1] == 'Rule':
                    f = g
            if f is None:
                raise Unsupported('no field visitor for Rule')
            r = ex.call_mir(f, [Opaque('fieldvisitor'), Ref(Cont([StrV(k.s)]), 0)])
            if isinstance(r, Adt) and r.vname == 'Ok':
                return ok(some(r.items[0]))
            return r
        raise Unsupported('next_key::<%s>' % want)

    @front(r"^<(V|__A) as MapAccess<'_>>::next_value::<(.*)>$")
    def m_next_value(ex, callee, args):
        ma = ma_of(args[0])
        ents = ma.items[1].data
        v = ents[ma.items[0]][1]
        ma.items[0] += 1
        want = callee.rsplit('::<', 1)[1][:-1] if not callee.endswith('>>') else callee.split('next_value::<', 1)[1][:-1]
        kind = ('string' if isinstance(v, StrV) else 'bool' if (isinstance(v, bool) or z3.is_bool(v)) else
                v.kind if isinstance(v, Opaque) else 'vec' if isinstance(v, VecV) else v.name if isinstance(v, Adt) else '?')
        wanted = {'std::string::String': 'string', 'bool': 'bool', 'serde_yaml::Value': None, 'Detection': 'Detection',
                  'Vec<serde_yaml::Value>': 'vec', 'std::vec::Vec<serde_yaml::Value>': 'vec'}
        if want == 'rule::_::_serde::de::IgnoredAny' or want.endswith('IgnoredAny'):
            return ok(Opaque('ignored'))
        if want not in wanted:
            raise Unsupported('next_value::<%s>' % want)
        if wanted[want] is not None and wanted[want] != kind:
            return err(Opaque('deerr', ('type', want, kind)))
        if want == 'serde_yaml::Value' and isinstance(v, StrV):
            return ok(Opaque('yaml', {'str': v}))
        return ok(v)

    @front(r"^<<(V|__A) as MapAccess<'_>>::Error as .*de::Error>::(custom|duplicate_field|missing_field|unknown_field|invalid_length)(::<.*>)?$")
    def m_deerr(ex, callee, args):
        name = re.search(r'Error>::(\w+)', callee).group(1)
        return Opaque('deerr', (name, [a for a in args if isinstance(a, StrV)]))

    @front(r"^rule::_::_serde::__private\d*::de::missing_field::<")
    def m_missing(ex, callee, args):
        want = callee.split('missing_field::<', 1)[1]
        return err(Opaque('deerr', ('missing_field', [args[0]])))

    # ---- HashMap<String, V> with symbolic keys --------------------------------
    def slot(ex, m, k):
        for ent in m.data:
            if ex.branch(S.s_eq(ent[0], k)):
                return ent
        return None

    HM = r'HashMap::<std::string::String, (Expression|serde_yaml::Value)(, .*)?>'

    @front(r'^%s::(new|with_capacity)$|^<HashMap<std::string::String, (Expression|serde_yaml::Value).*> as Default>::default$' % HM)
    def m_hm_new(ex, callee, args):
        return Opaque('symmap', [])

    def symmap(v, what):
        m = deref_all(v)
        if not (isinstance(m, Opaque) and m.kind == 'symmap'):
            raise Unsupported('%s on %r' % (what, m))
        return m

    @front(r'^%s::contains_key::<' % HM)
    def m_hm_ck(ex, callee, args):
        return slot(ex, symmap(args[0], callee), as_str(args[1])) is not None

    @front(r'^%s::get::<' % HM)
    def m_hm_get(ex, callee, args):
        e = slot(ex, symmap(args[0], callee), as_str(args[1]))
        return some(Ref(e[1], 0)) if e is not None else none()

    @front(r'^%s::insert$' % HM)
    def m_hm_ins(ex, callee, args):
        m = symmap(args[0], callee)
        k = as_str(args[1])
        e = slot(ex, m, k)
        if e is not None:
            o = e[1].items[0]
            e[1].items[0] = args[2]
            return some(o)
        m.data.append((k, Cont([args[2]])))
        return none()

    @front(r'^%s::clear$' % HM)
    def m_hm_clear(ex, callee, args):
        m = deref_all(args[0])
        if isinstance(m, Opaque) and m.kind == 'idents':
            m.data['cleared'] = True
            return Tup([])
        del symmap(args[0], callee).data[:]
        return Tup([])

    @front(r'^<bool as Default>::default$')
    def m_bool_default(ex, callee, args):
        return False

    @front(r'^<serde_yaml::Value as Clone>::clone$')
    def m_yclone(ex, callee, args):
        return deref_all(args[0])

    # ---- Rule::optimise plumbing over the (opaque) parsed identifier map -----------
    @front(r'^<HashMap<std::string::String, Expression> as IntoIterator>::into_iter$')
    def m_into_iter(ex, callee, args):
        m = deref_all(args[0])
        if isinstance(m, Opaque) and m.kind == 'idents':
            return Opaque('identsiter', {'of': m, 'maps': []})
        raise Unsupported('into_iter of %r' % (m,))

    @front(r'^<std::collections::hash_map::IntoIter<std::string::String, Expression> as Iterator>::map::<')
    def m_iter_map(ex, callee, args):
        it = args[0]
        if isinstance(it, Opaque) and it.kind == 'identsiter':
            return Opaque('identsiter', {'of': it.data['of'], 'maps': it.data['maps'] + [args[1]]})
        raise Unsupported('map over %r' % (it,))

    @front(r'^<(std::iter::)?Map<std::collections::hash_map::IntoIter<std::string::String, Expression>, .*> as Iterator>::collect::<HashMap<std::string::String, Expression>>$')
    def m_collect(ex, callee, args):
        it = args[0]
        if isinstance(it, Opaque) and it.kind == 'identsiter':
            return Opaque('idents', {'from': it.data['of'], 'maps': len(it.data['maps'])})
        raise Unsupported('collect of %r' % (it,))


# ---------------------------------------------------------------------------------
def key_strings(uni, k, cap):
    keys = [S.fresh('k%d' % i, cap, uni.axioms) for i in range(k)]
    for i in range(k):
        uni.axioms.append(z3.Not(z3bool(S.s_eq(keys[i], b'condition'))))
        for j in range(i):
            uni.axioms.append(z3.Not(z3bool(S.s_eq(keys[i], keys[j]))))
    return keys


def z3bool(x):
    if x is True or x is False:
        return z3.BoolVal(x)
    return x


def val_eq(a, b):
    """equality of two recorded values: strings by content, everything else by identity"""
    if type(a) is Cont and len(a.items) == 1:
        a = a.items[0]
    if isinstance(a, Opaque) and a.kind == 'yaml' and 'str' in (a.data or {}):
        a = a.data['str']
    if isinstance(b, Opaque) and b.kind == 'yaml' and 'str' in (b.data or {}):
        b = b.data['str']
    if isinstance(a, StrV) and isinstance(b, StrV):
        return z3bool(S.s_eq(a.s, b.s))
    if isinstance(a, VecV) and isinstance(b, VecV):
        return z3.BoolVal(len(a.items) == len(b.items) and all(x is y for x, y in zip(a.items, b.items)))
    if isinstance(a, bool) or isinstance(b, bool) or z3.is_bool(a) or z3.is_bool(b):
        if (isinstance(a, bool) or z3.is_bool(a)) and (isinstance(b, bool) or z3.is_bool(b)):
            return z3bool(a) == z3bool(b)
        return z3.BoolVal(False)
    return z3.BoolVal(a is b)


def key_of(k):
    return k.s if isinstance(k, StrV) else k


def same_entries(got, want):
    """z3 term: the recorded (key, value) list `got` is `want` up to order (keys of `want` are pairwise distinct)"""
    if len(got) != len(want):
        return z3.BoolVal(False)
    cs = []
    for wk, wv in want:
        cs.append(z3.Or(*[z3.And(z3bool(S.s_eq(key_of(gk), key_of(wk))), val_eq(gv, wv)) for gk, gv in got]) if got else z3.BoolVal(False))
    return z3.And(*cs) if cs else z3.BoolVal(True)


def make_detection(prog, uni, k, cap_cond, cap_key):
    fields = prog.structs.get('Detection')
    if fields != ['expression', 'identifiers', 'expression_raw', 'identifiers_raw']:
        raise Unsupported('Detection fields changed: %r' % (fields,))
    cond = StrV(S.fresh('cond', cap_cond, uni.axioms))
    keys = key_strings(uni, k, cap_key)
    yamls = [Opaque('yaml', {'i': i}) for i in range(k)]
    raw = Opaque('rawmap', [(keys[i], yamls[i]) for i in range(k)])
    expr = Opaque('expr')
    idents = Opaque('idents', {})
    det = Adt('Detection', None, None, [expr, idents, cond, raw])
    return det, cond, keys, yamls, expr, idents


def decide(ck, label, uni, res, spec_of, on_sat=None, expect=None):
    """no path may panic; every returning path must satisfy spec_of(value) (a z3 term or python bool)"""
    for r in res:
        ck.blocks |= r.blocks
    if not coverage_complete(ck, uni, res):
        ck.inconclusive.append(label + ': coverage')
    panics = [r for r in res if r.kind == 'panic']

    def rep(kind):
        def f(model):
            return on_sat(model, kind) if on_sat else ('violation', None, label + ': ' + kind)
        return f
    ck.obligation(label + ':no-panic', uni, b_or(*[r.cond() for r in panics]) if panics else False, on_sat=rep('panic'))
    bad = []
    for r in res:
        if r.kind != 'return':
            continue
        s = spec_of(r.value)
        if s is True:
            continue
        bad.append(b_and(r.cond(), z3.Not(z3bool(s))))
    ck.obligation(label + ':spec', uni, b_or(*bad) if bad else False, sample={'unit': label, 'paths': len(res)}, on_sat=rep('spec'), cvc5=True)
    # vacuity: the expected kind of outcome is reachable (a unit whose paths all vanish would pass everything)
    if expect is not None:
        reach = [r.cond() for r in res if r.kind == 'return' and isinstance(r.value, Adt) and (r.value.vname == expect or (expect == 'Rule' and r.value.name == 'Rule'))]
        st, _ = ck.solve(uni, b_or(*reach) if reach else False)
        if st != 'sat':
            ck.inconclusive.append(label + ': vacuous, no feasible path returns ' + expect)
        else:
            ck.extra['reachability_witnesses'] = ck.extra.get('reachability_witnesses', 0) + 1


# ---------------------------------------------------------------------------------
def unit_ser_detection(ck, k):
    prog = ck.program()
    uni = engine.Universe()
    install_models()
    quick = ck.tier == 'quick'
    det, cond, keys, yamls, expr, idents = make_detection(prog, uni, k, 6 if quick else 10, 3 if quick else 5)
    ex = ck.new_engine(prog, uni=uni, summarise=())
    f = prog.find_impl('Serialize', 'Detection', 'serialize')
    ck.functions.add('<Detection as Serialize>::serialize')
    res = ex.explore(f, [Ref(Cont([det]), 0), Opaque('serializer')])
    want = [(b'condition', cond)] + [(keys[i], yamls[i]) for i in range(k)]

    def spec(v):
        if not (isinstance(v, Adt) and v.vname == 'Ok' and isinstance(v.items[0], Opaque) and v.items[0].kind == 'serdone'):
            return False
        return same_entries(v.items[0].data['entries'], want)
    label = 'ser-detection k=%d' % k

    def on_sat(model, kind):
        return native_roundtrip_witness(ck, label, kind, model, cond.s, keys)
    decide(ck, label, uni, res, spec, on_sat, expect='Ok')


def unit_ser_rule(ck, unit):
    k, p, n = unit
    prog = ck.program()
    uni = engine.Universe()
    install_models()
    det, cond, keys, yamls, expr, idents = make_detection(prog, uni, k, 4, 3)
    fields = prog.structs.get('Rule')
    if fields != ['optimised', 'detection', 'true_positives', 'true_negatives']:
        raise Unsupported('Rule fields changed: %r' % (fields,))
    optimised = z3.Bool('optimised')
    tp = VecV([Opaque('yaml', {'tp': i}) for i in range(p)])
    tn = VecV([Opaque('yaml', {'tn': i}) for i in range(n)])
    rule = Adt('Rule', None, None, [optimised, det, tp, tn])
    ex = ck.new_engine(prog, uni=uni, summarise=())
    f = prog.find_impl('Serialize', 'Rule', 'serialize')
    ck.functions.add('<Rule as Serialize>::serialize')
    res = ex.explore(f, [Ref(Cont([rule]), 0), Opaque('serializer')])
    dwant = [(b'condition', cond)] + [(keys[i], yamls[i]) for i in range(k)]

    def spec(v):
        if not (isinstance(v, Adt) and v.vname == 'Ok' and isinstance(v.items[0], Opaque) and v.items[0].kind == 'serdone'):
            return False
        ents = v.items[0].data['entries']
        cs = []
        names = [as_str(kk) for kk, _ in ents]
        for need in (b'detection', b'true_positives', b'true_negatives'):
            if names.count(need) != 1:
                return False
        for kk, vv in ents:
            nm = as_str(kk)
            if nm == b'detection':
                if not (isinstance(vv, Opaque) and vv.kind == 'serdone'):
                    return False
                cs.append(same_entries(vv.data['entries'], dwant))
            elif nm == b'true_positives':
                cs.append(val_eq(vv, tp))
            elif nm == b'true_negatives':
                cs.append(val_eq(vv, tn))
            elif nm == b'optimised':
                pass        # the flag is not part of what the property asks to be preserved
            else:
                return False    # a field the loader does not know
        return z3.And(*cs)
    label = 'ser-rule k=%d tp=%d tn=%d' % unit

    def on_sat(model, kind):
        return native_roundtrip_witness(ck, label, kind, model, cond.s, keys)
    decide(ck, label, uni, res, spec, on_sat, expect='Ok')


def make_tokens(prog, names):
    tv = prog.enum_variants('tokeniser::Token')
    toks = []
    for i, nm in enumerate(names):
        if i:
            toks.append(Adt('tokeniser::Token', tv.index('Operator'), 'Operator',
                            [Adt('tokeniser::BoolSym', prog.enum_variants('tokeniser::BoolSym').index('And'), 'And', [])]))
        toks.append(Adt('tokeniser::Token', tv.index('Identifier'), 'Identifier', [StrV(nm)]))
    return VecV(toks)


def unit_de_detection(ck, unit):
    """unit = (k, order, cond_kind, use): k identifier entries; `order` = positions of the entries (a permutation, the
    condition entry is index k); cond_kind in present / absent / twice / notstring; `use` = which names the condition mentions"""
    k, order, cond_kind, use = unit
    prog = ck.program()
    uni = engine.Universe()
    install_models()
    quick = ck.tier == 'quick'
    cond = StrV(S.fresh('cond', 6 if quick else 10, uni.axioms))
    keys = [S.fresh('k%d' % i, 3 if quick else 5, uni.axioms) for i in range(k)]
    for i in range(k):
        uni.axioms.append(z3.Not(z3bool(S.s_eq(keys[i], b'condition'))))
    yamls = [Opaque('yaml', {'i': i}) for i in range(k)]
    exprs = [Opaque('expr_of', {'i': i}) for i in range(k)]
    pid_ok = [z3.Bool('pid_ok%d' % i) for i in range(k)]
    tok_ok, parse_ok, solvable = z3.Bool('tok_ok'), z3.Bool('parse_ok'), z3.Bool('solvable')
    stray = S.fresh('stray', 3, uni.axioms)
    names = [keys[i] for i in use if i < k] + ([stray] if k in use else [])
    tokens = make_tokens(prog, names)
    parsed = Opaque('parsed')
    ents = []
    for slot_ in order:
        if slot_ < k:
            ents.append((StrV(keys[slot_]), yamls[slot_]))
        elif cond_kind == 'present':
            ents.append((StrV(b'condition'), cond))
        elif cond_kind == 'twice':
            ents.append((StrV(b'condition'), cond))
            ents.append((StrV(b'condition'), cond))
        elif cond_kind == 'notstring':
            ents.append((StrV(b'condition'), Opaque('yaml', {'seq': 1})))
    ma = Adt('MA', None, None, [0, Opaque('entries', ents)])
    ex = ck.new_engine(prog, uni=uni, summarise=())

    def hook(e, callee, args):
        base = callee.split('::<')[0]
        if base.endswith('parse_identifier'):
            v = deref_all(args[0])
            if isinstance(v, Opaque) and v.kind == 'yaml' and 'i' in v.data:
                i = v.data['i']
                if e.branch(pid_ok[i]):
                    return (ok(exprs[i]),)
                return (err(Opaque('tauerr', i)),)
            raise Unsupported('parse_identifier of %r' % (v,))
        if base.endswith('>::tokenise') or base == 'tokenise':
            s = as_str(args[0])
            if s is not cond.s:
                raise Unsupported('tokenise of something that is not the condition')
            if e.branch(tok_ok):
                return (ok(clone_tokens(tokens)),)
            return (err(Opaque('tauerr', 'tok')),)
        if base in ('parse', 'parser::parse') or base.endswith('::parser::parse'):
            if e.branch(parse_ok):
                return (ok(parsed),)
            return (err(Opaque('tauerr', 'parse')),)
        if base.endswith('is_solvable'):
            return (solvable,)
        return None
    ex.call_hook = hook
    f = find_visit_map(prog, 'Detection')
    if f is None:
        raise Unsupported('no visit_map for Detection')
    ck.functions.add('<Detection as Deserialize>::deserialize::DetectionVisitor::visit_map')
    res = ex.explore(f, [Opaque('visitor'), ma])
    distinct = z3.And(*[z3.Not(z3bool(S.s_eq(keys[i], keys[j]))) for i in range(k) for j in range(i)]) if k > 1 else z3.BoolVal(True)
    defined = z3.And(*[z3.Or(*[z3bool(S.s_eq(nm, kk)) for kk in keys]) if keys else z3.BoolVal(False) for nm in names]) if names else z3.BoolVal(True)
    loadable = z3.And(z3.BoolVal(cond_kind == 'present'), distinct, *pid_ok, tok_ok, defined, parse_ok, solvable)
    fields = prog.structs.get('Detection')

    def spec(v):
        if not isinstance(v, Adt) or v.vname not in ('Ok', 'Err'):
            return False
        if v.vname == 'Err':
            return z3.Not(loadable)
        d = v.items[0]
        if not (isinstance(d, Adt) and d.name == 'Detection'):
            return False
        get = dict(zip(fields, d.items))
        raw, ids = get['identifiers_raw'], get['identifiers']
        if not (isinstance(raw, Opaque) and raw.kind == 'symmap' and isinstance(ids, Opaque) and ids.kind == 'symmap'):
            return False
        if not isinstance(get['expression_raw'], StrV):
            return False
        return z3.And(loadable, z3.BoolVal(get['expression'] is parsed), z3bool(S.s_eq(get['expression_raw'].s, cond.s)),
                      same_entries(raw.data, [(keys[i], yamls[i]) for i in range(k)]),
                      same_entries(ids.data, [(keys[i], exprs[i]) for i in range(k)]))
    label = 'de-detection k=%d order=%s cond=%s use=%s' % (k, ''.join(map(str, order)), cond_kind, ''.join(map(str, use)))

    def on_sat(model, kind):
        return native_roundtrip_witness(ck, label, kind, model, cond.s, keys)
    can_load, _ = ck.solve(uni, loadable)
    decide(ck, label, uni, res, spec, on_sat, expect='Ok' if can_load == 'sat' else 'Err')


def clone_tokens(v):
    return VecV([Adt(t.name, t.variant, t.vname, list(t.items)) for t in v.items])


def unit_de_rule(ck, unit):
    present, order, extra = unit
    prog = ck.program()
    uni = engine.Universe()
    install_models()
    fields = prog.structs.get('Rule')
    det = Adt('Detection', None, None, [Opaque('expr'), Opaque('idents', {}), StrV(b'A'), Opaque('rawmap', [])])
    optimised = z3.Bool('optimised')
    tp = VecV([Opaque('yaml', {'tp': 0})])
    tn = VecV([Opaque('yaml', {'tn': 0}), Opaque('yaml', {'tn': 1})])
    vals = {'optimised': optimised, 'detection': det, 'true_positives': tp, 'true_negatives': tn}
    ents = []
    for name in order:
        if name in present:
            ents.append((StrV(name.encode()), vals[name]))
    if extra == 'unknown':
        ents.insert(1 if ents else 0, (StrV(S.fresh('other', 4, uni.axioms)), Opaque('yaml', {'x': 0})))
    elif extra in vals and extra in present:
        ents.append((StrV(extra.encode()), vals[extra]))
    ma = Adt('MA', None, None, [0, Opaque('entries', ents)])
    ex = ck.new_engine(prog, uni=uni, summarise=())
    f = find_visit_map(prog, 'Rule')
    if f is None:
        raise Unsupported('no visit_map for Rule')
    ck.functions.add('<Rule as Deserialize>::deserialize::__Visitor::visit_map')
    res = ex.explore(f, [Opaque('visitor'), ma])
    dup = extra in vals and extra in present
    complete = all(x in present for x in ('detection', 'true_positives', 'true_negatives')) and not dup
    other_is_field = z3.BoolVal(False)
    if extra == 'unknown':
        other = ents[1 if len(ents) > 1 else 0][0].s
        other_is_field = z3.Or(*[z3bool(S.s_eq(other, nm.encode())) for nm in fields])

    def spec(v):
        if not isinstance(v, Adt) or v.vname not in ('Ok', 'Err'):
            return False
        if v.vname == 'Err':
            # an error is right when a mandatory field is missing / duplicated (or the stray key collides with a field name)
            return z3.Or(z3.BoolVal(not complete), other_is_field)
        r = v.items[0]
        if not (isinstance(r, Adt) and r.name == 'Rule'):
            return False
        get = dict(zip(fields, r.items))
        opt_want = optimised if 'optimised' in present else z3.BoolVal(False)
        return z3.Or(other_is_field, z3.And(z3.BoolVal(complete), z3.BoolVal(get['detection'] is det or (isinstance(get['detection'], Adt) and get['detection'].items[0] is det.items[0])),
                                           val_eq(get['true_positives'], tp), val_eq(get['true_negatives'], tn), val_eq(get['optimised'], opt_want)))
    label = 'de-rule present=%s order=%s extra=%s' % (','.join(x[:3] for x in present), ''.join(x[0] + x[-1] for x in order), extra)
    decide(ck, label, uni, res, spec, expect='Ok' if complete else 'Err')


def unit_optimise_raw(ck, k):
    prog = ck.program()
    uni = engine.Universe()
    install_models()
    det, cond, keys, yamls, expr, idents = make_detection(prog, uni, k, 4, 3)
    tp = VecV([Opaque('yaml', {'tp': 0})])
    tn = VecV([Opaque('yaml', {'tn': 0})])
    was = z3.Bool('was_optimised')
    rule = Adt('Rule', None, None, [was, det, tp, tn])
    sw = [z3.Bool(n) for n in ('coalesce', 'shake', 'rewrite', 'matrix')]
    ofields = prog.structs.get('Optimisations')
    if sorted(ofields or []) != ['coalesce', 'matrix', 'rewrite', 'shake']:
        raise Unsupported('Optimisations fields changed: %r' % (ofields,))
    opts = Adt('Optimisations', None, None, [sw[('coalesce', 'shake', 'rewrite', 'matrix').index(n)] for n in ofields])
    ex = ck.new_engine(prog, uni=uni, summarise=())

    def hook(e, callee, args):
        base = callee.split('::<')[0]
        for nm in ('coalesce', 'shake', 'rewrite', 'matrix'):
            if base == nm or base.endswith('optimiser::' + nm):
                return (Opaque('expr', {'via': nm}),)
        return None
    ex.call_hook = hook
    f = prog.find_impl(None, 'Rule', 'optimise')
    ck.functions.add('Rule::optimise')
    res = ex.explore(f, [rule, opts])
    dfields = prog.structs.get('Detection')

    def spec(v):
        if not (isinstance(v, Adt) and v.name == 'Rule'):
            return False
        get = dict(zip(prog.structs.get('Rule'), v.items))
        d = get['detection']
        if not (isinstance(d, Adt) and d.name == 'Detection'):
            return False
        dg = dict(zip(dfields, d.items))
        raw = dg['identifiers_raw']
        if not (isinstance(raw, Opaque) and raw.kind == 'rawmap'):
            return False
        if not isinstance(dg['expression_raw'], StrV):
            return False
        return z3.And(z3bool(S.s_eq(dg['expression_raw'].s, cond.s)), same_entries(raw.data, [(keys[i], yamls[i]) for i in range(k)]),
                      val_eq(get['true_positives'], tp), val_eq(get['true_negatives'], tn))
    decide(ck, 'optimise-raw k=%d' % k, uni, res, spec, expect='Rule')


# ---------------------------------------------------------------------------------
QUOTING = ['*x', 'x*', '*x*', '*', '?re', '?a.*b', '"quoted"', "'q'", '"*x"', 'i*x*', 'i"Q"', '1', '-1', '1.5', '1e3', '.5', '0x1F', '0o17', '+1',
           'true', 'false', 'True', 'yes', 'no', 'on', 'off', 'null', '~', 'Null', '', ' ', ' lead', 'trail ', 'a: b', 'a #b', '#x', '- x', '[x]', '{x}',
           '>=5', '>1', '<1', '<=1.5', '=3', '!x', '&x', '%x', '@x', '`x', '|', '>', 'a\nb', 'a\tb', 'a\\b', "it's", 'say "hi"', '\u00e9', '\u00e9*', '*\u4e2d*',
           '2001-01-01', '1:30', '1_000', '.inf', '.nan', '-.inf', '0.0', '-0.0', '18446744073709551615', '9223372036854775808', '-9223372036854775808',
           '1.0', '00', '01', '1.', 'e1', '<<', '=', '---', '...', '? x', ': x', 'x:', 'x: ', "'", '"', "''", '""']


def yq(s):
    return "'" + s.replace("'", "''") + "'" if '\n' not in s and '\t' not in s and '\\' not in s else '"' + s.replace('\\', '\\\\').replace('"', '\\"').replace('\n', '\\n').replace('\t', '\\t') + '"'


def quoting_rules():
    out = []
    for v in QUOTING:
        out.append(('value ' + repr(v), 'detection:\n  A:\n    f: %s\n  condition: A\ntrue_positives:\n- f: %s\ntrue_negatives: []\n' % (yq(v), yq(v))))
        out.append(('list ' + repr(v), 'detection:\n  A:\n    f:\n    - %s\n    - zz\n  condition: A\ntrue_positives: []\ntrue_negatives:\n- g: %s\n' % (yq(v), yq(v))))
        if v and v.strip() == v and '\n' not in v and '\t' not in v and not v.startswith(('"', "'")):
            out.append(('key ' + repr(v), 'detection:\n  A:\n    %s: v\n  condition: A\ntrue_positives: []\ntrue_negatives: []\n' % yq(v)))
    for v in ('1', '1.5', 'true', 'null', '~', '-3', '18446744073709551615', '1e3', '.5', '0x1F'):
        out.append(('plain ' + v, 'detection:\n  A:\n    f: %s\n    g: [%s, x]\n  condition: A\ntrue_positives:\n- f: %s\ntrue_negatives: []\n' % (v, v, v)))
    for name in ('A', 'a_b', 'x1', 'android', 'nothing', 'order', 'of1', 'all_x', 'Condition', 'true', '1', 'null', 'a b', '~'):
        c = name if re.match(r'^[A-Za-z_][A-Za-z0-9_]*$', name) else None
        if c:
            out.append(('ident ' + name, 'detection:\n  %s:\n    f: v\n  B:\n    g: 1\n  condition: %s and not B\ntrue_positives: []\ntrue_negatives: []\n' % (yq(name), c)))
    # plain scalars that YAML does not read as strings, as identifier names, as keys inside blocks and inside examples
    for nm in ('true', 'false', 'null', 'True', 'yes'):
        out.append(('plain ident ' + nm, 'detection:\n  %s:\n    f: v\n  condition: %s\ntrue_positives: []\ntrue_negatives: []\n' % (nm, nm)))
    for key in ('true', '1', '~', '1.5', 'null'):
        out.append(('plain example key ' + key, 'detection:\n  A:\n    f: v\n  condition: A\ntrue_positives:\n- %s: x\n  f: v\ntrue_negatives:\n- f: w\n  %s: y\n' % (key, key)))
        out.append(('plain block key ' + key, 'detection:\n  A:\n    g:\n      %s: x\n  condition: A\ntrue_positives: []\ntrue_negatives: []\n' % key))
        out.append(('plain field key ' + key, 'detection:\n  A:\n    %s: x\n  condition: A\ntrue_positives: []\ntrue_negatives: []\n' % key))
    for cnd in ('A  and   B', ' A or B ', 'A and (B or A)', 'not A', 'all(A)', 'of(A, 1)', 'int(f) > 1 and A', 'str(f) == str(g) or B', '(A)', 'A and not(B)'):
        out.append(('cond ' + cnd, 'detection:\n  A:\n    f: v\n    h: w\n  B:\n    g: 1\n  condition: %s\ntrue_positives: []\ntrue_negatives: []\n' % yq(cnd)))
    return out


def native_compare(a, b):
    """exported rule descriptions must be identical"""
    for key in ('expr', 'idents', 'display'):
        if a.get(key) != b.get(key):
            return key
    return None


def native_roundtrip_one(br, yaml, opts):
    r = br.call(cmd='roundtrip', yaml=yaml, opts=opts)
    if r.get('panic'):
        return 'panic: ' + r['panic'][:200], r
    if not r.get('ok'):
        fv = r.get('from_value')
        if isinstance(fv, dict) and 'err' not in fv:
            return 'from_value accepts a rule that from_str rejects (%s)' % str(r.get('err'))[:120], r
        return None, r            # does not load: nothing to round-trip
    for how in ('text', 'value', 'text_value'):
        x = r.get(how) or {}
        if not x.get('ok'):
            return '%s: the serialised rule does not load: %s' % (how, str(x.get('err'))[:200]), r
        d = native_compare(r['orig'], x['rule'])
        if d:
            return '%s: reloaded rule differs in %s' % (how, d), r
        if not x.get('examples_equal'):
            return '%s: reloaded examples differ' % how, r
        if x.get('verdicts') != r.get('verdicts'):
            return '%s: verdicts on the example documents differ' % how, r
    if r.get('from_value') is not None:
        if 'err' in r['from_value']:
            return 'from_value rejects a rule that from_str loads: %s' % str(r['from_value']['err'])[:160], r
        d = native_compare(r['orig'], r['from_value'])
        if d:
            return 'from_value(text as value) differs from from_str(text) in %s' % d, r
        if not r.get('from_value_examples_equal', True):
            return 'from_value(text as value) has other examples than from_str(text)', r
    return None, r


def native_roundtrip_witness(ck, label, kind, model, cond, keys):
    """a solver witness against one of the MIR units is confirmed through the real round trip: a rule with the witness's
    condition / identifier names (where they are loadable) and a fixed family of rules, serialised and re-loaded natively"""
    br = ck.bridge()
    names = [S.model_bytes(model, kk) for kk in keys]
    cands = []
    ok_names = [nm.decode('latin1') for nm in names if re.match(rb'^[A-Za-z_][A-Za-z0-9_]*$', nm)]
    base_names = ok_names or ['A']
    ids = ''.join('  %s:\n    f%d: v%d\n' % (yq(nm), i, i) for i, nm in enumerate(base_names))
    cands.append('detection:\n%s  condition: %s\ntrue_positives:\n- f0: v0\ntrue_negatives:\n- f0: zz\n' % (ids, ' or '.join(base_names)))
    cands += [y for _, y in quoting_rules()[:40]]
    for y in cands:
        for opts in (None, [True, True, True, True]):
            why, r = native_roundtrip_one(br, y, opts)
            if why:
                path = ck.write_replay(safe_name(label + '_' + kind), {'rule': y, 'opts': opts, 'native': r, 'what': why,
                                                                         'request': {'cmd': 'roundtrip', 'yaml': y, 'opts': opts}})
                ck.replays_ok += 1
                return ('violation', path, '%s: %s (%s)' % (label, why, kind))
    return ('spurious', 'the native round trip of rules built from the witness agrees')


def unit_native(ck, chunk):
    br = ck.bridge()
    for name, y, optlist in chunk:
        for opts in optlist:
            why, r = native_roundtrip_one(br, y, opts)
            ck.extra['native_roundtrips'] = ck.extra.get('native_roundtrips', 0) + 1
            if r.get('ok'):
                ck.extra['native_roundtrips_loaded'] = ck.extra.get('native_roundtrips_loaded', 0) + 1
            if why and why.startswith('from_value rejects a rule that from_str loads') and 'invalid type' in why and 'expected a string' in why:
                key = 'from_value:non-string-plain-scalar-where-a-string-is-expected'
                kf = ck.known_match(key)
                if kf:
                    msg = '%s :: %s' % (key, kf['desc'])
                    if msg not in ck.known_hits:
                        ck.known_hits.append(msg)
                    continue
            if why:
                path = ck.write_replay(safe_name('native_' + name)[:80], {'rule': y, 'opts': opts, 'native': r, 'what': why,
                                                                           'request': {'cmd': 'roundtrip', 'yaml': y, 'opts': opts}})
                ck.replays_ok += 1
                ck.violations.append((path, 'native round trip [%s] opts=%s: %s' % (name, opts, why)))
                return        # one report per chunk is enough


def safe_name(s):
    return ''.join(c if c.isalnum() or c in '-_.' else '_' for c in s)


def run_unit(ck, unit):
    kind = unit[0]
    if kind == 'ser-detection':
        unit_ser_detection(ck, unit[1])
    elif kind == 'ser-rule':
        unit_ser_rule(ck, unit[1])
    elif kind == 'de-detection':
        unit_de_detection(ck, unit[1])
    elif kind == 'de-rule':
        unit_de_rule(ck, unit[1])
    elif kind == 'optimise-raw':
        unit_optimise_raw(ck, unit[1])
    elif kind == 'native':
        unit_native(ck, unit[1])


def main():
    ck = Check('C14', 'other')
    quick = ck.tier == 'quick'
    K = 2 if quick else 3
    ck.bounds = {'identifiers': '0..%d' % K, 'condition text': '<= %d bytes, symbolic' % (6 if quick else 10),
                 'identifier names': '<= %d bytes, symbolic, pairwise distinct, not "condition"' % (3 if quick else 5),
                 'entry order': 'every permutation of the delivered entries', 'examples': '<= 2 per list, opaque values compared by identity',
                 'outside': 'serde_yaml emitter / scanner (channel contract, validated concretely on the template and quoting-sensitive rules); '
                            'identifier values are opaque YAML values; longer texts'}
    ck.assumptions = ['channel contract: a serde map of (key, value) entries that is emitted is delivered with equal keys and values in some order '
                      '(serde_yaml; validated natively: to_string / to_value -> from_str / from_value on every template rule and %d quoting-sensitive rules)' % len(quoting_rules()),
                      'parse_identifier / tokenise / parse / is_solvable are deterministic functions of their argument with an arbitrary outcome (their meaning is C02 / C04 / C05; determinism is C12)',
                      'the recording serializer and the map access never fail on their own']
    ck.functions |= {'<Detection as Serialize>::serialize', '<Rule as Serialize>::serialize',
                     '<Detection as Deserialize>::deserialize::DetectionVisitor::visit_map',
                     '<Rule as Deserialize>::deserialize::__Visitor::visit_map', '<Rule as Deserialize>::deserialize::__FieldVisitor::visit_str',
                     'Rule::optimise'}
    units = [('ser-detection', k) for k in range(K + 1)]
    units += [('ser-rule', (k, p, n)) for k in range(min(K, 2) + 1) for p in range(3) for n in range(3) if quick is False or (p + n) in (0, 2, 3)]
    for k in range(K + 1):
        orders = list(itertools.permutations(range(k + 1)))
        uses = [u for r in range(0, min(k + 1, 2) + 1) for u in itertools.combinations(range(k + 1), r)]
        for order in orders:
            for use in uses:
                units.append(('de-detection', (k, order, 'present', use)))
        for ck_ in ('absent', 'twice', 'notstring'):
            units.append(('de-detection', (k, orders[-1], ck_, ())))
            units.append(('de-detection', (k, orders[0], ck_, ())))
    allf = ('optimised', 'detection', 'true_positives', 'true_negatives')
    perms = list(itertools.permutations(allf))
    for order in (perms if not quick else perms[::3]):
        units.append(('de-rule', (allf, order, None)))
    for drop in allf:
        units.append(('de-rule', (tuple(x for x in allf if x != drop), allf, None)))
    for extra in ('unknown',) + allf:
        units.append(('de-rule', (allf, allf, extra)))
    units += [('optimise-raw', k) for k in range(K + 1)]
    # channel contract, concrete
    nat = []
    fams = templates.select(ck.tier, ck.seed)
    all_opts = [[bool(b & 8), bool(b & 4), bool(b & 2), bool(b & 1)] for b in range(16)]
    for _, name, rule in fams:
        nat.append((name, templates.render(rule), [None, [True, True, True, True]] if quick else [None] + all_opts))
    for name, y in quoting_rules():
        nat.append((name, y, [None, [True, True, True, True], [True, True, False, False]]))
    for i in range(0, len(nat), 40):
        units.append(('native', nat[i:i + 40]))
    ck.extra['quoting_sensitive_rules'] = len(quoting_rules())
    ck.extra['template_rules'] = len(fams)
    ck.run_units(units, run_unit, jobs=12)
    ck.finish('MIR of the Serialize impls of Rule / Detection, of the Detection visitor, of the derived Rule visitor and of Rule::optimise against '
              'recording serializer / map-access models; z3 decides each specification over symbolic texts, names, orders and callee outcomes; '
              'the serde_yaml channel is validated by native round trips (concrete)')


if __name__ == '__main__':
    run_check(main)
