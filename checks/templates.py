"""Rule templates: the enumerated part of the quantifier over rules.

Rules are built as abstract syntax (so that the C02 reference interpreter can
work from the *text-level* structure, not from the engine's tree) and rendered
to YAML.

Abstract syntax
    rule   = {'idents': {name: ident}, 'cond': cond}
    ident  = ('map', [(key, val), ...]) | ('seq', [('map', ...), ...])
    key    = (mod, field)  mod: None | 'all' | ('of', n) | 'not' | 'int' | 'flt' | 'str'
    val    = ('s', text) | ('i', int) | ('f', float) | ('b', bool) | ('null',)
           | ('list', [val, ...]) | ('map', [(key, val), ...])
    cond   = ('id', name) | ('and', a, b) | ('or', a, b) | ('not', a) | ('all', name)
           | ('of', name, n) | ('cmp', op, operand, operand)
    operand= ('int', field) | ('flt', field) | ('str', field) | ('ci', int) | ('cf', float)
"""
import itertools
import random


def q(s):
    return "'" + s.replace("'", "''") + "'"


def r_key(k):
    mod, f = k
    if mod is None:
        return f
    if mod == 'all':
        return 'all(%s)' % f
    if isinstance(mod, tuple):
        return 'of(%s, %d)' % (f, mod[1])
    return '%s(%s)' % (mod, f)


def r_scalar(v):
    t = v[0]
    if t == 's':
        return q(v[1])
    if t == 'i':
        return str(v[1])
    if t == 'f':
        return repr(v[1])
    if t == 'b':
        return 'true' if v[1] else 'false'
    if t == 'null':
        return 'null'
    raise ValueError(v)


def r_map(pairs, indent):
    pad = ' ' * indent
    out = []
    for k, v in pairs:
        ks = r_key(k)
        if any(c in ks for c in ',:[]{}') or ks[0] in '*&!|>%@`':
            ks = q(ks)
        if v[0] == 'map':
            out.append('%s%s:' % (pad, ks))
            out.extend(r_map(v[1], indent + 2))
        elif v[0] == 'list':
            out.append('%s%s:' % (pad, ks))
            for item in v[1]:
                if item[0] == 'map':
                    sub = r_map(item[1], indent + 2)
                    out.append('%s- %s' % (pad, sub[0].strip()))
                    out.extend(sub[1:])
                else:
                    out.append('%s- %s' % (pad, r_scalar(item)))
        else:
            out.append('%s%s: %s' % (pad, ks, r_scalar(v)))
    return out


def r_ident(ident, indent=4):
    if ident[0] == 'map':
        return r_map(ident[1], indent)
    pad = ' ' * indent
    out = []
    for m in ident[1]:
        sub = r_map(m[1], indent + 2)
        out.append('%s- %s' % (pad, sub[0].strip()))
        out.extend(sub[1:])
    return out


def r_operand(o):
    if o[0] in ('int', 'flt', 'str'):
        return '%s(%s)' % (o[0], o[1])
    if o[0] == 'ci':
        return str(o[1])
    return repr(o[1])


def r_cond(c, top=True):
    t = c[0]
    if t == 'id':
        return c[1]
    if t == 'not':
        inner = r_cond(c[1], False)
        return 'not ' + inner
    if t in ('and', 'or'):
        s = '%s %s %s' % (r_cond(c[1], False), t, r_cond(c[2], False))
        return s if top else '(' + s + ')'
    if t == 'all':
        return 'all(%s)' % c[1]
    if t == 'of':
        return 'of(%s, %d)' % (c[1], c[2])
    if t == 'cmp':
        s = '%s %s %s' % (r_operand(c[2]), c[1], r_operand(c[3]))
        return s if top else '(' + s + ')'
    if t == 'raw':
        return c[1]
    raise ValueError(c)


def render(rule):
    out = ['detection:']
    for name, ident in rule['idents'].items():
        out.append('  %s:' % name)
        out.extend(r_ident(ident))
    out.append('  condition: %s' % r_cond(rule['cond']))
    out.append('true_positives: []')
    out.append('true_negatives: []')
    return '\n'.join(out) + '\n'


# ----------------------------------------------------------------------
# building blocks

def S(t):
    return ('s', t)


def M(*pairs):
    return ('map', list(pairs))


def K(f, mod=None):
    return (mod, f)


def L(*vals):
    return ('list', list(vals))


STR_PATS_BASIC = ['a', 'ab', 'a*', '*a', '*a*', '*', 'ia', 'iA*', 'i*b', 'i*aB*', '', '"a"', "'*'", '"a\'', "i'a\"", '"', "i'",
                  # blanks at the edges of a pattern are part of the text
                  ' a', ' a*']
STR_PATS_MORE = ['b*', '*b', '*ab*', 'ab*', '*ba', 'iab', '**', 'i*', 'i', '*a*b', 'a*b', 'a ', '* a']
REGEX_PATS = ['?a', '?ab', 'i?a', '?^a', '?b$', 'i?^\\D+$', 'i?\\Sa', '?\\D']
REGEX_REWRITE = ['?.*a', '?a.*', '?.*a.*', '?.*', '?.*.*', '?.*a|b', '?a|b.*', '?.*?a', '?a\\.*', '?.*+a', 'i?.*A',
                 # anchored wildcards are not redundant: `.` does not cross a line feed
                 '?^.*a', '?a.*$', '?^.*a.*$', '?^a.*', '?.*a$']
NUM_PATS = ['=1', '>1', '>=1', '<1', '<=1', '>-1', '=1.5', '>1.5', '<=0.5']


def single(field, val, cond=None, name='A'):
    return {'idents': {name: M((K(field), val))}, 'cond': cond or ('id', name)}


def families(tier='quick', seed=0):
    """-> list of (family, name, rule)"""
    rnd = random.Random(seed)
    out = []

    def add(fam, name, rule):
        out.append((fam, '%s/%s' % (fam, name), rule))

    pats = STR_PATS_BASIC + (STR_PATS_MORE if tier != 'quick' else STR_PATS_MORE[:3])
    # A: one field, one string pattern
    for p in pats:
        add('single', p or 'empty', single('f', S(p)))
    for p in REGEX_PATS:
        add('regex', p, single('f', S(p)))
    for p in NUM_PATS:
        add('number', p, single('f', S(p)))
    for v, nm in ((('i', 1), 'int1'), (('i', -2), 'int-2'), (('f', 1.5), 'flt1.5'), (('b', True), 'true'),
                  (('b', False), 'false'), (('null',), 'null'), (('i', 18446744073709551615), 'u64max'), (('i', 9223372036854775808), 'i64max+1')):
        add('scalar', nm, single('f', v))
    # B: lists on one field
    lists = [
        ['a', 'b'], ['a*', '*b'], ['*a*', 'b'], ['a', 'ia'], ['ia', 'ib*'], ['a*', '*a', '*a*', 'a'],
        ['a', ''], ['*', 'a'], ['?a', '?b'], ['?a', 'b'], ['i?a', 'i?b'], ['a', '?a', 'ib'],
        ['ab', 'b'], ['*ab', '*b'], ['a*', 'ab*'], ['a*', '*b', 'ic'], ['a*', '*b', '?c'], ['ia', 'ib', 'c', 'd'],
        # needles of different kinds whose lengths are not ascending in written order (re-batching by the optimiser)
        ['ab*', '*c', 'id'], ['abc*', '*c', '?q'],
        # exactly one case-insensitive regex next to other members
        ['a', 'i?b'], ['i?ab', 'c*', 'id'],
    ]
    if tier != 'quick':
        lists += [['a', 'b', 'c'], ['a*', 'b*', '*c', '*d*'], ['ia*', 'i*b', 'c'], ['?a', '?b', '?c'], ['*a*', '*b*', '*ab*'],
                  ['a', 'b', '?c', 'id'], ['**', 'a'], ['i', 'a']]
    for l in lists:
        nm = ','.join(x or 'empty' for x in l)
        add('list', nm, single('f', L(*[S(x) for x in l])))
        add('list-all', nm, {'idents': {'A': M((K('f', 'all'), L(*[S(x) for x in l])))}, 'cond': ('id', 'A')})
        for n in range(0, len(l) + 2):
            add('list-of', '%s|%d' % (nm, n), {'idents': {'A': M((K('f', ('of', n)), L(*[S(x) for x in l])))}, 'cond': ('id', 'A')})
    for l, nm in (([S('<=1.5'), S('>100.0')], '<=1.5,>100.0'), ([S('>=0.5'), S('<0.25')], '>=0.5,<0.25'), ([S('<=1'), S('>5')], '<=1,>5'),
                  ([S('=2'), S('>=7'), S('<-1')], '=2,>=7,<-1'), ([S('=1.5'), S('<=0.5'), S('>2.5')], '=1.5,<=0.5,>2.5'),
                  ([('i', 1), ('i', 2)], '1,2'), ([('i', 1), S('a')], '1,a'), ([('b', True), S('a')], 'true,a'),
                  ([S('>1'), S('<5')], '>1,<5'), ([('null',), S('a')], 'null,a'), ([('f', 1.5), ('i', 2)], '1.5,2'),
                  ([S('*'), S('>1')], '*,>1'), ([S('*'), ('i', 7)], '*,7'), ([S('>=1'), S('<=5')], '>=1,<=5'),
                  ([S('a')], 'a-only'), ([('i', 1)], '1-only')):
        add('list-mixed', nm, single('f', L(*l)))
    nested3 = [M((K('x'), S('a*'))), M((K('x'), S('*b'))), M((K('y'), ('i', 1)))]
    for l, nm in (([S('a')], 'a-only'), ([S('*a*')], '*a*-only'), ([('i', 1)], '1-only'), ([S('>1'), S('<5')], '>1,<5'), ([S('>=1'), S('<=5')], '>=1,<=5'),
                  ([('i', 1), ('i', 2)], '1,2'), ([('b', True), ('b', False)], 'true,false'), ([S('?a')], 're-only'),
                  # mapping members, two of them on the same inner field
                  (nested3, 'nested3'), ([M((K('x'), S('a*'))), M((K('x'), S('*b')))], 'nested2')):
        add('quant-short', 'all:' + nm, {'idents': {'A': M((K('f', 'all'), L(*l)))}, 'cond': ('id', 'A')})
        for n in range(0, len(l) + 2):
            add('quant-short', 'of%d:%s' % (n, nm), {'idents': {'A': M((K('f', ('of', n)), L(*l)))}, 'cond': ('id', 'A')})
    # C: several fields
    add('mapping', 'f,g', {'idents': {'A': M((K('f'), S('a')), (K('g'), S('b*')))}, 'cond': ('id', 'A')})
    add('mapping', 'f,g,h', {'idents': {'A': M((K('f'), S('a')), (K('g'), S('*b')), (K('h'), ('i', 1)))}, 'cond': ('id', 'A')})
    add('sequence', 'f|g', {'idents': {'A': ('seq', [M((K('f'), S('a'))), M((K('g'), S('b')))])}, 'cond': ('id', 'A')})
    add('sequence', 'f|f', {'idents': {'A': ('seq', [M((K('f'), S('a'))), M((K('f'), S('b*')))])}, 'cond': ('id', 'A')})
    add('sequence', 'fg|f', {'idents': {'A': ('seq', [M((K('f'), S('a')), (K('g'), S('b'))), M((K('f'), S('c')))])}, 'cond': ('id', 'A')})
    add('sequence', 'fg|fg', {'idents': {'A': ('seq', [M((K('f'), S('a')), (K('g'), S('b'))), M((K('f'), S('c')), (K('g'), S('d')))])}, 'cond': ('id', 'A')})
    add('sequence', 'fg|gh', {'idents': {'A': ('seq', [M((K('f'), S('a')), (K('g'), ('i', 1))), M((K('g'), ('i', 2)), (K('h'), S('*c')))])}, 'cond': ('id', 'A')})
    add('sequence', 'fg|f|g', {'idents': {'A': ('seq', [M((K('f'), S('a')), (K('g'), S('b'))), M((K('f'), S('*c*'))), M((K('g'), S('d*')))])}, 'cond': ('id', 'A')})
    # D: nested mappings
    add('nested', 'n.f', {'idents': {'A': M((K('n'), M((K('f'), S('a')))))}, 'cond': ('id', 'A')})
    add('nested', 'n.f,n.g', {'idents': {'A': M((K('n'), M((K('f'), S('a')), (K('g'), S('b')))))}, 'cond': ('id', 'A')})
    add('nested', 'n.f&n.g', {'idents': {'A': M((K('n'), M((K('f'), S('a'))))), 'B': M((K('n'), M((K('g'), S('b')))))},
                              'cond': ('and', ('id', 'A'), ('id', 'B'))})
    add('nested', 'n.f|n.g', {'idents': {'A': M((K('n'), M((K('f'), S('a'))))), 'B': M((K('n'), M((K('g'), S('b')))))},
                              'cond': ('or', ('id', 'A'), ('id', 'B'))})
    add('nested', 'not(n.f&m.g)', {'idents': {'A': M((K('n'), M((K('f'), S('a'))))), 'B': M((K('m'), M((K('g'), S('b')))))},
                                   'cond': ('not', ('and', ('id', 'A'), ('id', 'B')))})
    # a key holding a list of blocks that share fields: with shake + matrix the blocks become a table inside the nested node,
    # which is evaluated once per member of an array value
    add('nested', 'n:[{f,g},{f,g}]', {'idents': {'A': M((K('n'), L(M((K('f'), S('a')), (K('g'), S('b'))), M((K('f'), S('c')), (K('g'), S('d'))))))}, 'cond': ('id', 'A')})
    add('nested', 'n:[{f},{f}]', {'idents': {'A': M((K('n'), L(M((K('f'), S('a'))), M((K('f'), S('b'))))))}, 'cond': ('id', 'A')})
    add('nested', 'seq n.f|n.g', {'idents': {'A': ('seq', [M((K('n'), M((K('f'), S('a'))))), M((K('n'), M((K('g'), S('b')))))])}, 'cond': ('id', 'A')})
    add('nested', 'n.f,n.f2 in one map', {'idents': {'A': M((K('n'), M((K('f'), S('a')))), (K('g'), S('c')))}, 'cond': ('id', 'A')})
    # a negated key inside a block, underneath a negation (false and missing are told apart)
    add('nested', 'not {n: {not(f)}}', {'idents': {'A': M((K('n'), M((K('f', 'not'), S('a')))))}, 'cond': ('not', ('id', 'A'))})
    # a nested block and a dotted key with the same head in one conjunction
    add('nested', 'n block + n.g dotted', {'idents': {'A': M((K('n'), M((K('f'), S('a')))), (K('n.g'), S('b')))}, 'cond': ('id', 'A')})
    add('nested', 'n block + n.g dotted + h', {'idents': {'A': M((K('n'), M((K('f'), S('a')))), (K('n.g'), S('b')), (K('h'), S('c')))}, 'cond': ('id', 'A')})
    # a block that holds nothing but another block (depth 3)
    add('nested', 'n.m.f', {'idents': {'A': M((K('n'), M((K('m'), M((K('f'), S('a')))))))}, 'cond': ('id', 'A')})
    add('nested', 'not n.m.f', {'idents': {'A': M((K('n'), M((K('m'), M((K('f'), S('a')))))))}, 'cond': ('not', ('id', 'A'))})
    # three conjuncts make an and-*group*, whose same-field nested blocks shake merges into nested(n, all(or[..]))
    nA, nB, nH = M((K('n'), M((K('f'), S('a'))))), M((K('n'), M((K('g'), S('b'))))), M((K('h'), S('c')))
    and3 = ('and', ('and', ('id', 'A'), ('id', 'B')), ('id', 'C'))
    add('nested', 'n.f&n.g&h', {'idents': {'A': nA, 'B': nB, 'C': nH}, 'cond': and3})
    add('nested', 'not(n.f&n.g&h)', {'idents': {'A': nA, 'B': nB, 'C': nH}, 'cond': ('not', and3)})
    add('nested', 'not(n.f&n.g)', {'idents': {'A': nA, 'B': nB}, 'cond': ('not', ('and', ('id', 'A'), ('id', 'B')))})
    nC = M((K('n'), M((K('h'), S('c')))))
    add('nested', 'not(n.f&n.g&n.h)', {'idents': {'A': nA, 'B': nB, 'C': nC}, 'cond': ('not', and3)})
    add('nested', 'of0(n.f&n.g&n.h)', {'idents': {'A': nA, 'B': nB, 'C': nC, 'D': M((K('k'), S('d')))},
                                       'cond': ('or', ('not', and3), ('id', 'D'))})
    nA2, nB2 = M((K('n'), M((K('f'), S('a')), (K('g'), S('b'))))), M((K('n'), M((K('f'), S('c')), (K('g'), S('d')))))
    add('nested', 'rows n.fg&n.fg&h', {'idents': {'A': nA2, 'B': nB2, 'C': nH}, 'cond': and3})
    add('nested', 'not(rows n.fg&n.fg&h)', {'idents': {'A': nA2, 'B': nB2, 'C': nH}, 'cond': ('not', and3)})
    # dotted / indexed keys (paths resolved by Object::find when the document implements Object)
    add('dotted', 'n.f', {'idents': {'A': M((K('n.f'), S('a')))}, 'cond': ('id', 'A')})
    add('dotted', 'n.m.f', {'idents': {'A': M((K('n.m.f'), S('a*')), (K('g'), ('i', 1)))}, 'cond': ('id', 'A')})
    add('dotted', 'n.f[0]', {'idents': {'A': M((K('n.f[0]'), S('a')))}, 'cond': ('id', 'A')})
    add('dotted', 'f[1].g', {'idents': {'A': M((K('f[1].g'), S('*a')))}, 'cond': ('id', 'A')})
    add('dotted', 'f][0]', {'idents': {'A': M((K('f][0]'), S('a')))}, 'cond': ('id', 'A')})
    add('dotted', 'n.f or m.f', {'idents': {'A': M((K('n.f'), S('a'))), 'B': M((K('m.f'), L(S('b'), S('c*'))))}, 'cond': ('or', ('id', 'A'), ('id', 'B'))})
    # the same field with and without a cast: the uncast entry is missing on a number, the cast one matches
    add('sequence', 'f|str(f)', {'idents': {'A': ('seq', [M((K('f'), S('a'))), M((K('f', 'str'), ('i', 1)))])}, 'cond': ('id', 'A')})
    add('sequence', 'f|str(f)|g', {'idents': {'A': ('seq', [M((K('f'), S('a*'))), M((K('f', 'str'), S('1*'))), M((K('g'), S('b')))])}, 'cond': ('id', 'A')})
    add('sequence', 'str(f)|f digits', {'idents': {'A': ('seq', [M((K('f', 'str'), S('2*'))), M((K('f'), S('1*')))])}, 'cond': ('id', 'A')})
    add('sequence', 'or3 same field', {'idents': {'A': M((K('f'), S('ab*'))), 'B': M((K('f'), S('*c'))), 'C': M((K('f'), S('*d*')))},
                                       'cond': ('or', ('or', ('id', 'A'), ('id', 'B')), ('id', 'C'))})
    add('sequence', 'seq3 same field', {'idents': {'A': ('seq', [M((K('f'), S('abc*'))), M((K('f'), S('*c'))), M((K('f'), S('*bd*')))])}, 'cond': ('id', 'A')})
    # E: conditions over identifiers
    A = M((K('f'), S('a')))
    B = M((K('g'), S('b*')))
    C = M((K('h'), ('i', 1)))
    ab = {'A': A, 'B': B}
    abc = {'A': A, 'B': B, 'C': C}
    for nm, cond, ids in (
            ('A and B', ('and', ('id', 'A'), ('id', 'B')), ab), ('A or B', ('or', ('id', 'A'), ('id', 'B')), ab),
            ('not A', ('not', ('id', 'A')), {'A': A}), ('A and not B', ('and', ('id', 'A'), ('not', ('id', 'B'))), ab),
            ('not (A and B)', ('not', ('and', ('id', 'A'), ('id', 'B'))), ab),
            ('not (A or B)', ('not', ('or', ('id', 'A'), ('id', 'B'))), ab),
            ('A and B and C', ('and', ('and', ('id', 'A'), ('id', 'B')), ('id', 'C')), abc),
            ('A or B or C', ('or', ('or', ('id', 'A'), ('id', 'B')), ('id', 'C')), abc),
            ('A and (B or C)', ('and', ('id', 'A'), ('or', ('id', 'B'), ('id', 'C'))), abc),
            ('(A and B) or C', ('or', ('and', ('id', 'A'), ('id', 'B')), ('id', 'C')), abc),
            ('not not A', ('not', ('not', ('id', 'A'))), {'A': A}),
            ('not A and not B', ('and', ('not', ('id', 'A')), ('not', ('id', 'B'))), ab),
            ('not A or not B', ('or', ('not', ('id', 'A')), ('not', ('id', 'B'))), ab),
            ('not A or not B or C', ('or', ('or', ('not', ('id', 'A')), ('not', ('id', 'B'))), ('id', 'C')), abc),
            ('not (A or B) and C', ('and', ('not', ('or', ('id', 'A'), ('id', 'B'))), ('id', 'C')), abc),
            ('(A and B) or (A and C)', ('or', ('and', ('id', 'A'), ('id', 'B')), ('and', ('id', 'A'), ('id', 'C'))), abc),
            ('(A and B) or not A', ('or', ('and', ('id', 'A'), ('id', 'B')), ('not', ('id', 'A'))), ab),
            ('not (A and (B and C and D))', ('not', ('and', ('id', 'A'), ('and', ('and', ('id', 'B'), ('id', 'C')), ('id', 'D')))),
             {'A': A, 'B': B, 'C': C, 'D': M((K('k'), S('d')))}),
            ('A and (B and C and D)', ('and', ('id', 'A'), ('and', ('and', ('id', 'B'), ('id', 'C')), ('id', 'D'))),
             {'A': A, 'B': B, 'C': C, 'D': M((K('k'), S('d')))}),
            ('not A and not B and not C', ('and', ('and', ('not', ('id', 'A')), ('not', ('id', 'B'))), ('not', ('id', 'C'))), abc)):
        add('condition', nm, {'idents': ids, 'cond': cond})
    # negation over one multi-entry mapping, both written orders (conjunction order is observable under not)
    add('condition', 'not {f,g}', {'idents': {'A': M((K('f'), S('a*')), (K('g'), S('>5')))}, 'cond': ('not', ('id', 'A'))})
    add('condition', 'not {g,f}', {'idents': {'A': M((K('g'), S('>5')), (K('f'), S('a*')))}, 'cond': ('not', ('id', 'A'))})
    add('condition', 'not {n,f,g}', {'idents': {'A': M((K('n'), M((K('f'), S('a')))), (K('f'), S('b')), (K('g'), ('i', 1)))}, 'cond': ('not', ('id', 'A'))})
    add('condition', 'not {g,f,n}', {'idents': {'A': M((K('g'), ('i', 1)), (K('f'), S('b')), (K('n'), M((K('f'), S('a')))))}, 'cond': ('not', ('id', 'A'))})
    # identifiers the condition mentions but the rule does not define: must be rejected at load
    for nm, cond in (('Q', ('id', 'Q')), ('Q and A', ('and', ('id', 'Q'), ('id', 'A'))), ('A and Q', ('and', ('id', 'A'), ('id', 'Q'))),
                     ('not Q', ('not', ('id', 'Q'))), ('A or B or Q', ('or', ('or', ('id', 'A'), ('id', 'B')), ('id', 'Q'))),
                     ('(Q or A) and B', ('and', ('or', ('id', 'Q'), ('id', 'A')), ('id', 'B'))), ('all(Q)', ('all', 'Q')), ('of(Q,1)', ('of', 'Q', 1)),
                     ('not (A and Q)', ('not', ('and', ('id', 'A'), ('id', 'Q')))), ('A and not Q', ('and', ('id', 'A'), ('not', ('id', 'Q')))),
                     # an undefined identifier to the right of a cast operand
                     ('int(f)==1 and Q', ('and', ('cmp', '==', ('int', 'f'), ('ci', 1)), ('id', 'Q'))),
                     ('A and str(f)==str(g) or Q', ('or', ('and', ('id', 'A'), ('cmp', '==', ('str', 'f'), ('str', 'g'))), ('id', 'Q'))),
                     ('flt(f)>=1.5 and all(Q)', ('and', ('cmp', '>=', ('flt', 'f'), ('cf', 1.5)), ('all', 'Q'))),
                     # the modifier spelling of not, which the condition grammar does not have
                     ('A and not(Q)', ('raw', 'A and not(Q)')), ('not(Q or A)', ('raw', 'not(Q or A)')), ('A and not(B)', ('raw', 'A and not(B)'))):
        add('undefined-ident', nm, {'idents': ab, 'cond': cond})
    seqX = ('seq', [M((K('f'), S('a'))), M((K('g'), S('b'))), M((K('h'), S('c')))])
    mapX = M((K('f'), S('a')), (K('g'), S('b')), (K('h'), S('c')))
    oneX = M((K('f'), S('a')))
    listX = M((K('f'), L(S('a*'), S('*b'), S('*c*'))))
    blockX = ('seq', [M((K('f'), S('a')), (K('g'), S('b')))])
    # entries that share fields: the matrix pass tables them inside the identifier
    tabledX = ('seq', [M((K('f'), S('a*')), (K('g'), S('b*'))), M((K('f'), S('c*')), (K('g'), S('d*'))), M((K('h'), S('x')))])
    tabled2X = ('seq', [M((K('f'), S('a*')), (K('g'), S('b*'))), M((K('f'), S('c*')), (K('g'), S('d*'))), M((K('h', 'not'), S('x')))])
    for xn, X in (('seq', seqX), ('map', mapX), ('one', oneX), ('list', listX), ('seq1block', blockX), ('tabled', tabledX), ('part-tabled', tabled2X)):
        add('quant-ident', 'all(%s)' % xn, {'idents': {'X': X}, 'cond': ('all', 'X')})
        for n in (0, 1, 2, 3, 4):
            add('quant-ident', 'of(%s,%d)' % (xn, n), {'idents': {'X': X}, 'cond': ('of', 'X', n)})
        add('quant-ident', 'not all(%s)' % xn, {'idents': {'X': X}, 'cond': ('not', ('all', 'X'))})
        add('quant-ident', 'not of(%s,1)' % xn, {'idents': {'X': X}, 'cond': ('not', ('of', 'X', 1))})
    # F: key modifiers
    add('modifier', 'not(f)', {'idents': {'A': M((K('f', 'not'), S('a')))}, 'cond': ('id', 'A')})
    add('modifier', 'not(f) list', {'idents': {'A': M((K('f', 'not'), L(S('a'), S('b*'))))}, 'cond': ('id', 'A')})
    add('modifier', 'int(f)=1', {'idents': {'A': M((K('f', 'int'), ('i', 1)))}, 'cond': ('id', 'A')})
    add('modifier', 'int(f)>1', {'idents': {'A': M((K('f', 'int'), S('>1')))}, 'cond': ('id', 'A')})
    add('modifier', 'int(f)=true', {'idents': {'A': M((K('f', 'int'), ('b', True)))}, 'cond': ('id', 'A')})
    add('modifier', 'flt(f)=1.5', {'idents': {'A': M((K('f', 'flt'), ('f', 1.5)))}, 'cond': ('id', 'A')})
    add('modifier', 'flt(f)>=1.5', {'idents': {'A': M((K('f', 'flt'), S('>=1.5')))}, 'cond': ('id', 'A')})
    add('modifier', 'str(f)=a*', {'idents': {'A': M((K('f', 'str'), S('a*')))}, 'cond': ('id', 'A')})
    add('modifier', 'str(f)=1', {'idents': {'A': M((K('f', 'str'), ('i', 1)))}, 'cond': ('id', 'A')})
    add('modifier', 'str(f)=true', {'idents': {'A': M((K('f', 'str'), ('b', True)))}, 'cond': ('id', 'A')})
    add('modifier', 'str(f) list', {'idents': {'A': M((K('f', 'str'), L(S('a'), S('b*'), ('i', 1))))}, 'cond': ('id', 'A')})
    add('modifier', 'str(f) numbers only', {'idents': {'A': M((K('f', 'str'), L(('i', 1), ('i', 2))))}, 'cond': ('id', 'A')})
    add('modifier', 'str(f) bool only', {'idents': {'A': M((K('f', 'str'), L(('b', True))))}, 'cond': ('id', 'A')})
    add('modifier', 'str(f) number then string', {'idents': {'A': M((K('f', 'str'), L(('i', 1), S('a*'))))}, 'cond': ('id', 'A')})
    # a modifier key followed by plain keys in the same mapping (the modifier must not leak), both orders
    add('modifier', '{str(f), g}', {'idents': {'A': M((K('f', 'str'), S('4*')), (K('g'), S('0')))}, 'cond': ('id', 'A')})
    add('modifier', '{g, str(f)}', {'idents': {'A': M((K('g'), S('0')), (K('f', 'str'), S('4*')))}, 'cond': ('id', 'A')})
    add('modifier', '{not(f), g}', {'idents': {'A': M((K('f', 'not'), S('a')), (K('g'), S('b')))}, 'cond': ('id', 'A')})
    add('modifier', '{int(f), g}', {'idents': {'A': M((K('f', 'int'), ('i', 1)), (K('g'), S('a*')))}, 'cond': ('id', 'A')})
    add('modifier', '{flt(f), g, h}', {'idents': {'A': M((K('f', 'flt'), S('>=1.5')), (K('g'), ('i', 2)), (K('h'), S('*c')))}, 'cond': ('id', 'A')})
    add('modifier', 'int(f) list', {'idents': {'A': M((K('f', 'int'), L(('i', 1), S('>5'))))}, 'cond': ('id', 'A')})
    # conditions with casts
    Z = M((K('f'), S('*')))
    for nm, c in (('int(f)>1', ('cmp', '>', ('int', 'f'), ('ci', 1))), ('1<int(f)', ('cmp', '<', ('ci', 1), ('int', 'f'))),
                  ('int(f)==int(g)', ('cmp', '==', ('int', 'f'), ('int', 'g'))), ('flt(f)>=1.5', ('cmp', '>=', ('flt', 'f'), ('cf', 1.5))),
                  ('flt(f)<flt(g)', ('cmp', '<', ('flt', 'f'), ('flt', 'g'))), ('str(f)==str(g)', ('cmp', '==', ('str', 'f'), ('str', 'g'))),
                  # the constant written on the left
                  ('1.5>=flt(f)', ('cmp', '>=', ('cf', 1.5), ('flt', 'f'))), ('2<=int(f)', ('cmp', '<=', ('ci', 2), ('int', 'f')))):
        add('cast-cond', nm, {'idents': {'Z': Z}, 'cond': c})
        add('cast-cond', 'Z and ' + nm, {'idents': {'Z': Z}, 'cond': ('and', ('id', 'Z'), c)})
        add('cast-cond', 'not ' + nm, {'idents': {'Z': Z}, 'cond': ('not', c)})
    # H: regexes the rewrite pass touches
    for p in REGEX_REWRITE:
        add('regex-rewrite', p, single('f', S(p)))
    add('regex-rewrite', 'list', single('f', L(S('?.*a'), S('?b.*'))))
    # members of a quantified list that become the same text once the wildcards are stripped: they stay distinct members
    add('regex-rewrite', 'of2 twins', {'idents': {'A': M((K('f', ('of', 2)), L(S('?.*a'), S('?a.*'))))}, 'cond': ('id', 'A')})
    add('regex-rewrite', 'of2 twins+1', {'idents': {'A': M((K('f', ('of', 2)), L(S('?.*a'), S('?a.*'), S('?b'))))}, 'cond': ('id', 'A')})
    add('regex-rewrite', 'all twins', {'idents': {'A': M((K('f', 'all'), L(S('?.*a'), S('?a.*'))))}, 'cond': ('id', 'A')})
    # anchored literal regexes whose letters have non-ASCII case-fold partners (k: U+212A, s: U+017F)
    for p in ('i?^ks', 'i?ks$', 'i?^sk$', '?^ks'):
        add('regex-rewrite', p, single('f', S(p)))
    add('regex-rewrite', 'or', {'idents': {'A': M((K('f'), S('?.*a'))), 'B': M((K('f'), S('?b.*')))}, 'cond': ('or', ('id', 'A'), ('id', 'B'))})
    # I: or-of-ands over shared fields (matrix), merges across identifiers (shake)
    m1 = ('seq', [M((K('f'), S('a')), (K('g'), S('b'))), M((K('f'), S('c')), (K('g'), S('d'))), M((K('f'), S('e')))])
    add('matrix', 'fg|fg|f', {'idents': {'A': m1}, 'cond': ('id', 'A')})
    add('matrix', 'not fg|fg|f', {'idents': {'A': m1}, 'cond': ('not', ('id', 'A'))})
    m2 = ('seq', [M((K('f'), ('i', 1)), (K('g'), S('b*'))), M((K('f'), ('i', 2)), (K('h'), S('*c'))), M((K('g'), S('d')))])
    add('matrix', 'num fg|fh|g', {'idents': {'A': m2}, 'cond': ('id', 'A')})
    m3 = ('seq', [M((K('f'), S('a')), (K('n'), M((K('g'), S('b'))))), M((K('f'), S('c')), (K('n'), M((K('g'), S('d')))))])
    add('matrix', 'nested cols', {'idents': {'A': m3}, 'cond': ('id', 'A')})
    add('matrix', 'all(X) seq', {'idents': {'X': m1}, 'cond': ('all', 'X')})
    add('matrix', 'of(X,2) seq', {'idents': {'X': m1}, 'cond': ('of', 'X', 2)})
    add('matrix', 'int cols', {'idents': {'A': ('seq', [M((K('f', 'int'), ('i', 1)), (K('g'), S('a'))), M((K('f', 'int'), ('i', 2)), (K('g'), S('b')))])}, 'cond': ('id', 'A')})
    # the same field constrained twice inside one or-branch (two key spellings of one field)
    add('matrix', 'same field twice', {'idents': {'A': ('seq', [M((K('f'), S('>5')), (K('f', 'int'), S('<10')), (K('g'), S('a'))),
                                                                 M((K('f'), ('i', 1)), (K('g'), S('b')))])}, 'cond': ('id', 'A')})
    add('matrix', 'same field twice str', {'idents': {'A': ('seq', [M((K('f'), S('a*')), (K('f', 'str'), S('*b')), (K('g'), ('i', 1))),
                                                                     M((K('f'), S('c')), (K('g'), ('i', 2)))])}, 'cond': ('id', 'A')})
    # a row that carries a nested block on a key no other row uses
    add('matrix', 'row with a nested block', {'idents': {'A': ('seq', [M((K('f'), S('a*')), (K('n'), M((K('g'), S('b'))))),
                                                                        M((K('f'), S('c')), (K('h'), S('d'))),
                                                                        M((K('f'), S('e')), (K('h'), S('x')))])}, 'cond': ('id', 'A')})
    nA = M((K('n'), M((K('f'), S('a')))))
    nB = M((K('n'), M((K('g'), S('b')))))
    nC = M((K('h'), S('c')))
    add('shake', 'A and B and C nested same key', {'idents': {'A': nA, 'B': nB, 'C': nC},
                                                   'cond': ('and', ('and', ('id', 'A'), ('id', 'B')), ('id', 'C'))})
    add('shake', 'A or B or C nested same key', {'idents': {'A': nA, 'B': nB, 'C': nC},
                                                 'cond': ('or', ('or', ('id', 'A'), ('id', 'B')), ('id', 'C'))})
    cmpA = ('cmp', '>', ('int', 'f'), ('int', 'g'))
    cmpB = ('cmp', '<', ('int', 'f'), ('int', 'g'))
    add('matrix', 'one row plus comparisons', {'idents': {'A': M((K('f'), ('i', 1)))}, 'cond': ('or', ('or', ('id', 'A'), cmpA), cmpB)})
    # an and-row that carries a field-to-field comparison, next to rows that make its fields matrix columns
    rowA = M((K('f'), S('a*')), (K('h'), S('b')))
    add('matrix', 'row with field-to-field comparison', {'idents': {'A': rowA, 'B': M((K('g'), ('i', 1))), 'C': M((K('g'), ('i', 2)))},
                                                        'cond': ('or', ('or', ('and', ('id', 'A'), ('cmp', '==', ('int', 'g'), ('int', 'k'))), ('id', 'B')), ('id', 'C'))})
    add('matrix', 'row with unshared field', {'idents': {'A': M((K('f'), S('a*')), (K('h'), S('b'))), 'B': M((K('g'), ('i', 1))), 'C': M((K('g'), ('i', 2)))},
                                             'cond': ('or', ('or', ('and', ('id', 'A'), ('cmp', '==', ('int', 'g'), ('ci', 3))), ('id', 'B')), ('id', 'C'))})
    # groups of one kind joined by the other operator: an or of two and-groups, an and of two or-groups (must not be spliced)
    add('shake', 'A or B two maps', {'idents': {'A': M((K('f'), S('a')), (K('g'), S('b'))), 'B': M((K('h'), S('c')), (K('k'), S('d')))}, 'cond': ('or', ('id', 'A'), ('id', 'B'))})
    add('shake', 'A and B two seqs', {'idents': {'A': ('seq', [M((K('f'), S('a'))), M((K('g'), S('b')))]), 'B': ('seq', [M((K('h'), S('c'))), M((K('k'), S('d')))])},
                                      'cond': ('and', ('id', 'A'), ('id', 'B'))})
    abc = {n: M((K(f), S(v))) for n, f, v in (('A', 'f', 'a'), ('B', 'g', 'b'), ('C', 'h', 'c'), ('D', 'k', 'd'), ('E', 'm', 'e'), ('F', 'n', 'f'))}
    add('shake', '(A and B and C) or (D and E and F)', {'idents': abc, 'cond': ('or', ('and', ('and', ('id', 'A'), ('id', 'B')), ('id', 'C')), ('and', ('and', ('id', 'D'), ('id', 'E')), ('id', 'F')))})
    add('shake', '(A or B or C) and (D or E or F)', {'idents': abc, 'cond': ('and', ('or', ('or', ('id', 'A'), ('id', 'B')), ('id', 'C')), ('or', ('or', ('id', 'D'), ('id', 'E')), ('id', 'F')))})
    # one text under two relations in one or-group (identifiers, a sequence), also case-insensitively
    add('shake', 'A or B or C one text two kinds', {'idents': {'A': M((K('f'), S('ab*'))), 'B': M((K('f'), S('*ab'))), 'C': M((K('g'), S('x')))},
                                                    'cond': ('or', ('or', ('id', 'A'), ('id', 'B')), ('id', 'C'))})
    add('shake', 'seq one text two kinds', {'idents': {'A': ('seq', [M((K('f'), S('ab'))), M((K('f'), S('*ab*'))), M((K('g'), S('x')))])}, 'cond': ('id', 'A')})
    add('shake', 'seq one text two kinds i', {'idents': {'A': ('seq', [M((K('f'), S('iAb*'))), M((K('f'), S('i*AB'))), M((K('g'), S('x')))])}, 'cond': ('id', 'A')})
    add('shake', 'A or B or C repeated needle', {'idents': {'A': M((K('f'), S('a*'))), 'B': M((K('f'), S('a*'))), 'C': M((K('f'), S('*b')))},
                                                 'cond': ('or', ('or', ('id', 'A'), ('id', 'B')), ('id', 'C'))})
    add('modifier', '{not(f), not(g), h}', {'idents': {'A': M((K('f', 'not'), S('a')), (K('g', 'not'), S('b')), (K('h'), S('c')))}, 'cond': ('id', 'A')})
    # field names of several words, plain and under key modifiers
    add('modifier', 'multi-word keys', {'idents': {'A': M((K('Command Line'), S('a*')), (K('Event ID', 'str'), S('4*')))}, 'cond': ('id', 'A')})
    add('modifier', 'all(multi-word key)', {'idents': {'A': M((K('Command Line', 'all'), L(S('a*'), S('*b'))))}, 'cond': ('id', 'A')})
    add('modifier', 'int(multi-word key)', {'idents': {'A': M((K('Event ID', 'int'), ('i', 1)), (K('g'), S('a')))}, 'cond': ('id', 'A')})
    # a negated key over a single comparison (not the complementary comparison: a value that is no number is not `<= 1`)
    add('modifier', 'not(f) >1', {'idents': {'A': M((K('f', 'not'), S('>1')))}, 'cond': ('id', 'A')})
    add('modifier', 'not(f) <=1.5 under not', {'idents': {'A': M((K('f', 'not'), S('<=1.5')), (K('g'), S('a')))}, 'cond': ('not', ('id', 'A'))})
    # the white space between the words of a field name is part of the name
    add('modifier', 'wide-space key', {'idents': {'A': M((K('a  b'), S('x*')), (K('g'), S('y')))}, 'cond': ('id', 'A')})
    add('modifier', 'str(wide-space key)', {'idents': {'A': M((K('a  b', 'str'), S('4*')))}, 'cond': ('id', 'A')})
    # a number as a word of a field name: rejected at load today; were it accepted, the field must be asked for as written
    add('modifier', 'number-word key 2.0', {'idents': {'A': M((K('w 2.0'), S('x*')))}, 'cond': ('id', 'A')})
    add('modifier', 'number-word key 007', {'idents': {'A': M((K('w 007'), S('x*')), (K('g'), S('y')))}, 'cond': ('id', 'A')})
    # a case-sensitive list and its i-prefixed twin on one field
    add('shake', 'list and its i-twin', {'idents': {'A': ('seq', [M((K('f'), L(S('ab*'), S('cd*')))), M((K('f'), L(S('iab*'), S('icd*')))), M((K('g'), S('x')))])}, 'cond': ('id', 'A')})
    add('shake', 'i-twin and list', {'idents': {'A': ('seq', [M((K('f'), L(S('iab*'), S('icd*')))), M((K('f'), L(S('ab*'), S('cd*')))), M((K('g'), S('x')))])}, 'cond': ('id', 'A')})
    add('modifier', 'str(f) float constant', {'idents': {'A': M((K('f', 'str'), ('f', 1.0)))}, 'cond': ('id', 'A')})
    add('modifier', 'str(f) float list', {'idents': {'A': M((K('f', 'str'), L(('f', 1.0), ('f', 2.5))))}, 'cond': ('id', 'A')})
    # an and-group with several plain searches on one field (an array can satisfy them with different members)
    add('shake', 'A and B and C searches on one field', {'idents': {'A': M((K('f'), S('*a*'))), 'B': M((K('f'), S('b*'))), 'C': M((K('g'), S('c')))},
                                                         'cond': ('and', ('and', ('id', 'A'), ('id', 'B')), ('id', 'C'))})
    add('shake', '{f, g} and B on f', {'idents': {'A': M((K('f'), S('*a*')), (K('g'), S('c'))), 'B': M((K('f'), S('b*')))}, 'cond': ('and', ('id', 'A'), ('id', 'B'))})
    add('shake', 'A or B same field', {'idents': {'A': M((K('f'), S('a*'))), 'B': M((K('f'), S('*b')))}, 'cond': ('or', ('id', 'A'), ('id', 'B'))})
    add('shake', 'A or B or C same field', {'idents': {'A': M((K('f'), S('a*'))), 'B': M((K('f'), S('*b'))), 'C': M((K('f'), S('ic')))},
                                            'cond': ('or', ('or', ('id', 'A'), ('id', 'B')), ('id', 'C'))})
    add('shake', 'of(X,2) after merge', {'idents': {'X': ('seq', [M((K('f'), S('a*'))), M((K('f'), S('*b'))), M((K('g'), S('c')))])}, 'cond': ('of', 'X', 2)})
    add('shake', 'all(X) after merge', {'idents': {'X': ('seq', [M((K('f'), S('a*'))), M((K('f'), S('*b')))])}, 'cond': ('all', 'X')})
    add('shake', 'not (A or B) same field', {'idents': {'A': M((K('f'), S('a*'))), 'B': M((K('f'), S('*b')))}, 'cond': ('not', ('or', ('id', 'A'), ('id', 'B')))})
    add('shake', 'A and B nested same', {'idents': {'A': M((K('n'), M((K('f'), S('a'))))), 'B': M((K('n'), M((K('f'), S('*b')))))},
                                         'cond': ('and', ('id', 'A'), ('id', 'B'))})
    add('shake', 'mixed case merge', {'idents': {'A': M((K('f'), S('ia*'))), 'B': M((K('f'), S('i*b'))), 'C': M((K('f'), S('c')))},
                                      'cond': ('or', ('or', ('id', 'A'), ('id', 'B')), ('id', 'C'))})
    add('shake', 'str cast merge', {'idents': {'A': M((K('f', 'str'), S('a*'))), 'B': M((K('f'), S('*b')))}, 'cond': ('or', ('id', 'A'), ('id', 'B'))})
    # J: conditions whose operands are not predicates (C03: must be rejected at load, or be harmless)
    for txt in ('A and 1', 'A and int(f)', 'A or int(f)', 'A or 1.5', '1 and A', 'int(f) and A', 'not A and 2', 'A and (1)',
                'A and (int(f))', 'all(A) and 1', 'A and B or 1', 'int(f) == 1 and 2', '(A or 2) and B', 'A and str(f)',
                'A and flt(g)', 'not (A and 1)', 'of(A, 1) or 0', 'A and not(f)', 'int(f) == 1 or int(g)', 'A and -1',
                'A or (B and 3)', 'not(f) and A', '1 or 2', 'int(f) or int(g)', 'A and 1 == int(f)'):
        add('nonpredicate', txt, {'idents': {'A': A, 'B': B}, 'cond': ('raw', txt)})
    return out


def select(tier, seed, fams=None):
    allt = families(tier, seed)
    import os
    only = os.environ.get('VERIF_ONLY')       # debugging aid: restrict to templates whose name contains this text
    if only:
        allt = [t for t in allt if only in t[1]]
    if fams is not None:
        allt = [t for t in allt if t[0] in fams]
    return allt


def limit_rules():
    """rule texts that push a third-party engine to its documented limits (the regex crate refuses to compile a set whose
    program exceeds its size limit although every member compiles on its own): run natively by the load / optimise sweeps
    of C04 and C03 - the contract `build() may return Err` cannot be reached with the bounded strings of the symbolic runs"""
    big = ['?\\w{50}%d' % k for k in range(8)]
    out = {}
    out['regex list beyond the set size limit'] = 'detection:\n  A:\n    x:\n' + ''.join("    - '%s'\n" % p for p in big) + \
        '  condition: A\ntrue_positives: []\ntrue_negatives: []\n'
    out['i-regex list beyond the set size limit'] = 'detection:\n  A:\n    x:\n' + ''.join("    - 'i%s'\n" % p for p in big) + \
        '  condition: A\ntrue_positives: []\ntrue_negatives: []\n'
    out['or of regex identifiers beyond the set size limit'] = 'detection:\n' + ''.join("  I%d:\n    x: '%s'\n" % (k, p) for k, p in enumerate(big)) + \
        '  condition: ' + ' or '.join('I%d' % k for k in range(8)) + '\ntrue_positives: []\ntrue_negatives: []\n'
    out['sequence of regex entries beyond the set size limit'] = 'detection:\n  A:\n' + ''.join("    - x: '%s'\n" % p for p in big) + \
        '  condition: A\ntrue_positives: []\ntrue_negatives: []\n'
    # more distinct fields in one or-group than there are one-character keys below the surrogate range: the matrix pass
    # names its columns char::from_u32(index)
    n = 0xD800 + 4
    out['or-group over more fields than the matrix pass has column keys'] = 'detection:\n  A:\n' + ''.join('    - f%d: x\n' % i for i in range(n)) + \
        '    - f0: y\n  condition: A\ntrue_positives: []\ntrue_negatives: []\n'
    return out


MUST = {'single/"a\'', 'single/i\'a"', 'single/"',
        'list-mixed/<=1.5,>100.0', 'list-mixed/=2,>=7,<-1', 'modifier/{str(f), g}', 'modifier/{not(f), g}', 'modifier/{int(f), g}',
        'list/i?a,i?b', 'list/?a,?b', 'list/a,?a,ib', 'list/a*,*b', 'list/ia,ib*', 'list/a*,*a,*a*,a', 'list/ab,b', 'list/a*,*b,ic',
        'list-all/a*,*b', 'list-all/i?a,i?b', 'list-all/ab,b', 'list-of/a*,*b|2', 'list-of/?a,?b|2', 'list-of/ia,ib*|1', 'list-of/a,b|0',
        'single/iA*', 'single/*a*', 'single/"a"', 'regex/i?a', 'number/>1', 'number/<=0.5', 'scalar/int1', 'scalar/null',
        'quant-short/of2:a-only', 'quant-short/of0:a-only', 'quant-short/all:>1,<5', 'quant-ident/of(seq,2)', 'quant-ident/all(list)',
        'quant-ident/of(list,2)', 'quant-ident/not of(map,1)', 'quant-ident/of(seq1block,1)', 'quant-ident/of(seq1block,2)', 'quant-ident/all(seq1block)', 'cast-cond/int(f)>1', 'cast-cond/str(f)==str(g)', 'cast-cond/not flt(f)>=1.5',
        'regex-rewrite/?.*a', 'regex-rewrite/list', 'regex-rewrite/i?.*A', 'modifier/str(f) list', 'modifier/not(f) list', 'list-mixed/1,a',
        'list-mixed/>1,<5', 'list/ab*,*c,id', 'list/abc*,*c,?q', 'list-all/ab*,*c,id', 'list-of/ab*,*c,id|2', 'quant-short/all:nested3', 'quant-short/of2:nested3', 'quant-short/of3:nested3', 'cast-cond/1<int(f)', 'cast-cond/1.5>=flt(f)', 'cast-cond/not 2<=int(f)',
        'list/a,i?b', 'list/i?ab,c*,id',
        'list-mixed/*,>1', 'list-mixed/>=1,<=5', 'quant-short/all:>=1,<=5', 'modifier/str(f) float constant',
        'regex/i?^\\D+$', 'regex/i?\\Sa', 'modifier/{not(f), not(g), h}',
        'modifier/multi-word keys', 'modifier/all(multi-word key)', 'modifier/int(multi-word key)',
        'modifier/wide-space key', 'modifier/str(wide-space key)', 'modifier/number-word key 2.0', 'modifier/number-word key 007', 'scalar/u64max', 'scalar/i64max+1', 'single/ a', 'single/a ', 'single/ a*', 'nested/n:[{f,g},{f,g}]', 'shake/A or B two maps', 'shake/A and B two seqs', 'shake/(A and B and C) or (D and E and F)', 'shake/(A or B or C) and (D or E or F)',
        'modifier/not(f) >1', 'modifier/not(f) <=1.5 under not', 'regex-rewrite/of2 twins', 'regex-rewrite/of2 twins+1', 'regex-rewrite/all twins', 'regex-rewrite/i?^ks', 'regex-rewrite/i?ks$',
        'shake/A or B or C one text two kinds', 'shake/seq one text two kinds', 'shake/seq one text two kinds i', 'quant-ident/all(tabled)', 'quant-ident/of(tabled,2)', 'quant-ident/all(part-tabled)', 'quant-ident/of(part-tabled,2)'}


def thin(tpl, quota, rnd):
    """quick-tier thinning: every family keeps its MUST templates plus a seeded sample up to the quota"""
    by = {}
    for t in tpl:
        by.setdefault(t[0], []).append(t)
    out = []
    for fam, ts in by.items():
        n = quota.get(fam)
        if n is None or n >= len(ts):
            out += ts
            continue
        keep = [t for t in ts if t[1] in MUST]
        rest = [t for t in ts if t[1] not in MUST]
        out += keep + rnd.sample(rest, max(0, min(len(rest), n - len(keep))))
    return out
