"""C10  Field paths resolve to exactly the addressed value.

(1) totality: the real Object::find MIR (the trait's default method and its two
    closures) on a *symbolic key* over the alphabet {a b . [ ] 0 1 9 x} against
    a symbolic object graph: every path returns Some/None, none panics.
(2) resolution: for every enumerated key (well-formed paths up to depth D with
    optional indices, and near-miss shapes: empty segments, scalar in the
    middle, out-of-range / malformed indices) the real MIR is executed on a
    symbolic object graph (every position object / array / scalar / absent) and
    each path's result is compared - by identity of the returned value - with a
    reference resolver written from the statement; z3 decides that no path
    condition is compatible with a different expected outcome.
(3) nested = dotted: rule `n: {f: p}` vs `n.f: p`, real loader and real solver
    MIR on a document that implements Object; z3 decides the verdicts agree
    whenever `n` is an object; and the array-of-objects existential is checked
    against the reference semantics of C02.
"""
import itertools
import re
import z3
from common import *
from treelib import *
from mirsym.doc import *
import templates as T
import oracle as O
from mirsym.models_std import deref_all, some

TRUE = z3.BitVecVal(0, 64)


def confirm_override(ck, br, d, model, key, f):
    """native confirmation through the std containers that implement Object (HashMap) and the hand-written one"""
    docj = d.render(model)
    exp = None
    for cond, e in ref_resolve(d, key):
        if cond is True or z3.is_true(model.eval(z3bool(cond), model_completion=True)):
            exp = e
    expj = exp.render(model) if exp is not None else None
    out = {}
    for mode in ('hashmap', 'object'):
        n = br.call(cmd='find', key=list(key.encode()), doc=docj, mode=mode)
        out[mode] = n
        natv = n.get('value') if n.get('found') else None
        if 'panic' in n or json.dumps(natv, sort_keys=True) != json.dumps(expj, sort_keys=True):
            path = ck.write_replay('override_' + safe(key), {'function': f.name, 'key': key, 'doc': docj, 'native': out, 'expected': expj, 'mode': mode,
                                                            'request': {'cmd': 'find', 'key': list(key.encode()), 'doc': docj, 'mode': mode}})
            ck.replays_ok += 1
            return ('violation', path, '%s: find(%r) on a %s document %s returns %s, the addressed value is %s' % (
                f.name.split('::')[-2][-40:], key, mode, json.dumps(docj), json.dumps(natv), json.dumps(expj)))
    return ('spurious', 'native find agrees with the reference for HashMap and Object documents')


def main_ident_of(t):
    from mirsym.program import main_ident
    return main_ident(t)


def main():
    ck = Check('C10', 'model_checking')
    quick = ck.tier == 'quick'
    D = 3 if quick else 4
    ck.bounds = {'symbolic keys': '<= %d bytes over {a b . [ ] 0 1 9 x}' % (5 if quick else 7),
                 'enumerated keys': 'depth <= %d, names {a, b}, indices {0, 1, 2, 10}, plus malformed shapes' % D,
                 'object graph': 'depth 3, arrays <= 2 elements, every position object/array/scalar/absent; field names {a, b}'}
    ck.assumptions = ['Object::get on a user object = exact key lookup (objects have the field names a and b, each present or absent; other names absent)',
                      'Array::iter yields the elements in order', 'usize::from_str exact']
    ck.functions |= {'value::Object::find (default method + closures)', 'document::<O as Document>::find', 'solver::solve_expression (Nested arm)'}
    units = [('total', 5 if quick else 7)]
    keys = enumerate_keys(D)
    import random
    rnd = random.Random(ck.seed)
    if quick and len(keys) > 260:
        wf = [k for k in keys if k[1] == 'wf']
        keys = [k for k in keys if k[1] != 'wf'] + rnd.sample(wf, 200)
    chunk = 12
    for i in range(0, len(keys), chunk):
        units.append(('resolve', [k[0] for k in keys[i:i + chunk]]))
    # the same for the copy of Object::find that the `sync` feature compiles (a sample of the keys in the quick tier)
    units.append(('total-sync', 5 if quick else 7))
    skeys = [k for k in keys if k[1] != 'wf'] + [k for k in keys if k[1] == 'wf'][::(7 if quick else 1)]
    for i in range(0, len(skeys), chunk):
        units.append(('resolve-sync', [k[0] for k in skeys[i:i + chunk]]))
    for fam in ('plain', 'list', 'two', 'deep', 'index'):
        units.append(('nested', fam))
    units.append(('overrides',))
    units.append(('delegation',))
    ck.extra['enumerated_keys'] = len(keys)
    ck.run_units(units, run_unit)
    ck.finish('Object::find MIR on symbolic keys (totality) and on enumerated keys over a symbolic object graph vs reference resolver; '
              'nested vs dotted rules on real solver MIR')


def enumerate_keys(D):
    names = ['a', 'b']
    idx = ['', '[0]', '[1]', '[2]', '[10]']
    segs = [n + i for n in names for i in idx]
    out = []
    for d in range(1, D + 1):
        for combo in itertools.product(segs, repeat=d):
            out.append(('.'.join(combo), 'wf'))
    bad = ['', '.', 'a.', '.a', 'a..b', 'a[', 'a]', 'a[]', 'a[x]', 'a[0', 'a0]', 'a[0]b', '[0]', 'a[0][1]', 'a[-1]', 'a[+1]', 'a[ 1]', 'a[01]',
           'a[18446744073709551616]', 'a.b[', 'a[0].', 'c', 'a.c', 'a[0].c', 'ab', 'a.b.a.b.a', ']', 'a]b[', 'a[1]]', 'a.[0]', 'a[00]']
    out += [(k, 'malformed') for k in bad]
    return out


# ---- reference resolver ----------------------------------------------------

def ref_resolve(doc, key):
    """-> [(cond, Cell or None)]: which value the key addresses, by the
    statement: descend objects by name, `name[i]` = i-th element of array `name`;
    every step must exist and have the right shape."""
    segs = key.split('.')
    branches = [(True, ('obj', doc))]
    for si, seg in enumerate(segs):
        name, index = seg, None
        if seg.endswith(']') and '[' in seg:
            name, rest = seg.split('[', 1)
            # `name[i]`: exactly one index; anything after it (`a[0][1]`, `a[0][zz]`) addresses something else than
            # a[0] and must not be answered with a[0] (never fabricated from a shorter path)
            inner = rest
            if '[' in rest or not inner.endswith(']'):
                index = 'bad'
            else:
                txt = inner[:-1]
                import re
                index = int(txt) if re.fullmatch(r'\+?\d+', txt) and int(txt) < 2 ** 64 else 'bad'
        nxt = []
        for cond, cur in branches:
            if cur is None or cur[0] != 'obj':
                # a scalar / array / missing in the middle: the field is missing
                nxt.append((cond, None))
                continue
            d = cur[1]
            if index == 'bad':
                nxt.append((cond, None))
                continue
            present, cell = d.lookup(name.encode())
            nxt.append((b_and(cond, z3.Not(present)), None))
            if index is None:
                nxt.append((b_and(cond, present), ('cell', cell)))
            else:
                nxt.append((b_and(cond, present, cell.kind != K_ARRAY), None))
                if K_ARRAY in cell.kinds:
                    arr = cell.arr
                    if index < arr.cap:
                        nxt.append((b_and(cond, present, cell.kind == K_ARRAY, z3.UGT(arr.length, index)), ('cell', arr.elems[index])))
                        nxt.append((b_and(cond, present, cell.kind == K_ARRAY, z3.ULE(arr.length, index)), None))
                    else:
                        nxt.append((b_and(cond, present, cell.kind == K_ARRAY), None))
        # cells become the current position; descending further needs an object
        branches = []
        for cond, cur in nxt:
            if cur is None:
                branches.append((cond, None))
            else:
                branches.append((cond, cur))
        # prepare for the next segment: a cell that is an object lets us descend
        prepared = []
        for cond, cur in branches:
            prepared.append((cond, cur))
        branches = prepared
        # convert ('cell', c) into object positions lazily at the next iteration
        conv = []
        for cond, cur in branches:
            conv.append((cond, cur))
        branches = conv
        if si != len(segs) - 1:
            stepped = []
            for cond, cur in branches:
                if cur is None:
                    stepped.append((cond, None))
                else:
                    cell = cur[1]
                    if K_OBJECT in cell.kinds:
                        stepped.append((b_and(cond, cell.kind == K_OBJECT), ('obj', cell.obj)))
                    stepped.append((b_and(cond, cell.kind != K_OBJECT), None))
            branches = stepped
    return [(c, (cur[1] if cur is not None else None)) for c, cur in branches if c is not False]


def delegation_unit(ck, prog):
    """an `Object` used as a document (`impl Document for &dyn Object`, the blanket `impl Document for O`) answers every
    key - plain, dotted, indexed, malformed - with what the object's own `find` answers: a user object may override `find`
    (the trait invites it), so no key may be routed to `get` or resolved in any other way"""
    n = 0
    for f in prog.fns:
        if f.kind != 'fn' or not f.name.startswith('document::<impl at ') or not f.name.endswith('::find'):
            continue
        uni = engine.Universe()
        ex = ck.new_engine(prog, uni=uni, summarise=())
        models_chars.install(ex)
        key = S.fresh('key', 5, uni.axioms, ascii_only=True)
        alpha = [ord(c) for c in 'ab.[]01x']
        for b in key.bytes:
            uni.axioms.append(z3.Or(*[b == c for c in alpha]))
        obj = Opaque('userobj')
        asked = []

        def hook(e, callee, args, obj=obj, asked=asked):
            if not args or deref_all(args[0]) is not obj:
                return None
            m = re.search(r' as (?:value::)?Object>::(\w+)$', callee)
            if not m:
                raise Unsupported('call on a user object: %s' % callee)
            from mirsym.models_std import as_str as _as_str
            k = _as_str(args[1]) if len(args) > 1 else None
            asked.append((m.group(1), k))
            return (some(Opaque('answer', (m.group(1), k))),)
        ex.call_hook = hook
        res = ex.explore(f, [Ref(Cont([Ref(Cont([obj]), 0)]), 0), StrV(key)])
        for r in res:
            ck.blocks |= r.blocks
        if not coverage_complete(ck, uni, res):
            ck.inconclusive.append('delegation: coverage')
        bad = []
        for r in res:
            okv = False
            if r.kind == 'return' and isinstance(r.value, Adt) and r.value.vname == 'Some':
                a = r.value.items[0]
                if isinstance(a, Opaque) and a.kind == 'answer' and a.data[0] == 'find' and a.data[1] is not None:
                    okv = z3bool(S.s_eq(a.data[1], key))
            bad.append(b_and(r.cond(), z3.Not(okv) if okv is not False else True))
        n += 1
        label = 'Object as Document delegates to Object::find (%s)' % f.name.split('>')[0].split(' at ')[-1]

        def on_sat(model, f=f):
            kb = S.model_bytes(model, key)
            n = ck.bridge().call(cmd='delegation', key=list(kb))
            path = ck.write_replay('delegation_' + kb.hex(), {'function': f.name, 'key': kb.decode('latin1'), 'native': n,
                                                               'request': {'cmd': 'delegation', 'key': list(kb)},
                                                               'what': 'the document adapter does not answer this key with the object\'s own find()'})
            ck.replays_ok += 1
            if n.get('dyn') != 'find' or n.get('blanket') != 'find' or 'panic' in n:
                return ('violation', path, '%s: key %r is not answered by the object\'s find(): %r' % (label, kb, n))
            return ('spurious', 'natively both adapters answer %r through find()' % kb)
        ck.obligation(label, uni, b_or(*bad) if bad else False, sample={'form': label, 'paths': len(res)}, on_sat=on_sat)
    if n == 0:
        ck.inconclusive.append('delegation: no Document impl for objects found in document.rs')
    ck.extra['document_adapters_for_objects'] = n


def run_unit(ck, unit):
    kind = unit[0]
    prog = ck.program()
    if kind == 'delegation':
        delegation_unit(ck, prog)
        return
    if kind.endswith('-sync'):
        # the `sync` feature compiles a second, separately written copy of the Object trait and its impls
        kind = kind[:-len('-sync')]
        prog = ck.program(('sync',))
        ck.use_sync = True          # replays go to the bridge built with the same feature
    quick = ck.tier == 'quick'
    if kind in ('total', 'resolve'):
        uni = engine.Universe()
        ex = ck.new_engine(prog, uni=uni, summarise=())
        models_chars.install(ex)
        bounds = Bounds(str_cap=1, arr_cap=2, depth=3, names=[b'a', b'b'], as_object=True)
        d = SymDoc(uni, 'doc', bounds)
        find = prog.trait_default('Object', 'find')
        if find is None:
            raise Unsupported('no MIR for Object::find')
        if kind == 'total':
            N = unit[1]
            key = S.fresh('key', N, uni.axioms, ascii_only=True)
            alpha = [ord(c) for c in 'ab.[]019x']
            for b in key.bytes:
                uni.axioms.append(z3.Or(*[b == c for c in alpha]))
            res = ex.explore(find, [Ref(Cont([d]), 0), StrV(key)])
            for r in res:
                ck.blocks |= r.blocks
            if not coverage_complete(ck, uni, res):
                ck.inconclusive.append('total: coverage')
            panics = [r for r in res if r.kind == 'panic']
            br = ck.bridge(sync=getattr(ck, 'use_sync', False))

            def on_sat(model):
                kb = S.model_bytes(model, key)
                docj = d.render(model)
                n = br.call(cmd='find', key=list(kb), doc=docj)
                path = ck.write_replay('find_panic_' + kb.hex(), {'key': kb.decode('latin1'), 'doc': docj, 'native': n,
                                                                  'request': {'cmd': 'find', 'key': list(kb), 'doc': docj}})
                if 'panic' in n:
                    return ('violation', path, 'Object::find(%r) panics: %s' % (kb, n['panic']))
                return ('spurious', 'native find(%r) does not panic' % kb)
            ck.obligation('find(symbolic key): no panic', uni, b_or(*[r.cond() for r in panics]) if panics else False,
                          sample={'form': 'Object::find on symbolic key', 'paths': len(res), 'bytes<=': N}, on_sat=on_sat)
            ck.extra['totality_paths'] = len(res)
            return
        br = ck.bridge(sync=getattr(ck, 'use_sync', False))
        for key in unit[1]:
            res = ex.explore(find, [Ref(Cont([d]), 0), StrV(key.encode())])
            for r in res:
                ck.blocks |= r.blocks
            ck.extra['programs'] = ck.extra.get('programs', 0) + 1
            ref = ref_resolve(d, key)
            bad = []
            for r in res:
                if r.kind == 'panic':
                    bad.append((r.cond(), 'panic', None))
                    continue
                v = r.value
                got = None
                if isinstance(v, Adt) and v.variant == 1:
                    got = v.items[0]
                elif isinstance(v, SymEnum):
                    got = 'sym'
                for cond, exp in ref:
                    expv = exp.value() if exp is not None else None
                    if got is expv:
                        continue
                    c = b_and(r.cond(), cond)
                    if c is not False:
                        bad.append((c, got, exp))
            neg = b_or(*[c for c, _, _ in bad]) if bad else False

            def on_sat(model, key=key, bad=bad):
                docj = d.render(model)
                n = br.call(cmd='find', key=list(key.encode()), doc=docj)
                # expectation on the concrete document, by the same reference rules
                exp = None
                for cond, e in ref_resolve(d, key):
                    if cond is True or z3.is_true(model.eval(z3bool(cond), model_completion=True)):
                        exp = e
                expj = exp.render(model) if exp is not None else None
                path = ck.write_replay('find_' + safe(key), {'key': key, 'doc': docj, 'native': n, 'expected': expj,
                                                             'request': {'cmd': 'find', 'key': list(key.encode()), 'doc': docj}})
                if 'panic' in n:
                    return ('violation', path, 'find(%r) panics' % key)
                natv = n.get('value') if n.get('found') else None
                ck.replays_ok += 1
                if json.dumps(natv, sort_keys=True) == json.dumps(expj, sort_keys=True):
                    return ('spurious', 'native find agrees with the reference (%s)' % path)
                return ('violation', path, 'find(%r) on %s: native %s, addressed value %s' % (key, json.dumps(docj), json.dumps(natv), json.dumps(expj)))
            ck.obligation('find(%r)' % key, uni, neg, sample={'key': key, 'paths': len(res), 'reference_branches': len(ref)}, on_sat=on_sat)
        return
    if kind == 'overrides':
        # an Object implementation of the crate that overrides `find` must still resolve paths as documented
        overrides = [f for f in prog.fns if f.kind == 'fn' and '<impl at ' in f.name and f.name.endswith('::find') and 'closure' not in f.name
                     and (prog.impl_info(f.name) or (None, None))[0] and main_ident_of(prog.impl_info(f.name)[0]) == 'Object']
        ck.extra['object_find_overrides'] = [f.name for f in overrides]
        ck.obligations += 1
        if not overrides:
            ck.discharged += 1
            ck.samples.append({'form': 'Object impls overriding find()', 'found': 0})
            return
        ck.obligations -= 1
        br = ck.bridge()
        for f in overrides:
            uni = engine.Universe()
            ex = ck.new_engine(prog, uni=uni, summarise=())
            models_chars.install(ex)
            d = SymDoc(uni, 'doc', Bounds(str_cap=1, arr_cap=2, depth=3, as_object=True))
            for key in ['a', 'a.b', 'a[0]', 'a.b.a', 'b.a[1]', 'a[1].b', 'a..b']:
                # the container may also hold the whole key text as a literal name: the documented lookup never consults it
                res = ex.explore(f, [Ref(Cont([d]), 0), StrV(key.encode())])
                ref = ref_resolve(d, key)
                bad = []
                for r in res:
                    if r.kind == 'panic':
                        bad.append(r.cond())
                        continue
                    v = r.value
                    got = v.items[0] if isinstance(v, Adt) and v.variant == 1 else None
                    for cond, exp in ref:
                        expv = exp.value() if exp is not None else None
                        if got is not expv:
                            c = b_and(r.cond(), cond)
                            if c is not False:
                                bad.append(c)
                ck.obligation('%s(%r) resolves like Object::find' % (f.name.split('>::')[0][-30:], key), uni, b_or(*bad) if bad else False,
                              sample={'override': f.name, 'key': key},
                              on_sat=lambda m, key=key, f=f: confirm_override(ck, br, d, m, key, f))
        return
    if kind == 'nested':
        fam = unit[1]
        br = ck.bridge()
        S_, M, K, L = T.S, T.M, T.K, T.L
        pairs = {
            'plain': (M((K('n'), M((K('f'), S_('a'))))), M((K('n.f'), S_('a'))), ['n']),
            'list': (M((K('n'), M((K('f'), L(S_('a*'), S_('*b')))))), M((K('n.f'), L(S_('a*'), S_('*b')))), ['n']),
            'two': (M((K('n'), M((K('f'), S_('a')), (K('g'), ('i', 1))))), M((K('n.f'), S_('a')), (K('n.g'), ('i', 1))), ['n']),
            'deep': (M((K('n'), M((K('m'), M((K('f'), S_('a'))))))), M((K('n.m.f'), S_('a'))), ['n', 'n.m']),
            'index': (M((K('n'), M((K('f[0]'), S_('a'))))), M((K('n.f[0]'), S_('a'))), ['n']),
        }[fam]
        nested, dotted, objs = pairs
        tr = TreeRunner(ck, Bounds(str_cap=2, arr_cap=2, depth=3, as_object=True), as_object=True)
        y1 = T.render({'idents': {'A': nested}, 'cond': ('id', 'A')})
        y2 = T.render({'idents': {'A': dotted}, 'cond': ('id', 'A')})
        r1, r2 = br.call(cmd='load', yaml=y1, opts=None), br.call(cmd='load', yaml=y2, opts=None)
        if not (r1.get('ok') and r2.get('ok')):
            ck.inconclusive.append('nested %s: rules do not load: %r %r' % (fam, r1.get('err'), r2.get('err')))
            return
        v1, v2 = tr.evaluate(r1), tr.evaluate(r2)
        # "whenever the intermediate values are objects"
        conds = []
        d = tr.doc
        for path in objs:
            cur = d
            for seg in path.split('.'):
                present, cell = cur.lookup(seg.encode())
                conds.append(z3.And(present, cell.kind == K_OBJECT))
                cur = cell.obj
        inter = z3.And(*conds)

        def on_sat(model):
            docj = tr.render_doc(model)
            n1 = br.call(cmd='eval', yaml=y1, opts=None, doc=docj, mode='object')
            n2 = br.call(cmd='eval', yaml=y2, opts=None, doc=docj, mode='object')
            path = ck.write_replay('nested_' + fam, {'nested_rule': y1, 'dotted_rule': y2, 'doc': docj, 'native_nested': n1, 'native_dotted': n2,
                                                     'mode': 'object'})
            if n1.get('verdict') == n2.get('verdict'):
                return ('spurious', 'native verdicts agree')
            ck.replays_ok += 1
            return ('violation', path, 'nested vs dotted (%s): %s vs %s on %s' % (fam, n1.get('verdict'), n2.get('verdict'), json.dumps(docj)))
        ck.obligation('nested == dotted (%s)' % fam, tr.uni, z3.And(inter, (v1['res'] == TRUE) != (v2['res'] == TRUE)),
                      sample={'nested': y1.split('\n')[1:5], 'dotted': y2.split('\n')[1:4]}, on_sat=on_sat)
        ck.obligation('nested (%s): no panic' % fam, tr.uni, b_or(v1['panic'], v2['panic']))
        # array of objects: "some element satisfies it" (reference semantics of C02, document as Object)
        if fam != 'index':       # the reference interpreter addresses fields by plain names only
            orc = O.Oracle(tr.uni, tr.doc)
            want = orc.rule({'idents': {'A': nested}, 'cond': ('id', 'A')})
            ck.obligation('nested over array of objects = some element (%s)' % fam, tr.uni, (v1['res'] == TRUE) != (want == TRUE))
        r1_, _ = ck.solve(tr.uni, inter, v1['res'] == TRUE)
        if r1_ != 'sat':
            ck.inconclusive.append('nested %s: vacuity' % fam)
        ck.extra['programs'] = ck.extra.get('programs', 0) + 2
        return
    raise ValueError(unit)


if __name__ == '__main__':
    run_check(main)
