"""C15  ignore_case build equals the default build with every pattern i-prefixed.

(a) The MIR dumps of the two builds (default / --features ignore_case) are
    compared function by function: only bodies of the pattern-parsing layer
    (src/identifier.rs, entry point `into_identifier`) may differ.
(b) `into_identifier` of both builds (real MIR) is executed on a symbolic string
    s (ignore_case build) and on "i" + s (default build); for every pair of
    compatible paths z3 decides that the two results - Ok/Err, pattern kind,
    payload, case flag - are equal.  With (a), equal identifiers imply equal
    trees and equal verdicts for every rule and document.
(c) cross-check at tree level: every string-pattern template is loaded by the
    ignore_case bridge, and its i-prefixed version by the default bridge; the
    exported trees must be identical.
"""
import json
import z3
from common import *
from treelib import *
import templates as T


def main():
    ck = Check('C15', 'other')
    quick = ck.tier == 'quick'
    N = 5 if quick else 7
    ck.bounds = {'pattern strings': '<= %d ASCII bytes' % N, 'templates (tree level)': 'all string-pattern templates'}
    ck.assumptions = ['non-ASCII lower-casing is outside the claim (patterns ASCII)',
                      'RegexBuilder validity / f64 value: uninterpreted functions of the pattern text (the same text gives the same answer in both builds)',
                      'equal identifiers imply equal trees: everything downstream of into_identifier is the same code in both builds (part a)']
    ck.functions |= {'identifier::into_identifier (both builds)', 'all function bodies of both MIR dumps (structural comparison)'}
    ck.run_units([('diff',), ('ident', N), ('trees',)], run_unit, jobs=3)
    ck.finish('(a) structural MIR diff of the two builds; (b) z3 equality of into_identifier results on s vs "i"+s; (c) tree equality through the two bridges')


def body_sig(f):
    """structure of a MIR body, independent of alloc / promoted numbering"""
    import re
    out = []
    for bb in sorted(f.blocks):
        b = f.blocks[bb]
        out.append(('bb', bb, repr(b['stmts']), repr(b['term'])))
    txt = repr(out)
    txt = re.sub(r'alloc\d+', 'alloc', txt)
    txt = re.sub(r'promoted\[\d+\]', 'promoted[]', txt)
    return txt


def run_unit(ck, unit):
    kind = unit[0]
    if kind == 'diff':
        pa = ck.program()
        pb = ck.program(('ignore_case',))
        fa = {f.name: f for f in pa.fns if f.kind == 'fn'}
        fb = {f.name: f for f in pb.fns if f.kind == 'fn'}
        ck.obligations += 1
        names_differ = sorted(set(fa) ^ set(fb))
        differing = [n for n in fa if n in fb and body_sig(fa[n]) != body_sig(fb[n])]
        ck.extra['functions_compared'] = len(set(fa) & set(fb))
        ck.extra['functions_differing'] = differing
        # the builds may differ only inside the pattern-parsing layer (src/identifier.rs); part (b) then compares
        # into_identifier of the two builds, which is the only entry point of that layer
        in_layer = lambda n: n.startswith('identifier::') or 'src/identifier.rs' in n
        okd = all(in_layer(n) for n in differing) and not [n for n in names_differ if 'promoted' not in n and not in_layer(n)]
        if okd and differing:
            ck.discharged += 1
        elif not differing:
            ck.inconclusive.append('the ignore_case build does not differ from the default build at all (feature not compiled in?)')
        else:
            p = ck.write_replay('mir_diff', {'differing': differing, 'only_in_one': names_differ})
            ck.violations.append((p, 'functions outside the pattern-parsing layer differ between the builds: %s' % [n for n in differing if not in_layer(n)][:5]))
        ck.samples.append({'form': 'MIR diff', 'differing': differing})
        return
    if kind == 'ident':
        N = unit[1]
        pa = ck.program()
        pb = ck.program(('ignore_case',))
        uni = engine.Universe()
        s = S.fresh('s', N, uni.axioms, ascii_only=True)
        si = S.SStr([0x69] + list(s.bytes), z3.simplify(s.length + 1), 'i+s')
        results = {}
        for tag, prog, arg in (('default', pa, si), ('ignore_case', pb, s)):
            ex = ck.new_engine(prog, uni=uni, summarise=())
            models_chars.install(ex)
            fn = [f for f in prog.fns if f.kind == 'fn' and f.name.endswith('::into_identifier')][0]
            results[tag] = ex.explore(fn, [StrV(arg)])
        A, B = results['default'], results['ignore_case']
        ck.extra['paths_default'] = len(A)
        ck.extra['paths_ignore_case'] = len(B)
        bra, brb = ck.bridge(), ck.bridge(ignore_case=True)
        pairs = 0
        for ra in A:
            for rb in B:
                both = [*ra.pc, *rb.pc]
                r0, _ = ck.solve(uni, *both)
                if r0 != 'sat':
                    continue
                pairs += 1
                diff = result_differs(ra, rb)

                def on_sat(model):
                    b = S.model_bytes(model, s)
                    n1 = bra.call(cmd='ident', s=list(b'i' + b))
                    n2 = brb.call(cmd='ident', s=list(b))
                    path = ck.write_replay('ident_' + b.hex(), {'pattern': b.decode('latin1'), 'default_build_on_i_prefixed': n1, 'ignore_case_build': n2})
                    if json.dumps(n1, sort_keys=True) == json.dumps(n2, sort_keys=True):
                        return ('spurious', 'the two native builds agree on %r' % b)
                    ck.replays_ok += 1
                    return ('violation', path, 'pattern %r: ignore_case build gives %r, default build on i-prefixed gives %r' % (b, n2, n1))
                ck.obligation('ident pair', uni, z3.And(*both, z3bool(diff)) if diff is not False else False,
                              sample={'form': 'into_identifier(s) [ignore_case] vs into_identifier("i"+s) [default]'} if pairs == 1 else None,
                              on_sat=on_sat)
        ck.extra['compatible_path_pairs'] = pairs
        return
    if kind == 'trees':
        bra, brb = ck.bridge(), ck.bridge(ignore_case=True)
        if not brb.call(cmd='ping').get('ignore_case'):
            ck.inconclusive.append('ignore_case bridge was not built with the feature')
            return
        n = 0
        for fam, name, rule in T.select(ck.tier, ck.seed):
            if fam in ('nonpredicate', 'undefined-ident'):
                continue
            pre = prefix_rule(rule)
            if pre is None:
                continue
            r1 = brb.call(cmd='load', yaml=T.render(rule), opts=None)
            r2 = bra.call(cmd='load', yaml=T.render(pre), opts=None)
            n += 1
            ck.obligations += 1
            same = (r1.get('ok'), r1.get('expr'), r1.get('idents')) == (r2.get('ok'), r2.get('expr'), r2.get('idents'))
            if same:
                ck.discharged += 1
            else:
                p = ck.write_replay('tree_' + safe(name), {'rule': T.render(rule), 'i_prefixed': T.render(pre), 'ignore_case_build': r1, 'default_build': r2})
                ck.violations.append((p, '%s: ignore_case tree differs from the default tree of the i-prefixed rule' % name))
        ck.extra['programs'] = n
        ck.replays_ok += n
        return


def prefix_rule(rule):
    """the same rule with `i` prepended to every string pattern"""
    def val(v):
        if v[0] == 's':
            return ('s', 'i' + v[1])
        if v[0] == 'list':
            return ('list', [val(x) for x in v[1]])
        if v[0] == 'map':
            return ('map', [(k, val(x)) for k, x in v[1]])
        return v
    try:
        ids = {}
        for k, ident in rule['idents'].items():
            if ident[0] == 'map':
                ids[k] = val(ident)
            else:
                ids[k] = ('seq', [val(m) for m in ident[1]])
        return dict(rule, idents=ids)
    except Exception:
        return None


def result_differs(ra, rb):
    """condition under which the two path results differ (False = identical)"""
    if ra.kind != rb.kind:
        return True
    if ra.kind == 'panic':
        return False
    va, vb = ra.value, rb.value
    if va.vname != vb.vname:
        return True
    if va.vname == 'Err':
        return False
    ia, ib = va.items[0], vb.items[0]
    fa_, fb_ = ia.items[0], ib.items[0]
    pa_, pb_ = ia.items[1], ib.items[1]
    d = []
    if isinstance(fa_, bool) and isinstance(fb_, bool):
        if fa_ != fb_:
            return True
    else:
        d.append(z3bool(fa_) != z3bool(fb_))
    if pa_.vname != pb_.vname:
        return True
    if pa_.items:
        x, y = pa_.items[0], pb_.items[0]
        if isinstance(x, StrV):
            d.append(z3.Not(z3bool(S.s_eq(x.s, y.s))))
        elif isinstance(x, BV):
            d.append(to_z3bv(x) != to_z3bv(y))
        elif isinstance(x, FP):
            xa, ya = engine.to_fp(x), engine.to_fp(y)
            d.append(z3.Not(z3.Or(z3.fpEQ(xa, ya), z3.And(z3.fpIsNaN(xa), z3.fpIsNaN(ya)))))
        elif hasattr(x, 'pattern'):
            d.append(z3.Not(z3bool(S.s_eq(x.pattern, y.pattern))))
            if isinstance(x.insensitive, bool) and isinstance(y.insensitive, bool):
                if x.insensitive != y.insensitive:
                    return True
            else:
                d.append(z3bool(x.insensitive) != z3bool(y.insensitive))
    d = [c for c in d if not z3.is_false(z3.simplify(c))]
    return z3.Or(*d) if d else False


if __name__ == '__main__':
    run_check(main)
