"""C06  Three-valued connectives obey their truth tables.

Real MIR of solve / solve_expression / match_all / match_of is executed on
trees whose operands are opaque leaves: the recursive solve_expression call on
a leaf returns a fresh symbolic SolverResult r_i in {True, False, Missing}.
For every connective form and arity the result term is compared by z3 with the
truth table of the property statement, for all r in {T,F,M}^k and (for of) all
thresholds c in u64 at once.
"""
import itertools
import z3
from common import *

T, F, M = (z3.BitVecVal(i, 64) for i in range(3))


def leaf(i):
    return {'t': 'Field', 'f': list(('L%d' % i).encode())}


def group(op, k):
    return {'t': 'BooleanGroup', 'op': op, 'g': [leaf(i) for i in range(k)]}


def chain(op, k, left=True):
    e = leaf(0) if left else leaf(k - 1)
    if left:
        for i in range(1, k):
            e = {'t': 'BooleanExpression', 'l': e, 'op': op, 'r': leaf(i)}
    else:
        for i in range(k - 2, -1, -1):
            e = {'t': 'BooleanExpression', 'l': leaf(i), 'op': op, 'r': e}
    return e


# ---- truth tables of the statement, as z3 terms ----------------------------

def t_and(rs):
    e = T
    for r in reversed(rs):
        e = z3.If(r != T, r, e)
    return e


def t_or(rs):
    return z3.If(z3.Or(*[r == T for r in rs]), T, z3.If(z3.Or(*[r == F for r in rs]), F, M))


def t_not(r):
    return z3.If(r == T, F, z3.If(r == F, T, F))


def count_true(rs):
    return z3.Sum(*[z3.If(r == T, z3.IntVal(1), z3.IntVal(0)) for r in rs]) if len(rs) > 1 else \
        z3.If(rs[0] == T, z3.IntVal(1), z3.IntVal(0))


def t_of(rs, c):
    """of(.., c) over the operands rs (c: BV64)"""
    ci = z3.BV2Int(c, is_signed=False)
    anyT = z3.Or(*[r == T for r in rs])
    anyF = z3.Or(*[r == F for r in rs])
    zero = z3.If(anyT, F, z3.If(anyF, T, M))
    pos = z3.If(count_true(rs) >= ci, T, z3.If(anyF, F, M))
    return z3.If(c == 0, zero, pos)


def t_of_single(r, c):
    """of(X, c) where X is a single predicate: one operand"""
    zero = z3.If(r == T, F, z3.If(r == F, T, M))
    pos = z3.If(z3.And(r == T, c == 1), T, z3.If(r == F, F, z3.If(r == T, F, M)))
    return z3.If(c == 0, zero, pos)


def main():
    ck = Check('C06', 'model_checking')
    prog = ck.program()
    imp = models_tau.TreeImporter(prog)
    kmax = 4 if ck.tier == 'quick' else 6
    ck.bounds = {'arity': '1..%d' % kmax, 'threshold': 'all u64 (symbolic)', 'operand results': '{True,False,Missing}^k (symbolic)'}
    ck.assumptions = [
        'operands are opaque: solve_expression on a leaf returns an arbitrary SolverResult (the leaf arms are the subject of C02/C07/C09)',
        'tracing disabled (Level <= LevelFilter modelled as false); logging has no effect on tracked state',
        'HashMap::get modelled as exact lookup in the identifier map',
    ]
    ck.functions |= {'solver::solve', 'solver::solve_expression', 'solver::match_all', 'solver::match_of'}

    uni = engine.Universe()
    rs = [z3.BitVec('r%d' % i, 64) for i in range(kmax)]
    for r in rs:
        uni.axioms.append(z3.ULE(r, 2))
    c = z3.BitVec('c', 64)
    leaf_val = {('L%d' % i).encode(): SymEnum('SolverResult', rs[i], {}) for i in range(kmax)}

    def hook(ex, callee, args):
        if callee.startswith('solve_expression') or callee.endswith('::solve_expression'):
            e = args[0].get()
            if isinstance(e, Adt) and e.vname == 'Field':
                name = e.items[0].s
                if name in leaf_val:
                    return (leaf_val[name],)
        return None

    forms = []   # (name, expr json, idents, oracle term)
    for k in range(1, kmax + 1):
        R = rs[:k]
        forms.append(('group-and/%d' % k, group('And', k), {}, t_and(R)))
        forms.append(('group-or/%d' % k, group('Or', k), {}, t_or(R)))
        if k >= 2:
            for left in (True, False):
                side = 'left' if left else 'right'
                forms.append(('binary-and-%s/%d' % (side, k), chain('And', k, left), {}, t_and(R)))
                forms.append(('binary-or-%s/%d' % (side, k), chain('Or', k, left), {}, t_or(R)))
        # all(..)
        for gop in ('Or', 'And'):
            forms.append(('all-inline-group-%s/%d' % (gop, k), {'t': 'Match', 'm': 'All', 'e': group(gop, k)}, {}, t_and(R)))
            forms.append(('all-identifier-group-%s/%d' % (gop, k),
                          {'t': 'Match', 'm': 'All', 'e': {'t': 'Identifier', 'f': list(b'X')}},
                          {b'X': group(gop, k)}, t_and(R)))
            forms.append(('of-inline-group-%s/%d' % (gop, k), {'t': 'Match', 'm': 'SYM', 'e': group(gop, k)}, {}, t_of(R, c)))
            forms.append(('of-identifier-group-%s/%d' % (gop, k),
                          {'t': 'Match', 'm': 'SYM', 'e': {'t': 'Identifier', 'f': list(b'X')}},
                          {b'X': group(gop, k)}, t_of(R, c)))
    forms.append(('not/1', {'t': 'Negate', 'e': leaf(0)}, {}, t_not(rs[0])))
    forms.append(('not-not/1', {'t': 'Negate', 'e': {'t': 'Negate', 'e': leaf(0)}}, {}, t_not(t_not(rs[0]))))
    forms.append(('identifier/1', {'t': 'Identifier', 'f': list(b'X')}, {b'X': leaf(0)}, rs[0]))
    forms.append(('all-identifier-single/1', {'t': 'Match', 'm': 'All', 'e': {'t': 'Identifier', 'f': list(b'X')}},
                  {b'X': leaf(0)}, t_and(rs[:1])))
    forms.append(('all-inline-single/1', {'t': 'Match', 'm': 'All', 'e': leaf(0)}, {}, t_and(rs[:1])))
    forms.append(('of-identifier-single/1', {'t': 'Match', 'm': 'SYM', 'e': {'t': 'Identifier', 'f': list(b'X')}},
                  {b'X': leaf(0)}, t_of_single(rs[0], c)))
    forms.append(('of-inline-single/1', {'t': 'Match', 'm': 'SYM', 'e': leaf(0)}, {}, t_of_single(rs[0], c)))

    def build(ej):
        """json -> Expression, with a symbolic threshold where m == 'SYM'"""
        if ej['t'] == 'Match' and ej['m'] == 'SYM':
            inner = imp.expr(ej['e'])
            m = imp.enum('Match', 'Of', [BV(c, 'u64')])
            return imp.enum('Expression', 'Match', [m, BoxV([inner])])
        return imp.expr(ej)

    ex = ck.new_engine(prog, uni=uni)
    ex.call_hook = hook
    dummy_doc = doc.SymDoc(uni, 'doc', doc.Bounds())
    ck.extra['programs'] = len(forms)
    for name, ej, ids, oracle in forms:
        e = build(ej)
        idm = MapV({k: imp.expr(v) for k, v in ids.items()})
        ex.frozen_below = next_oid()
        args = [Ref(Cont([e]), 0), Ref(Cont([idm]), 0), Ref(Cont([dummy_doc]), 0)]
        results = ex.explore('solve_expression', args)
        for r in results:
            ck.blocks |= r.blocks
        val, panic_c, panics = summarise_paths(results)
        res = sr_term(val)
        # (a) no panic for any operand results / threshold
        def on_panic(model, name=name, panics=panics):
            p = ck.write_replay(name.replace('/', '_') + '_panic',
                                {'form': name, 'operands': [str(model.eval(r, model_completion=True)) for r in rs],
                                 'c': str(model.eval(c, model_completion=True)), 'panic': str(panics[0][1])})
            return ('violation', p, 'panic in connective form %s' % name)
        ck.obligation(name + ':no-panic', uni, panic_c, on_sat=on_panic)
        # (b) the explored paths cover every input
        if not coverage_complete(ck, uni, results):
            ck.inconclusive.append('%s: path conditions do not cover the input space' % name)
        # (c) truth table
        def on_sat(model, name=name, res=res, oracle=oracle, ej=ej, ids=ids):
            ops = [SOLVER_RESULT[model.eval(r, model_completion=True).as_long()] for r in rs]
            cv = model.eval(c, model_completion=True).as_long()
            got = SOLVER_RESULT[model.eval(res, model_completion=True).as_long()]
            want = SOLVER_RESULT[model.eval(oracle, model_completion=True).as_long()]
            role = name.split('/')[0]
            key = 'connective:%s' % role
            # confirm through the real code: only forms that can be written as a rule are replayable;
            # leaves become `Li: {fi: 'v'}` predicates and the document supplies T/F/M per leaf
            rep = replay_form(ck, name, ej, ops, cv, got, want, ids)
            if rep is None:
                return ('spurious', 'form %s not replayable natively' % name)
            ok_native, path = rep
            if not ok_native:
                return ('spurious', 'native evaluation agrees with the truth table (%s)' % path)
            kf = ck.known_match(key)
            if kf:
                return ('known', '%s :: %s' % (key, kf['desc']))
            return ('violation', path, '%s: operands=%s c=%d engine=%s table=%s' % (name, ops, cv, got, want))
        ck.obligation(name + ':table', uni, res != oracle,
                      sample={'form': name, 'oracle': str(z3.simplify(oracle))[:200]}, on_sat=on_sat,
                      cvc5=(name.endswith('/2') or name.endswith('/1')))
        # (d) vacuity witnesses: each value the table can take is reachable
        for v, vn in ((T, 'True'), (F, 'False'), (M, 'Missing')):
            r1, _ = ck.solve(uni, oracle == v)
            if r1 == 'sat':
                r2, _ = ck.solve(uni, res == v, oracle == v)
                if r2 != 'sat':
                    ck.inconclusive.append('%s: vacuity witness failed for %s' % (name, vn))
    # (e) encoding self-check: a deliberately wrong table must be refuted
    e = build(group('And', 2))
    ex.frozen_below = next_oid()
    results = ex.explore('solve_expression', [Ref(Cont([e]), 0), Ref(Cont([MapV({})]), 0), Ref(Cont([dummy_doc]), 0)])
    val, _, _ = summarise_paths(results)
    r, _ = ck.solve(uni, sr_term(val) != t_or(rs[:2]))
    if r != 'sat':
        ck.inconclusive.append('self-check: swapped and/or oracle was not refuted')
    # (f) solve(): True => true, False | Missing => false
    det = Adt('Detection', None, None, [build(leaf(0)), MapV({}), StrV(b''), Opaque('raw')])
    # solve() calls solve_expression on the top expression; the hook makes it r0
    res = ex.explore('solve', [Ref(Cont([det]), 0), Ref(Cont([dummy_doc]), 0)])
    bval, pc, _ = summarise_paths(res)
    ck.obligation('solve:bool', uni, z3bool(bval) != (rs[0] == T), sample={'form': 'solve()', 'oracle': 'r0 == True'})
    ck.obligation('solve:no-panic', uni, pc)
    ck.finish('connective forms x arity; operands and thresholds symbolic; z3 decides result != truth table per form')


def real_leaf(i):
    return {'t': 'Search', 's': {'t': 'Exact', 'v': list(b'v')}, 'f': list(('f%d' % i).encode()), 'c': False}


def realise(ej, cv):
    """the form with real leaves (fi == 'v') and a concrete threshold"""
    if isinstance(ej, dict):
        if ej.get('t') == 'Field' and bytes(ej['f']).startswith(b'L'):
            return real_leaf(int(bytes(ej['f'])[1:]))
        out = {k: realise(v, cv) for k, v in ej.items()}
        if out.get('t') == 'Match' and out.get('m') == 'SYM':
            out['m'] = cv
        return out
    if isinstance(ej, list):
        return [realise(x, cv) for x in ej]
    return ej


def replay_form(ck, name, ej, ops, cv, got, want, ids=None):
    """evaluate the same form natively (bridge eval_tree on the exported-tree
    format, leaves = `fi: v` predicates, document supplies true/false/missing
    per leaf).  The native API only shows "is true", so the three-valued result
    is read off the tree and its negation.  Returns (violates, replay_path)."""
    tree = realise(ej, cv)
    idents = [[list(k), realise(v, cv)] for k, v in (ids or {}).items()]
    fields = []
    for i, o in enumerate(ops):
        if o == 'True':
            fields.append([list(('f%d' % i).encode()), {'$str': list(b'v')}])
        elif o == 'False':
            fields.append([list(('f%d' % i).encode()), {'$str': list(b'w')}])
    docj = {'$obj': fields}
    br = ck.bridge()
    r1 = br.call(cmd='eval_tree', expr=tree, idents=idents, doc=docj, mode='flat')
    r2 = br.call(cmd='eval_tree', expr={'t': 'Negate', 'e': tree}, idents=idents, doc=docj, mode='flat')
    path = ck.write_replay(name.replace('/', '_'), {'tree': tree, 'idents': idents, 'doc': docj, 'native': r1, 'native_negated': r2,
                                                    'engine_mir': got, 'truth_table': want, 'operands': ops, 'threshold': cv,
                                                    'request': {'cmd': 'eval_tree', 'expr': tree, 'idents': idents, 'doc': docj, 'mode': 'flat'}})
    if 'panic' in r1 or 'panic' in r2:
        return (True, path)
    if 'verdict' not in r1 or 'verdict' not in r2:
        return None
    native = 'True' if r1['verdict'] else ('False' if r2['verdict'] else 'Missing')
    ck.replays_ok += 1
    return (native != want, path)


if __name__ == '__main__':
    run_check(main)
