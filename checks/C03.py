"""C03  An accepted rule can always be evaluated (no panic after load).

(b) For every template rule the loader accepts, and every tree the optimiser
    produces for it under the 16 switch combinations, the real solver MIR is
    executed against a fully symbolic document and z3 decides whether any
    panic path (unreachable!(), expect(), index out of range, overflow assert)
    is feasible.  The templates include conditions whose and/or/not operands
    are not predicates; the property demands those are rejected at load time.
(c) The native optimiser is run on every template under every switch
    combination inside catch_unwind.
(a) lives in C05's token-level run of the real parser (parse MIR over symbolic
    token vectors) and is reported there and here.
"""
import z3
from common import *
from treelib import *
import templates


def main():
    ck = Check('C03', 'model_checking')
    quick = ck.tier == 'quick'
    ck.bounds = {'doc strings': '<= %d ASCII bytes' % (3 if quick else 4), 'arrays': '<= %d elements' % (2 if quick else 3),
                 'nesting depth': 2, 'value kinds': 'all eight, i64/u64 full range, doubles incl. NaN', 'switch combinations': 16}
    ck.assumptions = ['callee models of DESIGN 2.3; a panic inside a third-party engine (regex, aho-corasick) is outside the claim',
                      'rules = templates (enumerated), documents symbolic']
    ck.functions |= {'solver::solve_expression', 'solver::match_all', 'solver::match_of', 'solver::search', 'solver::slow_aho',
                     'solver::Cache::find', 'solver::Passthrough::find', 'value::Object::find', 'optimiser::* (native, catch_unwind)'}
    tpl = templates.select(ck.tier, ck.seed)
    if quick:
        import random
        rnd = random.Random(ck.seed + 3)
        quota = {'single': 5, 'regex': 2, 'number': 3, 'scalar': 3, 'list': 5, 'list-all': 4, 'list-of': 5, 'list-mixed': 4,
                 'quant-short': 6, 'quant-ident': 6, 'cast-cond': 6, 'regex-rewrite': 3}
        tpl = templates.thin(tpl, quota, rnd)
    ck.extra['templates'] = len(tpl)
    # optimise() and validate() take no document: for a given rule text they are one concrete computation, run natively
    # (catch_unwind) for *every* template of the tier under all 16 switch combinations, not only for the thinned set
    every = [(name, templates.render(rule)) for _, name, rule in templates.select(ck.tier, ck.seed)]
    every += [('limits/' + k, v) for k, v in templates.limit_rules().items()]
    ck.extra['templates_optimise_sweep'] = len(every)
    sweep = [('@optimise-sweep', every[i::12]) for i in range(12)]
    ck.run_units(sweep + [('@cache-keys', None), ('@find-total', None)] + [('@conditions', n) for n in range(1, 5)] + [(name, templates.render(rule)) for _, name, rule in tpl], run_unit)
    ck.finish('panic reachability on real solver MIR for every accepted template rule x optimiser output, documents symbolic')


def run_unit(ck, unit):
    name, yaml = unit
    if name == '@cache-keys':
        # Cache::find's expect()/index on the synthetic matrix keys: every column index a matrix can have
        import C16
        C16.cache_keys(ck)
        return
    if name == '@find-total':
        # documents that are `Object`s resolve keys through Object::find (both copies of the trait): no key string an accepted
        # rule can carry may make it panic (C10's totality unit, here as part of "matching never panics")
        import C10
        C10.run_unit(ck, ('total', 5 if ck.tier == 'quick' else 7))
        C10.run_unit(ck, ('total-sync', 5 if ck.tier == 'quick' else 7))
        return
    if name == '@optimise-sweep':
        br = ck.bridge()
        for nm, y in yaml:
            base = br.call(cmd='load', yaml=y, opts=None)
            if 'panic' in base:
                continue        # loading is C04's business
            if not base.get('ok'):
                continue
            for opts in artifacts.OPT_COMBOS:
                ck.obligations += 1
                r = br.call(cmd='load', yaml=y, opts=opts)
                if 'panic' in r:
                    p = ck.write_replay(safe(nm) + '_optimise_panic_' + opts_label(opts), {'rule': y, 'opts': opts, 'native': r})
                    ck.violations.append((p, 'optimise(%s) panicked on the accepted rule %s: %s' % (opts_label(opts), nm, r['panic'][:200])))
                    break
                ck.discharged += 1
            ck.obligations += 1
            r = br.call(cmd='validate', yaml=y)
            if 'panic' in r:
                p = ck.write_replay(safe(nm) + '_validate_panic', {'rule': y, 'native': r})
                ck.violations.append((p, 'validate() panicked on the accepted rule %s: %s' % (nm, r['panic'][:200])))
            else:
                ck.discharged += 1
            ck.replays_ok += 17
        return
    if name == '@conditions':
        # (a) conditions derived from the parser's own paths: accepted ones must have predicate operands (C05 run), and a rule
        # that leaves one of their identifiers undefined must be rejected at load
        import C05
        C05.conditions_unit(ck, ck.program(), yaml)
        return
    quick = ck.tier == 'quick'
    br = ck.bridge()

    def on_panic(opts, r):
        ck.obligations += 1
        p = ck.write_replay(safe(name) + '_optimise_panic', {'rule': yaml, 'opts': opts, 'native': r})
        ck.violations.append((p, 'optimise(%s) panicked on an accepted rule %s: %s' % (opts_label(opts), name, r['panic'][:200])))
    base, variants, _ = collect_variants(ck, br, yaml, 3 if quick else 8, on_panic=on_panic)
    if 'panic' in base:
        return
    if not base.get('ok'):
        ck.extra['rejected_at_load'] = ck.extra.get('rejected_at_load', 0) + 1
        return
    ck.extra['accepted'] = ck.extra.get('accepted', 0) + 1
    variants.setdefault(tree_text(base), (None, base))
    tr = TreeRunner(ck, Bounds(str_cap=3 if quick else 4, arr_cap=2 if quick else 3, depth=2))
    tr.uni.numstr_cap = 2
    for txt, (opts, rj) in variants.items():
        label = '%s opts=%s' % (name, opts_label(opts) if opts else 'none')
        v = tr.evaluate(rj)
        ck.extra['programs'] = ck.extra.get('programs', 0) + 1

        def on_sat(model, opts=opts, rj=rj, label=label, v=v):
            docj = tr.render_doc(model)
            n1 = br.call(cmd='eval_tree', expr=rj['expr'], idents=rj['idents'], doc=docj, mode='flat')
            n2 = br.call(cmd='eval', yaml=yaml, opts=opts, doc=docj, mode='flat')
            path = ck.write_replay(safe(label), {'rule': yaml, 'opts': opts, 'doc': docj, 'tree': rj['display'],
                                                 'native_tree_eval': n1, 'native_rule_eval': n2,
                                                 'mir_panics': [str(p) for _, p in v['panics']][:3]})
            if 'panic' in n1 or 'panic' in n2:
                key = 'solver-panic:non-predicate-operand' if 'unreachable' in (n1.get('panic', '') + n2.get('panic', '')) else 'solver-panic'
                kf = ck.known_match(key)
                if kf:
                    return ('known', '%s :: %s' % (key, kf['desc']))
                return ('violation', path, '%s: matches() panics on %s: %s' % (label, json.dumps(docj), n1.get('panic') or n2.get('panic')))
            return ('spurious', 'native evaluation does not panic (%s)' % path)
        ck.obligation(label + ':no-panic', tr.uni, v['panic'], sample={'rule': name, 'tree': rj['display'][:160]}, on_sat=on_sat)
    # the same on documents whose strings are well-formed UTF-8 with multi-byte characters (byte offsets that are not
    # character boundaries): the loaded tree of every template made of plain string predicates
    fam = name.split('/', 1)[0]
    if fam in ('single', 'list', 'list-all', 'list-of', 'list-mixed', 'sequence', 'modifier') and '?' not in yaml:
        tr8 = TreeRunner(ck, Bounds(str_cap=3 if quick else 4, arr_cap=1, depth=1, utf8=2 if quick else 3))
        tr8.uni.numstr_cap = 2
        label = '%s utf8' % name
        v8 = tr8.evaluate(base)
        ck.extra['programs_utf8'] = ck.extra.get('programs_utf8', 0) + 1

        def on_sat8(model):
            docj = tr8.render_doc(model)
            n1 = br.call(cmd='eval_tree', expr=base['expr'], idents=base['idents'], doc=docj, mode='flat')
            n2 = br.call(cmd='eval', yaml=yaml, opts=[True, True, True, True], doc=docj, mode='flat')
            path = ck.write_replay(safe(label), {'rule': yaml, 'opts': None, 'doc': docj, 'tree': base['display'], 'native_tree_eval': n1,
                                                 'native_rule_eval_optimised': n2, 'mir_panics': [str(p) for _, p in v8['panics']][:3]})
            if 'panic' in n1 or 'panic' in n2:
                return ('violation', path, '%s: matches() panics on %s: %s' % (label, json.dumps(docj), n1.get('panic') or n2.get('panic')))
            return ('spurious', 'native evaluation does not panic (%s)' % path)
        ck.obligation(label + ':no-panic', tr8.uni, v8['panic'], on_sat=on_sat8)


if __name__ == '__main__':
    run_check(main)
