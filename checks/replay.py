"""replay a counterexample file written by a check against the real code
(native bridge, dev and release builds)"""
import json, sys, os
sys.path.insert(0, os.path.dirname(os.path.dirname(os.path.abspath(__file__))))
from mirsym import artifacts


def main():
    path = sys.argv[1]
    d = json.load(open(path))
    for profile in ('dev', 'release'):
        br = artifacts.Bridge(profile)
        print('== %s build' % profile)
        rules = d.get('rules') or {'rule': d.get('rule')}
        if isinstance(rules, dict):
            for k, y in rules.items():
                if y is None:
                    continue
                if 'doc' in d:
                    for opts in ([None] + ([d['opts']] if d.get('opts') else [])):
                        print(k, 'opts=%s' % opts, br.call(cmd='eval', yaml=y, opts=opts, doc=d['doc'], mode=d.get('mode', 'flat')))
                else:
                    print(k, br.call(cmd='load', yaml=y, opts=d.get('opts')))
        for k in ('permuted',):
            if k in d and 'doc' in d:
                print(k, br.call(cmd='eval', yaml=d[k], opts=None, doc=d['doc'], mode='flat'))
        for k in ('member_rules',):
            for i, y in enumerate(d.get(k, [])):
                print('%s[%d]' % (k, i), br.call(cmd='eval', yaml=y, opts=None, doc=d['doc'], mode='flat'))
        if 'request' in d:
            print('request', br.call(**d['request']))
        br.close()


if __name__ == '__main__':
    main()
